//! C23 — cancellation is always reported as cancellation.
//!
//! For every explored operation the harness first records the uncancelled progress trace together
//! with the source location (file, line) of every `check_progress` call reached (`#[track_caller]`
//! hook), then re-runs the operation once for **every** callback index k: answering `false` at k,
//! calling `Context::cancel()` inside callback k, and having another thread call `cancel()` while
//! callback k runs; plus once with the cancel flag pre-set.
//!
//! Operations: read (embedded, box-hash bound, sidecar = manifest data + stream, fragmented BMFF,
//! fixtures with ingredients, freshly built nested ingredient trees), sign (`save_to_stream`, every
//! writable container), ingredient import, the placeholder / embeddable flows
//! (`placeholder` + `update_hash_from_stream` + `sign_embeddable` for DataHash / BoxHash / BmffHash,
//! `data_hashed_placeholder` + `sign_data_hashed_embeddable`), and the async twins of read / sign /
//! ingredient import / sidecar / fragment; reads of an asset with a remote manifest and of a
//! fixture whose certificate names an OCSP responder (fetching enabled) go through an in-process
//! HTTP transport so that the FetchingRemoteManifest / FetchingOCSP checkpoints are reached (the
//! latter replays the open finding `swallow-site:crypto/ocsp/fetch.rs`).
//!
//! Request lines (see lean/C2paModel/Model/C23.lean):
//!   C23 cancel n=<callbacks of the uncancelled run> k=<index answered false>  -> cancelled <k+1>
//!   C23 cancelin n=<…> k=<…>                                                  -> cancelled <k+1>
//!   C23 flag n=<…>                                                            -> cancelled 1
//!   C23 seq mode=<false|cancel|thread> k=<k> sites=<file:line,…>              -> cancelled <k+1>
//!       (the checkpoints that very run reached; the model looks each one up in the table
//!        regenerated from the sources and answers `unknown-site …` for a location that is no row)
//!   C23 wf trace=<phase:step:total,…>                                         -> wf | bad
//!   C23 ingtree shape=<p|m(..)…>   -> the VerifyingIngredient/VerifyingSignature ticks of a read
//!   C23 ingticks n=<n>             -> the VerifyingIngredient ticks of n plain ingredients
//! The implementation reply for the cancelling requests is `cancelled <callbacks observed>` when
//! the result is `Err(OperationCancelled)`, else `finished <callbacks>` / `err:<class> <callbacks>`.

use std::{
    future::Future,
    io::{Cursor, Read},
    sync::{
        atomic::{AtomicUsize, Ordering},
        Arc, Mutex,
    },
    time::Instant,
};

use async_trait::async_trait;
use c2pa::http::{
    http::{Request, Response},
    AsyncHttpResolver, HttpResolverError, SyncHttpResolver,
};
use c2pa::{
    verif_hooks::c23 as hook, AsyncSigner, Builder, Context, EphemeralSigner, Error, HashRange, ProgressPhase, Reader,
    Signer, SigningAlg,
};
use vh::common::{fixtures, guarded, main_with, Rng, Run};
use vh::sign::{definition, sign_asset, unsigned_sources};

fn main() {
    main_with("C23", run);
}

fn block_on<F: Future>(f: F) -> F::Output {
    tokio::runtime::Builder::new_current_thread().enable_all().build().expect("runtime").block_on(f)
}

/// The ephemeral signer behind the `AsyncSigner` trait.
struct AsyncEph(EphemeralSigner);

#[async_trait]
impl AsyncSigner for AsyncEph {
    async fn sign(&self, data: Vec<u8>) -> c2pa::Result<Vec<u8>> {
        self.0.sign(&data)
    }

    fn alg(&self) -> SigningAlg {
        self.0.alg()
    }

    fn certs(&self) -> c2pa::Result<Vec<Vec<u8>>> {
        self.0.certs()
    }

    fn reserve_size(&self) -> usize {
        self.0.reserve_size()
    }
}

type Trace = Arc<Mutex<Vec<(String, u32, u32)>>>;

/// In-process HTTP transport: answers every request with `body` (status 200), or fails when
/// `body` is `None`. Lets the sweep reach the FetchingRemoteManifest / FetchingOCSP checkpoints
/// without a network.
struct Serve(Option<Arc<Vec<u8>>>);

impl Serve {
    fn reply(&self) -> Result<Response<Box<dyn Read>>, HttpResolverError> {
        match &self.0 {
            None => Err(HttpResolverError::Io(std::io::Error::other("offline"))),
            Some(b) => Response::builder()
                .status(200)
                .header("content-length", b.len().to_string())
                .body(Box::new(Cursor::new(b.as_ref().clone())) as Box<dyn Read>)
                .map_err(HttpResolverError::Http),
        }
    }
}

impl SyncHttpResolver for Serve {
    fn http_resolve(&self, _request: Request<Vec<u8>>) -> Result<Response<Box<dyn Read>>, HttpResolverError> {
        self.reply()
    }
}

#[async_trait]
impl AsyncHttpResolver for Serve {
    async fn http_resolve_async(&self, _request: Request<Vec<u8>>) -> Result<Response<Box<dyn Read>>, HttpResolverError> {
        self.reply()
    }
}

const REMOTE: &str = r#"{"verify":{"remote_manifest_fetch":true,"ocsp_fetch":false}}"#;
const OCSP: &str = r#"{"verify":{"remote_manifest_fetch":false,"ocsp_fetch":true}}"#;
const BASE: &str = r#"{"verify":{"remote_manifest_fetch":false,"ocsp_fetch":false}}"#;
const BOX: &str = r#"{"verify":{"remote_manifest_fetch":false,"ocsp_fetch":false},"core":{"prefer_compress_manifests":true}}"#;
const PREFER_BOX: &str = r#"{"verify":{"remote_manifest_fetch":false,"ocsp_fetch":false},"builder":{"prefer_box_hash":true}}"#;

/// What the progress callback of one run does at invocation `k`.
#[derive(Clone, Copy, PartialEq)]
enum Mode {
    /// answer `true` always
    None,
    /// answer `false` at k
    False(usize),
    /// call `Context::cancel()` on the own context inside callback k, answer `true`
    CancelIn(usize),
    /// a second thread calls `cancel()` while callback k waits for it, answer `true`
    CancelThread(usize),
}

/// Where the callback finds the context it belongs to (filled in once the context is shared).
type Slot = Arc<Mutex<Option<Arc<Context>>>>;

struct Probe {
    trace: Trace,
    count: Arc<AtomicUsize>,
    slot: Slot,
    last_tick: Arc<Mutex<Option<Instant>>>,
}

impl Probe {
    fn new() -> Self {
        Probe { trace: Default::default(), count: Default::default(), slot: Default::default(), last_tick: Default::default() }
    }

    fn ctx(&self, settings: &str, mode: Mode) -> c2pa::Result<Context> {
        let (trace, count, slot, last) = (self.trace.clone(), self.count.clone(), self.slot.clone(), self.last_tick.clone());
        Ok(Context::new().with_settings(settings)?.with_progress_callback(move |phase: ProgressPhase, step, total| {
            let i = count.fetch_add(1, Ordering::SeqCst);
            trace.lock().unwrap().push((format!("{phase:?}"), step, total));
            *last.lock().unwrap() = Some(Instant::now());
            match mode {
                Mode::None => true,
                Mode::False(k) => i != k,
                Mode::CancelIn(k) => {
                    if i == k {
                        if let Some(c) = slot.lock().unwrap().as_ref() {
                            c.cancel();
                        }
                    }
                    true
                }
                Mode::CancelThread(k) => {
                    if i == k {
                        let c = slot.lock().unwrap().clone();
                        if let Some(c) = c {
                            let _ = std::thread::spawn(move || c.cancel()).join();
                        }
                    }
                    true
                }
            }
        }))
    }
}

/// ingredient tree of a claim (mirrors `Ing` of the Lean model)
#[derive(Clone, Debug)]
enum Ing {
    Plain,
    Manifest(Vec<Ing>),
}

fn shape(cs: &[Ing]) -> String {
    cs.iter()
        .map(|c| match c {
            Ing::Plain => "p".to_string(),
            Ing::Manifest(k) => format!("m({})", shape(k)),
        })
        .collect()
}

/// Signed JPEG whose claim has exactly the ingredient list `cs`.
fn build_tree(cs: &[Ing], plain: &[u8]) -> c2pa::Result<Vec<u8>> {
    let ctx = Context::new().with_settings(BASE)?.with_signer(EphemeralSigner::new("verif.test")?);
    let mut b = Builder::from_context(ctx).with_definition(definition("c23 tree", "image/jpeg").as_str())?;
    for (i, c) in cs.iter().enumerate() {
        let data = match c {
            Ing::Plain => plain.to_vec(),
            Ing::Manifest(k) => build_tree(k, plain)?,
        };
        b.add_ingredient_from_stream(
            serde_json::json!({"title": format!("ing{i}"), "relationship": "componentOf"}).to_string(),
            "image/jpeg",
            &mut Cursor::new(data),
        )?;
    }
    let mut out = Cursor::new(Vec::new());
    b.save_to_stream("image/jpeg", &mut Cursor::new(plain.to_vec()), &mut out)?;
    Ok(out.into_inner())
}

#[derive(Clone)]
enum Op {
    Read { fmt: String, asset: Arc<Vec<u8>>, tag: String, is_async: bool, tree: Option<String> },
    Sidecar { fmt: String, manifest: Arc<Vec<u8>>, asset: Arc<Vec<u8>>, is_async: bool },
    Fragment { init: Arc<Vec<u8>>, frag: Arc<Vec<u8>>, is_async: bool },
    Sign { fmt: String, src: Arc<Vec<u8>>, is_async: bool },
    Ingredient { fmt: String, src: Arc<Vec<u8>>, ing_fmt: String, ing: Arc<Vec<u8>>, is_async: bool },
    /// `update_hash_from_stream` + `sign_embeddable` (direct workflow): kind = data | box | bmff | placeholder
    Embeddable { kind: &'static str, fmt: String, src: Arc<Vec<u8>> },
    /// `data_hashed_placeholder` + `sign_data_hashed_embeddable`
    DataHashed { src: Arc<Vec<u8>>, is_async: bool },
    /// read of an asset whose manifest is remote (XMP provenance URL), served by the in-process transport
    Remote { asset: Arc<Vec<u8>>, manifest: Arc<Vec<u8>>, is_async: bool },
    /// read with OCSP fetching enabled of a fixture whose signing certificate names an OCSP responder
    Ocsp { asset: Arc<Vec<u8>> },
}

impl Op {
    fn name(&self) -> String {
        let a = |x: &bool| if *x { "-async" } else { "" };
        match self {
            Op::Read { fmt, tag, is_async, .. } => format!("read{}:{tag}:{fmt}", a(is_async)),
            Op::Sidecar { fmt, is_async, .. } => format!("sidecar{}:{fmt}", a(is_async)),
            Op::Fragment { is_async, .. } => format!("fragment{}:video/mp4", a(is_async)),
            Op::Sign { fmt, is_async, .. } => format!("sign{}:{fmt}", a(is_async)),
            Op::Ingredient { fmt, ing_fmt, is_async, .. } => format!("ingredient{}:{ing_fmt}->{fmt}", a(is_async)),
            Op::Embeddable { kind, fmt, .. } => format!("embeddable-{kind}:{fmt}"),
            Op::DataHashed { is_async, .. } => format!("datahashed{}:image/jpeg", a(is_async)),
            Op::Remote { is_async, .. } => format!("remote{}:image/jpeg", a(is_async)),
            Op::Ocsp { .. } => "ocsp:image/jpeg".to_string(),
        }
    }

    fn kind(&self) -> String {
        self.name().split(':').next().unwrap_or("").to_string()
    }

    fn settings(&self) -> &'static str {
        match self {
            Op::Embeddable { kind: "box", .. } => PREFER_BOX,
            Op::Remote { .. } => REMOTE,
            Op::Ocsp { .. } => OCSP,
            _ => BASE,
        }
    }

    /// Runs the operation under `ctx`; the shared context is published in `slot` before it starts.
    fn exec(&self, ctx: Context, slot: &Slot) -> c2pa::Result<String> {
        let share = |ctx: Context| -> Arc<Context> {
            let a = Arc::new(ctx);
            *slot.lock().unwrap() = Some(a.clone());
            a
        };
        let with_signer = |ctx: Context, is_async: bool| -> c2pa::Result<Context> {
            Ok(if is_async {
                ctx.with_async_signer(AsyncEph(EphemeralSigner::new("verif.test")?))
            } else {
                ctx.with_signer(EphemeralSigner::new("verif.test")?)
            })
        };
        match self {
            Op::Read { fmt, asset, is_async, .. } => {
                let ctx = share(ctx);
                let s = Cursor::new(asset.as_ref().clone());
                let r = if *is_async {
                    block_on(Reader::from_shared_context(&ctx).with_stream_async(fmt, s))?
                } else {
                    Reader::from_shared_context(&ctx).with_stream(fmt, s)?
                };
                Ok(format!("{:?}", r.validation_state()))
            }
            Op::Sidecar { fmt, manifest, asset, is_async } => {
                let ctx = share(ctx);
                let s = Cursor::new(asset.as_ref().clone());
                let r = if *is_async {
                    block_on(Reader::from_shared_context(&ctx).with_manifest_data_and_stream_async(manifest, fmt, s))?
                } else {
                    Reader::from_shared_context(&ctx).with_manifest_data_and_stream(manifest, fmt, s)?
                };
                Ok(format!("{:?}", r.validation_state()))
            }
            Op::Fragment { init, frag, is_async } => {
                let ctx = share(ctx);
                let (i, f) = (Cursor::new(init.as_ref().clone()), Cursor::new(frag.as_ref().clone()));
                let r = if *is_async {
                    block_on(Reader::from_shared_context(&ctx).with_fragment_async("video/mp4", i, f))?
                } else {
                    Reader::from_shared_context(&ctx).with_fragment("video/mp4", i, f)?
                };
                Ok(format!("{:?}", r.validation_state()))
            }
            Op::Sign { fmt, src, is_async } => {
                let ctx = share(with_signer(ctx, *is_async)?);
                let mut b = Builder::from_shared_context(&ctx).with_definition(definition("c23", fmt).as_str())?;
                let mut out = Cursor::new(Vec::new());
                let mut input = Cursor::new(src.as_ref().clone());
                if *is_async {
                    block_on(b.save_to_stream_async(fmt, &mut input, &mut out))?;
                } else {
                    b.save_to_stream(fmt, &mut input, &mut out)?;
                }
                Ok(format!("signed {}", out.into_inner().len()))
            }
            Op::Ingredient { fmt, src, ing_fmt, ing, is_async } => {
                let ctx = share(with_signer(ctx, *is_async)?);
                let mut b = Builder::from_shared_context(&ctx).with_definition(definition("c23", fmt).as_str())?;
                let ij = serde_json::json!({"title": "ing", "relationship": "componentOf"}).to_string();
                let mut is = Cursor::new(ing.as_ref().clone());
                let mut out = Cursor::new(Vec::new());
                let mut input = Cursor::new(src.as_ref().clone());
                if *is_async {
                    block_on(b.add_ingredient_from_stream_async(ij, ing_fmt, &mut is))?;
                    block_on(b.save_to_stream_async(fmt, &mut input, &mut out))?;
                } else {
                    b.add_ingredient_from_stream(ij, ing_fmt, &mut is)?;
                    b.save_to_stream(fmt, &mut input, &mut out)?;
                }
                Ok(format!("signed {}", out.into_inner().len()))
            }
            Op::Embeddable { kind, fmt, src } => {
                let ctx = share(with_signer(ctx, false)?);
                let mut b = Builder::from_shared_context(&ctx).with_definition(definition("c23", fmt).as_str())?;
                let mut stream = Cursor::new(src.as_ref().clone());
                match *kind {
                    "bmff" => {
                        // the placeholder creates the BmffHash assertion that update_hash_from_stream fills in
                        let _ = b.placeholder(fmt)?;
                    }
                    "placeholder" => {
                        let ph = b.placeholder(fmt)?;
                        // the caller embeds the composed placeholder after the SOI marker
                        let mut with = src[..2].to_vec();
                        with.extend_from_slice(&ph);
                        with.extend_from_slice(&src[2..]);
                        b.set_data_hash_exclusions(vec![HashRange::new(2, ph.len() as u64)])?;
                        stream = Cursor::new(with);
                    }
                    _ => {}
                }
                b.update_hash_from_stream(fmt, &mut stream)?;
                let m = b.sign_embeddable(fmt)?;
                Ok(format!("embeddable {}", m.len()))
            }
            Op::Remote { asset, manifest, is_async } => {
                let ctx = share(ctx.with_resolver(Serve(Some(manifest.clone()))).with_resolver_async(Serve(Some(manifest.clone()))));
                let s = Cursor::new(asset.as_ref().clone());
                let r = if *is_async {
                    block_on(Reader::from_shared_context(&ctx).with_stream_async("image/jpeg", s))?
                } else {
                    Reader::from_shared_context(&ctx).with_stream("image/jpeg", s)?
                };
                Ok(format!("{:?} remote={}", r.validation_state(), r.remote_url().is_some()))
            }
            Op::Ocsp { asset } => {
                let ctx = share(ctx.with_resolver(Serve(None)).with_resolver_async(Serve(None)));
                let r = Reader::from_shared_context(&ctx).with_stream("image/jpeg", Cursor::new(asset.as_ref().clone()))?;
                Ok(format!("{:?}", r.validation_state()))
            }
            Op::DataHashed { src, is_async } => {
                let ctx = share(ctx);
                let mut b = Builder::from_shared_context(&ctx).with_definition(definition("c23", "image/jpeg").as_str())?;
                let signer = EphemeralSigner::new("verif.test")?;
                let ph = b.data_hashed_placeholder(signer.reserve_size(), "image/jpeg")?;
                let mut with = src[..2].to_vec();
                with.extend_from_slice(&ph);
                with.extend_from_slice(&src[2..]);
                let mut dh = c2pa::assertions::DataHash::new("jumbf manifest", "sha256");
                dh.add_exclusion(HashRange::new(2, ph.len() as u64));
                dh.gen_hash_from_stream(&mut Cursor::new(with))?;
                let m = if *is_async {
                    block_on(b.sign_data_hashed_embeddable_async(&AsyncEph(signer), &dh, "image/jpeg"))?
                } else {
                    b.sign_data_hashed_embeddable(&signer, &dh, "image/jpeg")?
                };
                Ok(format!("embeddable {}", m.len()))
            }
        }
    }
}

fn err_class(e: &Error) -> String {
    let d = format!("{e:?}");
    d.chars().take_while(|c| c.is_ascii_alphanumeric()).collect()
}

/// Strict rule (mirrors `traceWfStrict`): steps ≥ 1, ≤ a non-zero total; within consecutive ticks of
/// one phase the step strictly increases, a restart at 1 only directly after a completed pass.
fn wf_oracle(trace: &[(String, u32, u32)]) -> Option<String> {
    for (i, (p, s, t)) in trace.iter().enumerate() {
        if *s < 1 {
            return Some(format!("tick {i} {p}:{s}/{t}: step < 1"));
        }
        if *t != 0 && s > t {
            return Some(format!("tick {i} {p}:{s}/{t}: step exceeds non-zero total"));
        }
        if i > 0 {
            let (pp, ps, pt) = &trace[i - 1];
            if pp == p && !(ps < s || (*s == 1 && ps == pt)) {
                return Some(format!("tick {i} {p}:{s}/{t} after {pp}:{ps}/{pt}: steps do not increase within a run of one phase"));
            }
        }
    }
    None
}

/// `…/sdk/src/store.rs` / `src/store.rs` -> `store.rs`
fn norm_file(f: &str) -> String {
    if let Some(i) = f.rfind("sdk/src/") {
        return f[i + 8..].to_string();
    }
    f.strip_prefix("src/").unwrap_or(f).to_string()
}

struct Outcome {
    res: Result<c2pa::Result<String>, String>,
    seen: usize,
    sites: Vec<(String, u32)>,
    trace: Vec<(String, u32, u32)>,
    suffix_ms: u128,
}

fn run_once(op: &Op, mode: Mode, preset_flag: bool) -> Outcome {
    let p = Probe::new();
    hook::start_recording();
    let res = guarded(std::panic::AssertUnwindSafe(|| {
        p.ctx(op.settings(), mode).and_then(|c| {
            if preset_flag {
                c.cancel();
            }
            op.exec(c, &p.slot)
        })
    }));
    let end = Instant::now();
    let sites = hook::take_recording().into_iter().map(|(f, l)| (norm_file(&f), l)).collect();
    *p.slot.lock().unwrap() = None; // break the Arc cycle context -> callback -> slot -> context
    let suffix_ms = p.last_tick.lock().unwrap().map(|t| end.duration_since(t).as_millis()).unwrap_or(0);
    let trace = p.trace.lock().unwrap().clone();
    Outcome { res, seen: p.count.load(Ordering::SeqCst), sites, trace, suffix_ms }
}

fn sites_str(s: &[(String, u32)]) -> String {
    if s.is_empty() {
        "-".to_string()
    } else {
        s.iter().map(|(f, l)| format!("{f}:{l}")).collect::<Vec<_>>().join(",")
    }
}

pub fn run(run: &mut Run, rng: &mut Rng) {
    run.rule = "operations = read (embedded data-hash / box-hash / BMFF, sidecar, fragmented BMFF, fixtures with ingredients, freshly built nested ingredient trees), sign of every writable container, ingredient import, placeholder / embeddable flows (update_hash_from_stream with DataHash, BoxHash, BmffHash; data_hashed_placeholder), and the async twins; for each, every callback index k of the recorded uncancelled trace is cancelled (exhaustive in k) three ways: callback answers false, cancel() inside the callback, cancel() from a second thread during the callback; plus the pre-set cancel flag; the (file,line) of every checkpoint a run reached is sent to the model, which looks it up in the table regenerated from the sources; cancel() from another thread at random delays for every operation (3 per operation, thorough 40; thorough also takes the larger source files and more ingredient trees); remote-manifest reads and an OCSP-fetching read go through an in-process HTTP transport. non-trivial = a cancelled run whose k-th tick was reached; distinct by (operation, mode, k)".to_string();
    let thorough = run.thorough();
    let max_src = if thorough { 2_600_000 } else { 450_000 };
    let mut ops: Vec<Op> = vec![];
    let mut first_signed: Vec<(String, Arc<Vec<u8>>)> = vec![];
    let mut n_async_sign = 0;
    for (fmt, name) in unsigned_sources() {
        let src = match std::fs::read(fixtures().join(name)) {
            Ok(s) if s.len() <= max_src => Arc::new(s),
            _ => continue,
        };
        ops.push(Op::Sign { fmt: fmt.to_string(), src: src.clone(), is_async: false });
        if n_async_sign < 20 {
            n_async_sign += 1;
            ops.push(Op::Sign { fmt: fmt.to_string(), src: src.clone(), is_async: true });
        }
        match guarded(|| sign_asset(fmt, &src, Some(BASE))) {
            Ok(Ok(signed)) => {
                let signed = Arc::new(signed);
                if first_signed.len() < 2 {
                    first_signed.push((fmt.to_string(), signed.clone()));
                }
                ops.push(Op::Read { fmt: fmt.to_string(), asset: signed.clone(), tag: "data".into(), is_async: false, tree: None });
                {
                    ops.push(Op::Read { fmt: fmt.to_string(), asset: signed, tag: "data".into(), is_async: true, tree: None });
                }
            }
            other => run.notes.push(format!("could not sign {name}: {:?}", other.map(|r| r.map(|v| v.len())))),
        }
    }
    // box-hash bound assets (c2pa.hash.boxes): a different verification path with its own ticks
    for (fmt, name) in [("image/jpeg", "IMG_0003.jpg"), ("image/png", "libpng-test.png"), ("image/gif", "sample1.gif")] {
        if let Ok(src) = std::fs::read(fixtures().join(name)) {
            if src.len() > max_src.max(800_000) {
                continue;
            }
            match guarded(|| sign_asset(fmt, &src, Some(BOX))) {
                Ok(Ok(signed)) => ops.push(Op::Read { fmt: fmt.to_string(), asset: Arc::new(signed), tag: "box".into(), is_async: false, tree: None }),
                other => run.notes.push(format!("could not box-hash sign {name}: {:?}", other.map(|r| r.map(|v| v.len())))),
            }
        }
    }
    // fixtures that already carry manifests with ingredients
    for (fmt, name) in [("image/jpeg", "CACA.jpg"), ("image/jpeg", "C.jpg")] {
        if let Ok(d) = std::fs::read(fixtures().join(name)) {
            ops.push(Op::Read { fmt: fmt.to_string(), asset: Arc::new(d), tag: name.to_string(), is_async: false, tree: None });
        }
    }
    if let Ok(src) = std::fs::read(fixtures().join("IMG_0003.jpg")) {
        let src = Arc::new(src);
        for (i, (ing_fmt, ing)) in first_signed.iter().enumerate() {
            ops.push(Op::Ingredient { fmt: "image/jpeg".to_string(), src: src.clone(), ing_fmt: ing_fmt.clone(), ing: ing.clone(), is_async: false });
            if i == 0 {
                ops.push(Op::Ingredient { fmt: "image/jpeg".to_string(), src: src.clone(), ing_fmt: ing_fmt.clone(), ing: ing.clone(), is_async: true });
            }
        }
        // sidecar: manifest kept out of the asset, read back with manifest data + stream
        let side = guarded(std::panic::AssertUnwindSafe(|| -> c2pa::Result<Vec<u8>> {
            let ctx = Context::new().with_settings(BASE)?.with_signer(EphemeralSigner::new("verif.test")?);
            let mut b = Builder::from_context(ctx).with_definition(definition("c23 sidecar", "image/jpeg").as_str())?;
            b.set_no_embed(true);
            let mut out = Cursor::new(Vec::new());
            b.save_to_stream("image/jpeg", &mut Cursor::new(src.as_ref().clone()), &mut out)
        }));
        match side {
            Ok(Ok(manifest)) => {
                let manifest = Arc::new(manifest);
                for is_async in [false, true] {
                    ops.push(Op::Sidecar { fmt: "image/jpeg".into(), manifest: manifest.clone(), asset: src.clone(), is_async });
                }
            }
            other => run.notes.push(format!("could not produce a sidecar manifest: {:?}", other.map(|r| r.map(|v| v.len()).map_err(|e| err_class(&e))))),
        }
        // remote manifest: not embedded, the asset's XMP names the URL, the transport serves the bytes
        let remote = guarded(std::panic::AssertUnwindSafe(|| -> c2pa::Result<(Vec<u8>, Vec<u8>)> {
            let ctx = Context::new().with_settings(BASE)?.with_signer(EphemeralSigner::new("verif.test")?);
            let mut b = Builder::from_context(ctx).with_definition(definition("c23 remote", "image/jpeg").as_str())?;
            b.set_no_embed(true);
            b.set_remote_url("http://manifests.verif.test/c23.c2pa");
            let mut out = Cursor::new(Vec::new());
            let m = b.save_to_stream("image/jpeg", &mut Cursor::new(src.as_ref().clone()), &mut out)?;
            Ok((out.into_inner(), m))
        }));
        match remote {
            Ok(Ok((asset, manifest))) => {
                let (asset, manifest) = (Arc::new(asset), Arc::new(manifest));
                for is_async in [false, true] {
                    ops.push(Op::Remote { asset: asset.clone(), manifest: manifest.clone(), is_async });
                }
            }
            other => run.notes.push(format!("could not produce an asset with a remote manifest: {:?}", other.map(|r| r.map(|v| v.0.len()).map_err(|e| err_class(&e))))),
        }
        // placeholder / embeddable flows
        ops.push(Op::Embeddable { kind: "data", fmt: "image/jpeg".into(), src: src.clone() });
        ops.push(Op::Embeddable { kind: "box", fmt: "image/jpeg".into(), src: src.clone() });
        ops.push(Op::Embeddable { kind: "placeholder", fmt: "image/jpeg".into(), src: src.clone() });
        for is_async in [false, true] {
            ops.push(Op::DataHashed { src: src.clone(), is_async });
        }
        // nested ingredient trees
        use Ing::{Manifest as M, Plain as P};
        let mut trees: Vec<Vec<Ing>> = vec![
            vec![P, P, P],
            vec![M(vec![P]), P],
            vec![M(vec![P, P]), P],
            vec![P, M(vec![P, P]), P],
            vec![M(vec![M(vec![P, P]), P]), P],
        ];
        if thorough {
            trees.push(vec![M(vec![]), M(vec![P, P, P]), P, P]);
            trees.push(vec![M(vec![P, M(vec![P, P, P])]), M(vec![P]), P]);
        }
        for t in trees {
            match guarded(std::panic::AssertUnwindSafe(|| build_tree(&t, &src))) {
                Ok(Ok(a)) => ops.push(Op::Read { fmt: "image/jpeg".into(), asset: Arc::new(a), tag: format!("tree-{}", shape(&t)), is_async: false, tree: Some(shape(&t)) }),
                other => run.notes.push(format!("could not build ingredient tree {}: {:?}", shape(&t), other.map(|r| r.map(|v| v.len()).map_err(|e| err_class(&e))))),
            }
        }
    }
    for name in ["ocsp.jpg", "ocsp_with_assertion.jpg"] {
        if let Ok(d) = std::fs::read(fixtures().join(name)) {
            ops.push(Op::Ocsp { asset: Arc::new(d) });
        }
    }
    if let Ok(mp4) = std::fs::read(fixtures().join("video1_no_manifest.mp4")) {
        if mp4.len() <= max_src.max(1_000_000) {
            ops.push(Op::Embeddable { kind: "bmff", fmt: "video/mp4".into(), src: Arc::new(mp4) });
        }
    }
    if let (Ok(init), Ok(frag)) = (std::fs::read(fixtures().join("dashinit.mp4")), std::fs::read(fixtures().join("dash1.m4s"))) {
        let (init, frag) = (Arc::new(init), Arc::new(frag));
        for is_async in [false, true] {
            ops.push(Op::Fragment { init: init.clone(), frag: frag.clone(), is_async });
        }
    }

    let mut suffix_max: u128 = 0;
    for op in &ops {
        // uncancelled run: record the trace and the checkpoints
        let b = run_once(op, Mode::None, false);
        let base = match b.res {
            Ok(Ok(s)) => s,
            other => {
                run.notes.push(format!("{}: uncancelled run failed: {:?}", op.name(), other.map(|r| r.map_err(|e| err_class(&e)))));
                continue;
            }
        };
        let t = b.trace.clone();
        let n = t.len();
        suffix_max = suffix_max.max(b.suffix_ms);
        run.count(&format!("op_{}", op.kind()));
        *run.dist.entry("ticks_total".to_string()).or_insert(0) += n as u64;
        for (p, _, _) in &t {
            run.count(&format!("phase_{p}"));
        }
        for (f, _) in &b.sites {
            run.count(&format!("site_file_{f}"));
        }

        // every callback is one checkpoint: the recorded locations and the ticks line up
        if b.sites.len() != n {
            let idx = run.reqs.len().saturating_sub(1);
            run.fail(idx, "checkpoint-without-callback", format!("{}: {} checkpoints recorded but {n} callbacks", op.name(), b.sites.len()));
        }

        // progress trace well-formedness (strict)
        let tr = t.iter().map(|(p, s, tt)| format!("{p}:{s}:{tt}")).collect::<Vec<_>>().join(",");
        let wf = wf_oracle(&t);
        let idx = run.case(format!("C23 wf trace={}", if tr.is_empty() { "-".to_string() } else { tr }), if wf.is_none() { "wf".to_string() } else { "bad".to_string() });
        if let Some(d) = wf {
            run.fail(idx, "progress-trace-ill-formed", format!("{}: {d}", op.name()));
        }

        // ingredient tick emitter: the VerifyingIngredient / VerifyingSignature ticks of the read,
        // after the active manifest's own signature tick, against the model's emitter
        if let Op::Read { tree: Some(sh), .. } = op {
            let got: Vec<String> = t
                .iter()
                .filter(|(p, _, _)| p == "VerifyingIngredient" || p == "VerifyingSignature")
                .skip(1)
                .map(|(p, s, tt)| format!("{p}:{s}:{tt}"))
                .collect();
            run.case(format!("C23 ingtree shape={sh}"), if got.is_empty() { "-".to_string() } else { got.join(",") });
            run.nontrivial(format!("ingtree {sh}"));
            if !sh.contains('m') {
                let flat: Vec<String> = t.iter().filter(|(p, _, _)| p == "VerifyingIngredient").map(|(p, s, tt)| format!("{p}:{s}:{tt}")).collect();
                run.case(format!("C23 ingticks n={}", sh.len()), if flat.is_empty() { "-".to_string() } else { flat.join(",") });
            }
        }

        // which k get the (longer) `seq` request as well: all of a short trace, a sample of a long one
        let seq_k = |k: usize| n <= 40 || k < 6 || k + 3 >= n || k % (n / 24).max(1) == 0;

        for (mname, mk) in [("false", 0usize), ("cancel", 1), ("thread", 2)] {
            for k in 0..n {
                let mode = match mk {
                    0 => Mode::False(k),
                    1 => Mode::CancelIn(k),
                    _ => Mode::CancelThread(k),
                };
                let o = run_once(op, mode, false);
                let seen = o.seen;
                // The number of ticks of one operation is not a constant (e.g. the number of hashed
                // ranges depends on the parity of the freshly generated manifest's size), so a rerun
                // may finish before reaching invocation k; such a rerun is a finished, uncancelled run.
                let reached = seen > k;
                let what = match mk {
                    0 => format!("callback false at tick {k}"),
                    1 => format!("Context::cancel() inside callback {k}"),
                    _ => format!("cancel() from a second thread during callback {k}"),
                };
                let (imp, bad): (String, Option<(String, String)>) = match o.res {
                    Err(p) => (format!("panic {seen}"), Some(("panic".to_string(), format!("panic: {p}")))),
                    Ok(Err(Error::OperationCancelled)) => (format!("cancelled {seen}"), None),
                    Ok(Err(e)) => (
                        format!("err:{} {seen}", err_class(&e)),
                        Some(("cancel-reported-as-other-error".to_string(), format!("{what} ({:?}) gave error {} instead of OperationCancelled", t.get(k), err_class(&e)))),
                    ),
                    Ok(Ok(_)) if !reached => (format!("finished {seen}"), None),
                    Ok(Ok(s)) => (
                        format!("finished {seen}"),
                        Some((format!("cancel-swallowed:{}", o.trace.get(k).map(|x| x.0.clone()).unwrap_or_default()), format!("{what} ({:?}) but the operation returned Ok ({s}); uncancelled result {base}", o.trace.get(k)))),
                    ),
                };
                if reached {
                    run.nontrivial(format!("{} {mname} {k}", op.name()));
                }
                let mut idx = None;
                // the table-free skeleton (n propagating checkpoints) is not what the OCSP operation
                // has (open finding swallow-site:crypto/ocsp/fetch.rs); its runs are compared through
                // the `seq` requests only, whose skeleton comes from the source table
                if mk < 2 && !matches!(op, Op::Ocsp { .. }) {
                    let req = format!("C23 {} n={} k={k}", if mk == 0 { "cancel" } else { "cancelin" }, if reached { n.max(seen) } else { seen });
                    idx = Some(run.case(req, imp.clone()));
                }
                if seq_k(k) && o.sites.len() == seen {
                    // the checkpoints this very run reached, looked up in the source table by the model
                    idx = Some(run.case(format!("C23 seq mode={mname} k={k} sites={}", sites_str(&o.sites)), imp.clone()));
                    run.count("seq_requests");
                } else if o.sites.len() != seen {
                    let i = run.reqs.len().saturating_sub(1);
                    run.fail(i, "checkpoint-without-callback", format!("{}: {what}: {} checkpoints recorded but {seen} callbacks", op.name(), o.sites.len()));
                }
                let idx = idx.unwrap_or_else(|| run.reqs.len().saturating_sub(1));
                if let Some((class, detail)) = bad {
                    run.fail(idx, &class, format!("{}: {detail}", op.name()));
                } else if reached && seen != k + 1 {
                    let class = match o.trace.get(k) {
                        Some((p, _, _)) if p == "FetchingOCSP" => "cancel-deferred:FetchingOCSP".to_string(),
                        _ => "callback-after-cancel".to_string(),
                    };
                    run.fail(idx, &class, format!("{}: {what} ({:?}) but {seen} callbacks were observed", op.name(), o.trace.get(k)));
                }
            }
        }

        // cancel flag set before the operation starts
        if n > 0 {
            let o = run_once(op, Mode::None, true);
            let seen = o.seen;
            let imp = match &o.res {
                Ok(Err(Error::OperationCancelled)) => format!("cancelled {seen}"),
                Ok(Err(e)) => format!("err:{} {seen}", err_class(e)),
                Ok(Ok(_)) => format!("ok {seen}"),
                Err(_) => format!("panic {seen}"),
            };
            let idx = run.case(format!("C23 flag n={n}"), imp);
            if !matches!(o.res, Ok(Err(Error::OperationCancelled))) {
                run.fail(idx, "cancel-flag-ignored", format!("{}: context cancelled before the operation, result {:?}", op.name(), o.res.map(|r| r.map_err(|e| err_class(&e)))));
            } else {
                run.nontrivial(format!("{} flag", op.name()));
            }
        }

        // cancel() from another thread at random delays: the result is the uncancelled one or
        // OperationCancelled, and once cancelled no further callback is made
        {
            for _ in 0..(if thorough { 40 } else { 3 }) {
                let delay_us = rng.below(3000);
                let p = Probe::new();
                let slot = p.slot.clone();
                let stop = Arc::new(AtomicUsize::new(0));
                let stop2 = stop.clone();
                let h = std::thread::spawn(move || {
                    // wait until the operation has published its context, then cancel after the delay
                    loop {
                        if let Some(c) = slot.lock().unwrap().clone() {
                            std::thread::sleep(std::time::Duration::from_micros(delay_us));
                            c.cancel();
                            return;
                        }
                        if stop2.load(Ordering::SeqCst) == 1 {
                            return;
                        }
                        std::thread::yield_now();
                    }
                });
                let res = guarded(std::panic::AssertUnwindSafe(|| p.ctx(op.settings(), Mode::None).and_then(|c| op.exec(c, &p.slot))));
                stop.store(1, Ordering::SeqCst);
                let _ = h.join();
                *p.slot.lock().unwrap() = None;
                run.count("threaded_cancel");
                match res {
                    Ok(Ok(s)) if s == base || s.starts_with("signed ") || s.starts_with("embeddable ") => {
                        run.count("threaded_cancel_finished");
                    }
                    Ok(Err(Error::OperationCancelled)) => {
                        run.count("threaded_cancel_cancelled");
                    }
                    other => {
                        let idx = run.reqs.len().saturating_sub(1);
                        run.fail(idx, "threaded-cancel-misreported", format!("{}: cancel() after {delay_us}us gave {:?} (uncancelled: {base})", op.name(), other.map(|r| r.map_err(|e| err_class(&e)))));
                    }
                }
            }
        }
    }
    run.dist.insert("checkpoint_free_suffix_ms_max".to_string(), suffix_max as u64);
}
