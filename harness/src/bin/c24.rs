//! C24 — contexts are isolated and safe to share across threads.
//!
//! (a) Model correspondence: two programs over real `Context`s / real threads, executed in a
//!     given total order (the schedule), compared with `runSched` of the Lean model:
//!       C24 sched p=<ops> q=<ops> s=<0/1…> nctx=<n> nthr=<n>   ->  <outs of p>|<outs of q>
//!     ops: cp:c (is_cancelled) ca:c (cancel) gr:c:v (lazy resolver cell: token of the first
//!     initialiser) rs:c (context's own setting) bs:t:v (settings builder call on thread t)
//!     rt:t / st:t:v (legacy thread-local setting of thread t).
//! (b) Real concurrency (oracle only): 1–16 threads × shared / distinct contexts running reads
//!     and signs with random delays, a canceller hitting *other* contexts, settings-builder
//!     calls; every result must equal the sequential baseline and no thread-local value moves.

#![allow(deprecated)]

use std::{
    io::Cursor,
    sync::{mpsc, Arc, Barrier},
};

use c2pa::{verif_hooks::c25 as tls_hook, Context, Error, Reader, Settings};
use vh::common::{canon_json, fixtures, guarded, main_with, Rng, Run};
use vh::sign::{sign_asset, unsigned_sources};

fn main() {
    main_with("C24", run);
}

const KEY: &str = "core.merkle_tree_max_proofs";

fn ctx_json(v: u64) -> String {
    format!(r#"{{"core":{{"merkle_tree_max_proofs":{v}}},"verify":{{"remote_manifest_fetch":false,"ocsp_fetch":false}}}}"#)
}

#[derive(Clone, Debug)]
enum Op {
    Cp(usize),
    Ca(usize),
    Gr(usize, u64),
    Rs(usize),
    Bs(usize, u64),
    Rt(usize),
    St(usize, u64),
}

impl Op {
    fn text(&self) -> String {
        match self {
            Op::Cp(c) => format!("cp:{c}"),
            Op::Ca(c) => format!("ca:{c}"),
            Op::Gr(c, v) => format!("gr:{c}:{v}"),
            Op::Rs(c) => format!("rs:{c}"),
            Op::Bs(t, v) => format!("bs:{t}:{v}"),
            Op::Rt(t) => format!("rt:{t}"),
            Op::St(t, v) => format!("st:{t}:{v}"),
        }
    }

    /// thread that must execute the op (thread-local ops name their thread)
    fn thread(&self, default: usize) -> usize {
        match self {
            Op::Bs(t, _) | Op::Rt(t) | Op::St(t, _) => *t,
            _ => default,
        }
    }
}

struct World {
    ctxs: Vec<Arc<Context>>,
    /// per context: (pointer of the resolver first observed, token of its initialiser)
    resolver_seen: Vec<Option<(usize, u64)>>,
}

type Job = Box<dyn FnOnce() -> String + Send>;

/// Worker threads, each executing jobs strictly one at a time on request.
struct Workers {
    tx: Vec<mpsc::Sender<(Job, mpsc::Sender<String>)>>,
}

impl Workers {
    fn new(n: usize) -> Self {
        let mut tx = vec![];
        for t in 0..n {
            let (s, r) = mpsc::channel::<(Job, mpsc::Sender<String>)>();
            std::thread::spawn(move || {
                // initial legacy thread-local value of thread t: 200 + t
                let _ = Settings::from_string(&format!(r#"{{"core":{{"merkle_tree_max_proofs":{}}}}}"#, 200 + t), "json");
                while let Ok((job, back)) = r.recv() {
                    let _ = back.send(job());
                }
            });
            tx.push(s);
        }
        Workers { tx }
    }

    fn exec(&self, t: usize, job: Job) -> String {
        let (b, r) = mpsc::channel();
        self.tx[t].send((job, b)).expect("worker");
        r.recv().unwrap_or_else(|_| "worker-died".to_string())
    }
}

/// Small signed asset used as the checkpointed probe operation of `cp`.
fn probe_asset() -> &'static (String, Vec<u8>) {
    static A: std::sync::OnceLock<(String, Vec<u8>)> = std::sync::OnceLock::new();
    A.get_or_init(|| {
        let src = std::fs::read(fixtures().join("IMG_0003.jpg")).expect("fixture");
        ("image/jpeg".to_string(), sign_asset("image/jpeg", &src, None).expect("sign probe asset"))
    })
}

fn tls_value() -> String {
    tls_hook::thread_local_value()
        .pointer("/core/merkle_tree_max_proofs")
        .and_then(|v| v.as_u64())
        .map(|v| v.to_string())
        .unwrap_or_else(|| "x".to_string())
}

fn exec_op(w: &mut World, workers: &Workers, nthr: usize, op: &Op, default_thread: usize) -> String {
    let t = op.thread(default_thread);
    match op {
        Op::Cp(c) | Op::Ca(c) | Op::Gr(c, _) | Op::Rs(c) if *c >= w.ctxs.len() => "x".to_string(),
        Op::Bs(t, _) | Op::Rt(t) | Op::St(t, _) if *t >= nthr => {
            if matches!(op, Op::Bs(..)) {
                // a pure builder call needs no particular thread
                if let Op::Bs(_, v) = op {
                    return build_settings(*v);
                }
            }
            "x".to_string()
        }
        Op::Cp(c) => {
            // a real checkpointed operation on the context: cancelled iff the flag is set. The
            // flag must stay set (every later operation on the context is cancelled as well), and
            // `is_cancelled()` must agree before and after.
            let ctx = w.ctxs[*c].clone();
            workers.exec(t, Box::new(move || {
                let before = ctx.is_cancelled();
                let (fmt, data) = probe_asset();
                let res = Reader::from_shared_context(&ctx).with_stream(fmt, Cursor::new(data.clone()));
                let cancelled = matches!(res, Err(Error::OperationCancelled));
                let after = ctx.is_cancelled();
                if before != cancelled || after != before {
                    return format!("flag-inconsistent:before={before},op-cancelled={cancelled},after={after}");
                }
                if cancelled { "T".into() } else { "F".into() }
            }))
        }
        Op::Ca(c) => {
            let ctx = w.ctxs[*c].clone();
            workers.exec(t, Box::new(move || {
                ctx.cancel();
                "u".into()
            }))
        }
        Op::Gr(c, v) => {
            let ctx = w.ctxs[*c].clone();
            let ptr = workers.exec(t, Box::new(move || {
                let r = ctx.resolver();
                format!("{}", Arc::as_ptr(&r) as *const () as usize)
            }));
            let ptr: usize = ptr.parse().unwrap_or(0);
            match w.resolver_seen[*c] {
                None => {
                    w.resolver_seen[*c] = Some((ptr, *v));
                    v.to_string()
                }
                Some((p, tok)) if p == ptr => tok.to_string(),
                Some(_) => "resolver-changed".to_string(),
            }
        }
        Op::Rs(c) => {
            let ctx = w.ctxs[*c].clone();
            workers.exec(t, Box::new(move || ctx.settings().get_value::<u64>(KEY).map(|v| v.to_string()).unwrap_or_else(|_| "x".into())))
        }
        Op::Bs(_, v) => {
            let v = *v;
            workers.exec(t, Box::new(move || build_settings(v)))
        }
        Op::Rt(_) => workers.exec(t, Box::new(tls_value)),
        Op::St(_, v) => {
            let v = *v;
            workers.exec(t, Box::new(move || {
                match Settings::from_string(&format!(r#"{{"core":{{"merkle_tree_max_proofs":{v}}}}}"#), "json") {
                    Ok(_) => "u".into(),
                    Err(_) => "err".into(),
                }
            }))
        }
    }
}

/// Every non-legacy way of building a settings value; returns the value read back.
fn build_settings(v: u64) -> String {
    let json = format!(r#"{{"core":{{"merkle_tree_max_proofs":{v}}}}}"#);
    let toml = format!("[core]\nmerkle_tree_max_proofs = {v}\n");
    let a = Settings::new().with_json(&json).and_then(|s| s.get_value::<u64>(KEY));
    let b = Settings::new().with_toml(&toml).and_then(|s| s.get_value::<u64>(KEY));
    let c = Settings::new().with_value(KEY, v).and_then(|s| s.get_value::<u64>(KEY));
    let mut s = Settings::new();
    let d = s.update_from_str(&json, "json").and_then(|_| s.get_value::<u64>(KEY));
    let e = Context::new().with_settings(json.as_str()).and_then(|c| c.settings().get_value::<u64>(KEY));
    match (a, b, c, d, e) {
        (Ok(a), Ok(b), Ok(c), Ok(d), Ok(e)) if a == v && b == v && c == v && d == v && e == v => v.to_string(),
        other => format!("builder-mismatch:{other:?}").replace(' ', ""),
    }
}

/// (kind, index) of the cell an op touches; builder calls touch none.
fn cell(op: &Op) -> Option<(u8, usize)> {
    match op {
        Op::Cp(c) | Op::Ca(c) | Op::Gr(c, _) | Op::Rs(c) => Some((0, *c)),
        Op::Rt(t) | Op::St(t, _) => Some((1, *t)),
        Op::Bs(..) => None,
    }
}

fn indep(a: &Op, b: &Op) -> bool {
    match (cell(a), cell(b)) {
        (Some(x), Some(y)) => x != y,
        _ => true,
    }
}

fn gen_prog(r: &mut Rng, ctx_pool: &[usize], thr_pool: &[usize], len: usize) -> Vec<Op> {
    (0..len)
        .map(|_| {
            let c = *r.pick(ctx_pool);
            let t = *r.pick(thr_pool);
            match r.below(9) {
                0 | 1 => Op::Cp(c),
                2 => Op::Ca(c),
                3 => Op::Gr(c, r.range(1, 99)),
                4 => Op::Rs(c),
                5 => Op::Bs(t, r.range(300, 399)),
                6 | 7 => Op::Rt(t),
                _ => Op::St(t, r.range(400, 499)),
            }
        })
        .collect()
}

fn model_cases(run: &mut Run, rng: &mut Rng) {
    let n = if run.thorough() { 6000 } else { 700 };
    for _ in 0..n {
        let mut r = rng.fork();
        let nctx = r.range(1, 4) as usize;
        let nthr = r.range(1, 3) as usize;
        // mostly disjoint cells (the theorem's hypothesis), sometimes overlapping (model still has to agree)
        let overlap = r.chance(1, 4);
        let (pc, qc): (Vec<usize>, Vec<usize>) = if overlap || nctx == 1 {
            ((0..nctx + 1).collect(), (0..nctx + 1).collect())
        } else {
            let cut = r.range(1, nctx as u64 - 1).max(1) as usize;
            ((0..cut).collect(), (cut..nctx).collect())
        };
        let (pt, qt): (Vec<usize>, Vec<usize>) = if overlap || nthr == 1 {
            ((0..nthr).collect(), (0..nthr).collect())
        } else {
            (vec![0], (1..nthr).collect())
        };
        let lp = r.range(0, 5) as usize;
        let lq = r.range(0, 5) as usize;
        let p = gen_prog(&mut r, &pc, &pt, lp);
        let q = gen_prog(&mut r, &qc, &qt, lq);
        let sched: Vec<bool> = (0..p.len() + q.len() + 2).map(|_| r.chance(1, 2)).collect();
        // the theorem's hypothesis, evaluated on the generated programs: no op of p touches a
        // cell (context / thread-local) that an op of q touches
        let overlap = p.iter().any(|a| q.iter().any(|b| !indep(a, b)));

        let workers = Workers::new(nthr);
        let mut w = World {
            ctxs: (0..nctx)
                .map(|i| Arc::new(Context::new().with_settings(ctx_json(100 + i as u64).as_str()).expect("ctx")))
                .collect(),
            resolver_seen: vec![None; nctx],
        };
        // execute in the order runSched prescribes
        let (mut i, mut j, mut k) = (0, 0, 0);
        let (mut o1, mut o2): (Vec<String>, Vec<String>) = (vec![], vec![]);
        while i < p.len() || j < q.len() {
            let take_p = if i >= p.len() {
                false
            } else if j >= q.len() {
                true
            } else if k < sched.len() {
                let b = sched[k];
                k += 1;
                b
            } else {
                true
            };
            if take_p {
                o1.push(exec_op(&mut w, &workers, nthr, &p[i], 0));
                i += 1;
            } else {
                o2.push(exec_op(&mut w, &workers, nthr, &q[j], nthr - 1));
                j += 1;
            }
        }
        let txt = |v: &[Op]| if v.is_empty() { "-".to_string() } else { v.iter().map(|o| o.text()).collect::<Vec<_>>().join(",") };
        let req = format!(
            "C24 sched p={} q={} s={} nctx={nctx} nthr={nthr}",
            txt(&p),
            txt(&q),
            sched.iter().map(|b| if *b { '1' } else { '0' }).collect::<String>()
        );
        let imp = format!("{}|{}", o1.join(","), o2.join(","));
        if !overlap && !p.is_empty() && !q.is_empty() {
            run.nontrivial(req.clone());
        }
        run.count(if overlap { "sched_overlapping_cells" } else { "sched_disjoint_cells" });
        let idx = run.case(req, imp.clone());
        if imp.contains("builder-mismatch") || imp.contains("resolver-changed") || imp.contains("worker-died") || imp.contains("flag-inconsistent") {
            run.fail(idx, "context-state-anomaly", imp);
        }
        // oracle (independent of the model): with disjoint cells the outputs equal the sequential ones
        if !overlap {
            let workers2 = Workers::new(nthr);
            let mut w2 = World {
                ctxs: (0..nctx)
                    .map(|i| Arc::new(Context::new().with_settings(ctx_json(100 + i as u64).as_str()).expect("ctx")))
                    .collect(),
                resolver_seen: vec![None; nctx],
            };
            let s1: Vec<String> = p.iter().map(|o| exec_op(&mut w2, &workers2, nthr, o, 0)).collect();
            let s2: Vec<String> = q.iter().map(|o| exec_op(&mut w2, &workers2, nthr, o, nthr - 1)).collect();
            if s1 != o1 || s2 != o2 {
                run.fail(idx, "interleaving-differs-from-sequential", format!("interleaved {o1:?}|{o2:?} sequential {s1:?}|{s2:?}"));
            }
        }
    }
}

fn read_report(ctx: &Arc<Context>, fmt: &str, data: &[u8]) -> Result<String, String> {
    match Reader::from_shared_context(ctx).with_stream(fmt, Cursor::new(data.to_vec())) {
        Ok(r) => {
            let mut v: serde_json::Value = serde_json::from_str(&r.json()).unwrap_or_default();
            if let Some(vr) = v.get_mut("validation_results").and_then(|x| x.as_object_mut()) {
                vr.remove("validationTime");
            }
            Ok(format!("{:?}:{}", r.validation_state(), canon_json(&v)))
        }
        Err(Error::OperationCancelled) => Err("cancelled".into()),
        Err(e) => Err(format!("{e:?}").chars().take_while(|c| c.is_ascii_alphanumeric()).collect()),
    }
}

fn concurrency(run: &mut Run, rng: &mut Rng) {
    let mut assets: Vec<(String, Vec<u8>)> = vec![];
    for (fmt, name) in unsigned_sources() {
        if let Ok(src) = std::fs::read(fixtures().join(name)) {
            if src.len() > 450_000 {
                continue;
            }
            if let Ok(Ok(signed)) = guarded(|| sign_asset(fmt, &src, None)) {
                assets.push((fmt.to_string(), signed));
            }
        }
    }
    for name in ["CA.jpg", "C.jpg"] {
        if let Ok(d) = std::fs::read(fixtures().join(name)) {
            assets.push(("image/jpeg".to_string(), d));
        }
    }
    let assets = Arc::new(assets);
    let base_ctx = Arc::new(Context::new().with_settings(ctx_json(150).as_str()).expect("ctx"));
    let baseline: Vec<Result<String, String>> = assets.iter().map(|(f, d)| read_report(&base_ctx, f, d)).collect();
    let baseline = Arc::new(baseline);
    let rounds = if run.thorough() { 40 } else { 8 };
    for round in 0..rounds {
        let nthreads = [1usize, 2, 3, 4, 8, 16][rng.below(6) as usize];
        let shared = rng.chance(1, 2);
        let shared_ctx = Arc::new(Context::new().with_settings(ctx_json(150).as_str()).expect("ctx"));
        let victim = Arc::new(Context::new().with_settings(ctx_json(151).as_str()).expect("ctx"));
        let barrier = Arc::new(Barrier::new(nthreads + 1));
        let mut handles = vec![];
        for t in 0..nthreads {
            let seed = rng.next();
            let assets = assets.clone();
            let baseline = baseline.clone();
            let barrier = barrier.clone();
            let ctx = if shared { shared_ctx.clone() } else { Arc::new(Context::new().with_settings(ctx_json(150).as_str()).expect("ctx")) };
            let victim = victim.clone();
            handles.push(std::thread::spawn(move || {
                let mut r = Rng::new(seed);
                let mut fails: Vec<(String, String)> = vec![];
                let before = tls_value();
                barrier.wait();
                for _ in 0..4 {
                    let i = r.below(assets.len() as u64) as usize;
                    if r.chance(1, 3) {
                        std::thread::sleep(std::time::Duration::from_micros(r.below(300)));
                    }
                    match r.below(6) {
                        0 => {
                            victim.cancel(); // cancelling ANOTHER context
                        }
                        1 => {
                            let out = build_settings(300 + t as u64);
                            if out != (300 + t as u64).to_string() {
                                fails.push(("settings-builder-wrong".into(), out));
                            }
                        }
                        _ => {
                            let (f, d) = &assets[i];
                            let got = read_report(&ctx, f, d);
                            if got != baseline[i] {
                                fails.push(("concurrent-read-differs".into(), format!("asset {i} ({f}) thread {t}: {:?} vs sequential {:?}", got.as_ref().map(|s| &s[..s.len().min(60)]), baseline[i].as_ref().map(|s| &s[..s.len().min(60)]))));
                            }
                        }
                    }
                }
                let after = tls_value();
                if before != after {
                    fails.push(("thread-local-settings-changed".into(), format!("thread {t}: legacy settings value {before} -> {after}")));
                }
                fails
            }));
        }
        barrier.wait();
        for h in handles {
            match h.join() {
                Ok(fails) => {
                    for (class, detail) in fails {
                        let idx = run.reqs.len().saturating_sub(1);
                        run.fail(idx, &class, format!("round {round} ({nthreads} threads, shared={shared}): {detail}"));
                    }
                }
                Err(_) => {
                    let idx = run.reqs.len().saturating_sub(1);
                    run.fail(idx, "panic", format!("round {round}: worker thread panicked"));
                }
            }
        }
        // the victim context was cancelled by some thread (or is cancelled now): EVERY operation
        // that shares it must now be cancelled, on every thread, and stay so
        victim.cancel();
        let mut hs = vec![];
        for t in 0..nthreads.min(4) {
            let v = victim.clone();
            let assets = assets.clone();
            hs.push(std::thread::spawn(move || {
                let (f, d) = &assets[t % assets.len()];
                (0..2).map(|_| read_report(&v, f, d)).collect::<Vec<_>>()
            }));
        }
        for h in hs {
            if let Ok(results) = h.join() {
                for r in results {
                    if r != Err("cancelled".to_string()) {
                        let idx = run.reqs.len().saturating_sub(1);
                        run.fail(idx, "cancelled-context-ran-an-operation", format!("round {round}: an operation on a cancelled shared context returned {:?}", r.map(|s| s[..s.len().min(40)].to_string())));
                    }
                }
            }
        }
        // the victim context was cancelled; the shared one must not be
        if shared_ctx.is_cancelled() {
            let idx = run.reqs.len().saturating_sub(1);
            run.fail(idx, "cancel-leaked-to-other-context", format!("round {round}: cancelling one context set the flag of another"));
        }
        run.count(&format!("threads_{nthreads}"));
        run.nontrivial(format!("round {round} {nthreads} {shared}"));
    }
}

pub fn run(run: &mut Run, rng: &mut Rng) {
    run.rule = "(a) two random programs (0–5 ops each) over 1–4 real contexts and 1–3 real threads executed in a random total order; non-trivial = both programs non-empty and on disjoint cells (the theorem's hypothesis); overlapping cells are also generated (the model must still agree). (b) rounds of 1–16 real threads × shared/distinct contexts doing reads of signed assets, cancelling another context and calling settings builders with random delays; results compared with the sequential baseline".to_string();
    model_cases(run, rng);
    concurrency(run, rng);
}
