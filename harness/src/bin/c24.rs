//! C24 — contexts are isolated and safe to share across threads.
//!
//! (a) Model correspondence: programs over real `Context`s / real threads, executed in a given
//!     total order (the schedule), compared with `runSched` / `runSchedN` of the Lean model:
//!       C24 sched  p=<ops> q=<ops> s=<0/1…> nctx=<n> nthr=<n>          ->  <outs of p>|<outs of q>
//!       C24 schedn ps=<ops>/<ops>/… s=<i.i.i…> nctx=<n> nthr=<n>       ->  <outs 0>|<outs 1>|…
//!     ops: cp:c (a real checkpointed read: cancelled?) ca:c (cancel) gr:c:v (lazy resolver cell,
//!     caller's token) gss:c / grs:c (lazy signer / resolver cell, the code's own initialiser: a
//!     function of the context's settings) rs:c (context's own setting) bs:t:v (settings builder
//!     calls on thread t) rt:t / st:t:v (legacy thread-local settings of thread t) lr:t (context
//!     based read of the crafted BMFF asset on thread t: goes through the thread-local cap).
//!     The worker threads' thread-local settings DIFFER from every context's settings (other
//!     values; for even numbers a decompression cap of 0).
//! (b) Real concurrency (oracle only): 1–16 threads × shared / distinct contexts running reads AND
//!     signs (signer created lazily from the shared context's settings) with random delays, a
//!     canceller hitting *other* contexts, settings-builder calls — every thread first poisons its
//!     legacy thread-local settings with values that would change results if a context path
//!     consulted them; every result must equal the baseline of a clean thread and NO key of the
//!     thread-local settings may move. Then rounds that cancel the SHARED context mid-run: every
//!     operation ends `cancelled` or with its baseline result, and `cancelled` is sticky.

#![allow(deprecated)]

#[path = "../c24_common.rs"]
mod cc;

use std::{
    io::Cursor,
    sync::{mpsc, Arc, Barrier, OnceLock},
};

use c2pa::{Builder, Context, Error, Reader, Settings};
use vh::common::{fixtures, guarded, main_with, Rng, Run};
use vh::sign::{definition, sign_asset, unsigned_sources};

fn main() {
    main_with("C24", run);
}

const KEY: &str = "core.merkle_tree_max_proofs";

fn alg_of(i: usize) -> &'static str {
    if i % 2 == 0 {
        "es256"
    } else {
        "ps256"
    }
}

/// Settings of context `i`: own number `v`, no network, a signer configured in the settings.
fn ctx_json(v: u64, i: usize) -> String {
    format!(r#"{{"core":{{"merkle_tree_max_proofs":{v}}},"verify":{{{}}},{}}}"#, cc::NOFETCH, cc::signer_member(alg_of(i)))
}

#[derive(Clone, Debug)]
enum Op {
    Cp(usize),
    Ca(usize),
    Gr(usize, u64),
    Gss(usize),
    Grs(usize),
    Rs(usize),
    Bs(usize, u64),
    Rt(usize),
    St(usize, u64),
    Lr(usize),
}

impl Op {
    fn text(&self) -> String {
        match self {
            Op::Cp(c) => format!("cp:{c}"),
            Op::Ca(c) => format!("ca:{c}"),
            Op::Gr(c, v) => format!("gr:{c}:{v}"),
            Op::Gss(c) => format!("gss:{c}"),
            Op::Grs(c) => format!("grs:{c}"),
            Op::Rs(c) => format!("rs:{c}"),
            Op::Bs(t, v) => format!("bs:{t}:{v}"),
            Op::Rt(t) => format!("rt:{t}"),
            Op::St(t, v) => format!("st:{t}:{v}"),
            Op::Lr(t) => format!("lr:{t}"),
        }
    }

    /// thread that must execute the op (thread-local ops name their thread)
    fn thread(&self, default: usize) -> usize {
        match self {
            Op::Bs(t, _) | Op::Rt(t) | Op::St(t, _) | Op::Lr(t) => *t,
            _ => default,
        }
    }
}

struct World {
    ctxs: Vec<Arc<Context>>,
    /// per context: (pointer of the resolver first observed, token of its initialiser)
    resolver_seen: Vec<Option<(usize, u64)>>,
    /// per context: pointer of the signer first observed
    signer_seen: Vec<Option<usize>>,
}

impl World {
    fn new(nctx: usize) -> World {
        World {
            ctxs: (0..nctx).map(|i| Arc::new(Context::new().with_settings(ctx_json(100 + i as u64, i).as_str()).expect("ctx"))).collect(),
            resolver_seen: vec![None; nctx],
            signer_seen: vec![None; nctx],
        }
    }
}

type Job = Box<dyn FnOnce() -> String + Send>;

/// Worker threads, each executing jobs strictly one at a time on request.
struct Workers {
    tx: Vec<mpsc::Sender<(Job, mpsc::Sender<String>)>>,
}

impl Workers {
    fn new(n: usize) -> Self {
        let mut tx = vec![];
        for t in 0..n {
            let (s, r) = mpsc::channel::<(Job, mpsc::Sender<String>)>();
            std::thread::spawn(move || {
                // initial legacy thread-local value of thread t: 200 + t
                cc::set_tls(200 + t as u64);
                while let Ok((job, back)) = r.recv() {
                    let _ = back.send(job());
                }
            });
            tx.push(s);
        }
        Workers { tx }
    }

    fn exec(&self, t: usize, job: Job) -> String {
        let (b, r) = mpsc::channel();
        self.tx[t].send((job, b)).expect("worker");
        r.recv().unwrap_or_else(|_| "worker-died".to_string())
    }
}

/// Small signed asset used as the checkpointed probe operation of `cp`.
fn probe_asset() -> &'static (String, Vec<u8>) {
    static A: OnceLock<(String, Vec<u8>)> = OnceLock::new();
    A.get_or_init(|| {
        let src = std::fs::read(fixtures().join("IMG_0003.jpg")).expect("fixture");
        ("image/jpeg".to_string(), sign_asset("image/jpeg", &src, None).expect("sign probe asset"))
    })
}

/// The crafted BMFF asset of `lr` (built once, on the main thread whose thread-local settings are
/// never touched).
fn leaky_asset() -> &'static Result<Vec<u8>, String> {
    static A: OnceLock<Result<Vec<u8>, String>> = OnceLock::new();
    A.get_or_init(cc::bmff_compressed_update_asset)
}

fn exec_op(w: &mut World, workers: &Workers, nthr: usize, op: &Op, default_thread: usize) -> String {
    let t = op.thread(default_thread);
    match op {
        Op::Cp(c) | Op::Ca(c) | Op::Gr(c, _) | Op::Rs(c) | Op::Gss(c) | Op::Grs(c) if *c >= w.ctxs.len() => "x".to_string(),
        Op::Bs(t, _) | Op::Rt(t) | Op::St(t, _) | Op::Lr(t) if *t >= nthr => {
            // a pure builder call needs no particular thread
            if let Op::Bs(_, v) = op {
                return build_settings(*v);
            }
            "x".to_string()
        }
        Op::Cp(c) => {
            // a real checkpointed operation on the context: cancelled iff the flag is set. The
            // flag must stay set (every later operation on the context is cancelled as well), and
            // `is_cancelled()` must agree before and after.
            let ctx = w.ctxs[*c].clone();
            workers.exec(t, Box::new(move || {
                let before = ctx.is_cancelled();
                let (fmt, data) = probe_asset();
                let res = Reader::from_shared_context(&ctx).with_stream(fmt, Cursor::new(data.clone()));
                let cancelled = matches!(res, Err(Error::OperationCancelled));
                let after = ctx.is_cancelled();
                if before != cancelled || after != before {
                    return format!("flag-inconsistent:before={before},op-cancelled={cancelled},after={after}");
                }
                if cancelled { "T".into() } else { "F".into() }
            }))
        }
        Op::Ca(c) => {
            let ctx = w.ctxs[*c].clone();
            workers.exec(t, Box::new(move || {
                ctx.cancel();
                "u".into()
            }))
        }
        Op::Gr(c, _) | Op::Grs(c) => {
            let ctx = w.ctxs[*c].clone();
            let ptr = workers.exec(t, Box::new(move || {
                let r = ctx.resolver();
                format!("{}", Arc::as_ptr(&r) as *const () as usize)
            }));
            let ptr: usize = ptr.parse().unwrap_or(0);
            // token offered by this caller: its own for `gr`, the context's settings for `grs`
            let offered = if let Op::Gr(_, v) = op { *v } else { 100 + *c as u64 };
            match w.resolver_seen[*c] {
                None => {
                    w.resolver_seen[*c] = Some((ptr, offered));
                    offered.to_string()
                }
                Some((p, tok)) if p == ptr => tok.to_string(),
                Some(_) => "resolver-changed".to_string(),
            }
        }
        Op::Gss(c) => {
            // the signer built lazily from the context's settings: must be the one these settings
            // configure (algorithm of context c), and the same object for every caller
            let ctx = w.ctxs[*c].clone();
            let out = workers.exec(t, Box::new(move || match ctx.signer() {
                Ok(s) => format!("{} {:?}", s as *const dyn c2pa::Signer as *const () as usize, s.alg()).to_lowercase(),
                Err(e) => format!("0 err-{e:?}").chars().take(60).collect(),
            }));
            let mut it = out.split(' ');
            let ptr: usize = it.next().and_then(|p| p.parse().ok()).unwrap_or(0);
            let alg = it.next().unwrap_or("");
            if alg != alg_of(*c) {
                return format!("signer-not-from-this-contexts-settings:{alg}");
            }
            match w.signer_seen[*c] {
                None => {
                    w.signer_seen[*c] = Some(ptr);
                    (100 + *c as u64).to_string()
                }
                Some(p) if p == ptr => (100 + *c as u64).to_string(),
                Some(_) => "signer-changed".to_string(),
            }
        }
        Op::Rs(c) => {
            let ctx = w.ctxs[*c].clone();
            workers.exec(t, Box::new(move || ctx.settings().get_value::<u64>(KEY).map(|v| v.to_string()).unwrap_or_else(|_| "x".into())))
        }
        Op::Bs(_, v) => {
            let v = *v;
            workers.exec(t, Box::new(move || build_settings(v)))
        }
        Op::Rt(_) => workers.exec(t, Box::new(cc::tls_value)),
        Op::St(_, v) => {
            let v = *v;
            workers.exec(t, Box::new(move || if cc::set_tls(v) { "u".into() } else { "err".into() }))
        }
        Op::Lr(_) => workers.exec(t, Box::new(|| match leaky_asset() {
            Ok(a) => if cc::leaky_read_allows(a) { "T".into() } else { "F".into() },
            Err(_) => "no-asset".into(),
        })),
    }
}

/// Every non-legacy way of building a settings value; returns the value read back.
fn build_settings(v: u64) -> String {
    let json = format!(r#"{{"core":{{"merkle_tree_max_proofs":{v}}}}}"#);
    let toml = format!("[core]\nmerkle_tree_max_proofs = {v}\n");
    let a = Settings::new().with_json(&json).and_then(|s| s.get_value::<u64>(KEY));
    let b = Settings::new().with_toml(&toml).and_then(|s| s.get_value::<u64>(KEY));
    let c = Settings::new().with_value(KEY, v).and_then(|s| s.get_value::<u64>(KEY));
    let mut s = Settings::new();
    let d = s.update_from_str(&json, "json").and_then(|_| s.get_value::<u64>(KEY));
    let e = Context::new().with_settings(json.as_str()).and_then(|c| c.settings().get_value::<u64>(KEY));
    let mut s2 = Settings::new();
    let f = s2.set_value(KEY, v).and_then(|_| s2.get_value::<u64>(KEY));
    let mut cx = Context::new();
    let g = cx.set_settings(json.as_str()).and_then(|_| cx.settings().get_value::<u64>(KEY));
    // every IntoSettings form, TOML strings included
    let h = Context::new().with_settings(toml.as_str()).and_then(|c| c.settings().get_value::<u64>(KEY));
    let i = Context::new().with_settings(toml.clone()).and_then(|c| c.settings().get_value::<u64>(KEY));
    let j = Context::new().with_settings(serde_json::json!({"core": {"merkle_tree_max_proofs": v}})).and_then(|c| c.settings().get_value::<u64>(KEY));
    let (a, b, c, d, e, f, g) = match (a, b, c, d, e, f, g, h, i, j) {
        (a, b, c, d, e, f, g, Ok(h), Ok(i), Ok(j)) if h == v && i == v && j == v => (a, b, c, d, e, f, g),
        other => return format!("builder-mismatch:{other:?}").replace(' ', ""),
    };
    match (a, b, c, d, e, f, g) {
        (Ok(a), Ok(b), Ok(c), Ok(d), Ok(e), Ok(f), Ok(g)) if [a, b, c, d, e, f, g].iter().all(|x| *x == v) => v.to_string(),
        other => format!("builder-mismatch:{other:?}").replace(' ', ""),
    }
}

/// (kind, index) of the cell an op touches; builder calls touch none.
fn cell(op: &Op) -> Option<(u8, usize)> {
    match op {
        Op::Cp(c) | Op::Ca(c) | Op::Gr(c, _) | Op::Rs(c) | Op::Gss(c) | Op::Grs(c) => Some((0, *c)),
        Op::Rt(t) | Op::St(t, _) | Op::Lr(t) => Some((1, *t)),
        Op::Bs(..) => None,
    }
}

fn indep(a: &Op, b: &Op) -> bool {
    match (cell(a), cell(b)) {
        (Some(x), Some(y)) => x != y,
        _ => true,
    }
}

fn shared_safe(o: &Op) -> bool {
    matches!(o, Op::Cp(_) | Op::Rs(_) | Op::Gss(_) | Op::Grs(_) | Op::Bs(..) | Op::Rt(_) | Op::Lr(_))
}

/// the theorems' hypothesis on two operations of different programs
fn compat(a: &Op, b: &Op) -> bool {
    indep(a, b) || (shared_safe(a) && shared_safe(b))
}

fn gen_op(r: &mut Rng, ctx_pool: &[usize], thr_pool: &[usize], safe_only: bool) -> Op {
    let c = *r.pick(ctx_pool);
    let t = *r.pick(thr_pool);
    loop {
        let op = match r.below(13) {
            0 | 1 => Op::Cp(c),
            2 => Op::Ca(c),
            3 => Op::Gr(c, r.range(1, 99)),
            4 => Op::Rs(c),
            5 => Op::Bs(t, r.range(300, 399)),
            6 | 7 => Op::Rt(t),
            8 => Op::St(t, r.range(400, 499)),
            9 => Op::Gss(c),
            10 => Op::Grs(c),
            11 => Op::Lr(t),
            _ => Op::Cp(c),
        };
        if !safe_only || shared_safe(&op) {
            return op;
        }
    }
}

fn gen_prog(r: &mut Rng, ctx_pool: &[usize], thr_pool: &[usize], len: usize, safe_only: bool) -> Vec<Op> {
    (0..len).map(|_| gen_op(r, ctx_pool, thr_pool, safe_only)).collect()
}

const ANOMALIES: [&str; 8] =
    ["builder-mismatch", "resolver-changed", "worker-died", "flag-inconsistent", "signer-changed", "signer-not-from", "no-asset", "err"];

fn txt(v: &[Op]) -> String {
    if v.is_empty() {
        "-".to_string()
    } else {
        v.iter().map(|o| o.text()).collect::<Vec<_>>().join(",")
    }
}

fn model_cases(run: &mut Run, rng: &mut Rng) {
    let n = if run.thorough() { 5000 } else { 500 };
    for _ in 0..n {
        let mut r = rng.fork();
        let nctx = r.range(1, 4) as usize;
        let nthr = r.range(1, 3) as usize;
        // flavours: 0 disjoint cells, 1 everything shared but only safe operations, 2 anything
        let flavour = r.below(4).min(2);
        let all_c: Vec<usize> = (0..nctx + 1).collect();
        let all_t: Vec<usize> = (0..nthr).collect();
        let (pc, qc, pt, qt) = if flavour == 0 && nctx > 1 {
            let cut = r.range(1, nctx as u64 - 1).max(1) as usize;
            let (pt, qt) = if nthr == 1 { (all_t.clone(), all_t.clone()) } else { (vec![0], (1..nthr).collect()) };
            ((0..cut).collect(), (cut..nctx).collect(), pt, qt)
        } else {
            (all_c.clone(), all_c.clone(), all_t.clone(), all_t.clone())
        };
        let lp = r.range(0, 5) as usize;
        let lq = r.range(0, 5) as usize;
        let p = gen_prog(&mut r, &pc, &pt, lp, flavour == 1);
        let q = gen_prog(&mut r, &qc, &qt, lq, flavour == 1);
        let sched: Vec<bool> = (0..p.len() + q.len() + 2).map(|_| r.chance(1, 2)).collect();
        // the theorem's hypothesis, evaluated on the generated programs
        let compatible = p.iter().all(|a| q.iter().all(|b| compat(a, b)));
        let shares = p.iter().any(|a| q.iter().any(|b| !indep(a, b)));

        let workers = Workers::new(nthr);
        let mut w = World::new(nctx);
        // execute in the order runSched prescribes
        let (mut i, mut j, mut k) = (0, 0, 0);
        let (mut o1, mut o2): (Vec<String>, Vec<String>) = (vec![], vec![]);
        while i < p.len() || j < q.len() {
            let take_p = if i >= p.len() {
                false
            } else if j >= q.len() {
                true
            } else if k < sched.len() {
                let b = sched[k];
                k += 1;
                b
            } else {
                true
            };
            if take_p {
                o1.push(exec_op(&mut w, &workers, nthr, &p[i], 0));
                i += 1;
            } else {
                o2.push(exec_op(&mut w, &workers, nthr, &q[j], nthr - 1));
                j += 1;
            }
        }
        let req = format!("C24 sched p={} q={} s={} nctx={nctx} nthr={nthr}", txt(&p), txt(&q), sched.iter().map(|b| if *b { '1' } else { '0' }).collect::<String>());
        let imp = format!("{}|{}", o1.join(","), o2.join(","));
        if compatible && !p.is_empty() && !q.is_empty() {
            run.nontrivial(req.clone());
        }
        run.count(match (compatible, shares) {
            (true, false) => "sched_disjoint_cells",
            (true, true) => "sched_shared_cells_safe_ops",
            (false, _) => "sched_conflicting",
        });
        let idx = run.case(req, imp.clone());
        if ANOMALIES.iter().any(|a| imp.contains(a)) {
            run.fail(idx, "context-state-anomaly", imp);
        }
        // oracle (independent of the model): compatible programs give the sequential outputs
        if compatible {
            let workers2 = Workers::new(nthr);
            let mut w2 = World::new(nctx);
            let s1: Vec<String> = p.iter().map(|o| exec_op(&mut w2, &workers2, nthr, o, 0)).collect();
            let s2: Vec<String> = q.iter().map(|o| exec_op(&mut w2, &workers2, nthr, o, nthr - 1)).collect();
            if s1 != o1 || s2 != o2 {
                run.fail(idx, "interleaving-differs-from-sequential", format!("interleaved {o1:?}|{o2:?} sequential {s1:?}|{s2:?}"));
            }
        }
    }
}

/// n programs = n threads (1–16) in a prescribed total order, against `runSchedN`.
fn model_cases_n(run: &mut Run, rng: &mut Rng) {
    let n = if run.thorough() { 1200 } else { 140 };
    for _ in 0..n {
        let mut r = rng.fork();
        let nprog = [1usize, 2, 3, 4, 5, 8, 16][r.below(7) as usize];
        // flavours: 0 = program i owns context i and thread i; 1 = all share 1–2 contexts, safe ops; 2 = anything
        let flavour = r.below(4).min(2);
        let nctx = if flavour == 0 { nprog } else { r.range(1, 2) as usize };
        let nthr = nprog;
        let progs: Vec<Vec<Op>> = (0..nprog)
            .map(|i| {
                let len = r.range(0, 3) as usize;
                match flavour {
                    0 => gen_prog(&mut r, &[i], &[i], len, false),
                    1 => gen_prog(&mut r, &(0..nctx).collect::<Vec<_>>(), &(0..nthr).collect::<Vec<_>>(), len, true),
                    _ => gen_prog(&mut r, &(0..nctx + 1).collect::<Vec<_>>(), &(0..nthr).collect::<Vec<_>>(), len, false),
                }
            })
            .collect();
        let total: usize = progs.iter().map(|p| p.len()).sum();
        let sched: Vec<usize> = (0..total + 3).map(|_| r.below(nprog as u64 + 1) as usize).collect();
        let compatible = (0..nprog).all(|i| (i + 1..nprog).all(|j| progs[i].iter().all(|a| progs[j].iter().all(|b| compat(a, b)))));

        let workers = Workers::new(nthr);
        let mut w = World::new(nctx);
        let mut next = vec![0usize; nprog];
        let mut outs: Vec<Vec<String>> = vec![vec![]; nprog];
        for &i in &sched {
            if i < nprog && next[i] < progs[i].len() {
                let o = exec_op(&mut w, &workers, nthr, &progs[i][next[i]], i);
                outs[i].push(o);
                next[i] += 1;
            }
        }
        for i in 0..nprog {
            while next[i] < progs[i].len() {
                let o = exec_op(&mut w, &workers, nthr, &progs[i][next[i]], i);
                outs[i].push(o);
                next[i] += 1;
            }
        }
        let req = format!(
            "C24 schedn ps={} s={} nctx={nctx} nthr={nthr}",
            progs.iter().map(|p| txt(p)).collect::<Vec<_>>().join("/"),
            if sched.is_empty() { "-".to_string() } else { sched.iter().map(|i| i.to_string()).collect::<Vec<_>>().join(".") }
        );
        let imp = outs.iter().map(|o| o.join(",")).collect::<Vec<_>>().join("|");
        if compatible && progs.iter().filter(|p| !p.is_empty()).count() >= 2 {
            run.nontrivial(req.clone());
        }
        run.count(&format!("schedn_{}_{}", nprog, if compatible { "compatible" } else { "conflicting" }));
        let idx = run.case(req, imp.clone());
        if ANOMALIES.iter().any(|a| imp.contains(a)) {
            run.fail(idx, "context-state-anomaly", imp);
        }
        if compatible {
            let workers2 = Workers::new(nthr);
            let mut w2 = World::new(nctx);
            let seq: Vec<Vec<String>> = progs.iter().enumerate().map(|(i, p)| p.iter().map(|o| exec_op(&mut w2, &workers2, nthr, o, i)).collect()).collect();
            if seq != outs {
                run.fail(idx, "interleaving-differs-from-sequential", format!("{nprog} threads: interleaved {outs:?} sequential {seq:?}"));
            }
        }
    }
}

/// Sign `src` through a builder on the (shared) context, whose signer comes from its settings;
/// the abstracted report of the result as read by `reader_ctx`.
fn sign_report(ctx: &Arc<Context>, reader_ctx: &Arc<Context>, fmt: &str, src: &[u8]) -> String {
    let mut b = match Builder::from_shared_context(ctx).with_definition(definition("c24", fmt).as_str()) {
        Ok(b) => b,
        Err(e) => return format!("err:{e:?}").chars().take(40).collect(),
    };
    let mut out = Cursor::new(Vec::new());
    match b.save_to_stream(fmt, &mut Cursor::new(src.to_vec()), &mut out) {
        Ok(_) => cc::abstract_report(&cc::read_with(reader_ctx, fmt, &out.into_inner())),
        Err(Error::OperationCancelled) => "cancelled".into(),
        Err(e) => format!("err:{e:?}").chars().take(40).collect(),
    }
}

fn short(s: &str) -> &str {
    &s[..s.len().min(70)]
}

fn concurrency(run: &mut Run, rng: &mut Rng) {
    // everything below is prepared on the main thread, whose thread-local settings are never written
    let clean_tls = cc::tls_full();
    let mut assets: Vec<(String, Vec<u8>)> = vec![];
    for (fmt, name) in unsigned_sources() {
        if let Ok(src) = std::fs::read(fixtures().join(name)) {
            if src.len() > 450_000 {
                continue;
            }
            if let Ok(Ok(signed)) = guarded(|| sign_asset(fmt, &src, None)) {
                assets.push((fmt.to_string(), signed));
            }
        }
    }
    for name in ["CA.jpg", "C.jpg"] {
        if let Ok(d) = std::fs::read(fixtures().join(name)) {
            assets.push(("image/jpeg".to_string(), d));
        }
    }
    // an asset signed with the fixture credential (trust lists in a poisoned thread-local would change its report)
    let src_jpg = std::fs::read(fixtures().join("IMG_0003.jpg")).unwrap_or_default();
    let shared_settings = ctx_json(150, 0);
    if let Ok(a) = cc::sign_with_settings(&shared_settings, "image/jpeg", &src_jpg, "c24-fixture-signed") {
        assets.push(("image/jpeg".to_string(), a));
    }
    let leaky_idx = match leaky_asset() {
        Ok(a) => {
            assets.push(("video/mp4".to_string(), a.clone()));
            Some(assets.len() - 1)
        }
        Err(e) => {
            run.notes.push(format!("crafted BMFF asset not available: {e}"));
            None
        }
    };
    let poisons = cc::poisons();
    let poisons_ok = poisons.iter().all(|p| Settings::new().with_json(p).is_ok());
    run.obligations.insert("poison-settings-are-valid-settings".to_string(), poisons_ok);
    let assets = Arc::new(assets);
    let src_jpg = Arc::new(src_jpg);
    let base_ctx = Arc::new(Context::new().with_settings(shared_settings.as_str()).expect("ctx"));
    let baseline: Arc<Vec<String>> = Arc::new(assets.iter().map(|(f, d)| cc::read_with(&base_ctx, f, d)).collect());
    let sign_baseline = sign_report(&base_ctx, &base_ctx, "image/jpeg", &src_jpg);
    if !(sign_baseline.starts_with("Valid") || sign_baseline.starts_with("Trusted")) {
        run.notes.push(format!("baseline sign on a context with a signer from settings: {}", short(&sign_baseline)));
    }
    run.obligations.insert("baseline-sign-through-settings-signer-works".to_string(), sign_baseline.starts_with("Valid") || sign_baseline.starts_with("Trusted"));
    let sign_baseline = Arc::new(sign_baseline);

    let rounds = if run.thorough() { 40 } else { 8 };
    for round in 0..rounds {
        let nthreads = [1usize, 2, 3, 4, 8, 16][rng.below(6) as usize];
        let shared = rng.chance(2, 3);
        let shared_ctx = Arc::new(Context::new().with_settings(shared_settings.as_str()).expect("ctx"));
        let victim = Arc::new(Context::new().with_settings(ctx_json(151, 1).as_str()).expect("ctx"));
        let barrier = Arc::new(Barrier::new(nthreads + 1));
        let mut handles = vec![];
        for t in 0..nthreads {
            let seed = rng.next();
            let (assets, baseline, barrier, victim, src_jpg, sign_baseline) = (assets.clone(), baseline.clone(), barrier.clone(), victim.clone(), src_jpg.clone(), sign_baseline.clone());
            let ctx = if shared { shared_ctx.clone() } else { Arc::new(Context::new().with_settings(shared_settings.as_str()).expect("ctx")) };
            let base_ctx = base_ctx.clone();
            let poison = poisons[(t + round) % poisons.len()].clone();
            handles.push(std::thread::spawn(move || {
                let mut r = Rng::new(seed);
                let mut fails: Vec<(String, String)> = vec![];
                // legacy thread-local settings that differ from the context's in settings that matter
                let _ = Settings::from_string(&poison, "json");
                let before = cc::tls_full();
                barrier.wait();
                for _ in 0..4 {
                    let i = r.below(assets.len() as u64) as usize;
                    if r.chance(1, 3) {
                        std::thread::sleep(std::time::Duration::from_micros(r.below(300)));
                    }
                    match r.below(8) {
                        0 => victim.cancel(), // cancelling ANOTHER context
                        1 => {
                            let out = build_settings(300 + t as u64);
                            if out != (300 + t as u64).to_string() {
                                fails.push(("settings-builder-wrong".into(), out));
                            }
                        }
                        2 | 3 => {
                            // SIGN on the (shared) context: lazily created signer cell, builder settings
                            let got = sign_report(&ctx, &base_ctx, "image/jpeg", &src_jpg);
                            if got != *sign_baseline {
                                fails.push(("concurrent-sign-differs".into(), format!("thread {t}: {} vs baseline {}", short(&got), short(&sign_baseline))));
                            }
                        }
                        _ => {
                            let (f, d) = &assets[i];
                            let got = cc::read_with(&ctx, f, d);
                            if got != baseline[i] {
                                let class = if Some(i) == leaky_idx { "context-read-depends-on-thread-local-settings" } else { "concurrent-read-differs" };
                                fails.push((class.into(), format!("asset {i} ({f}) thread {t}: {} vs clean-thread baseline {}", short(&got), short(&baseline[i]))));
                            }
                        }
                    }
                }
                let after = cc::tls_full();
                if before != after {
                    fails.push(("thread-local-settings-changed".into(), format!("thread {t}: some key of the legacy settings moved")));
                }
                fails
            }));
        }
        barrier.wait();
        for h in handles {
            match h.join() {
                Ok(fails) => {
                    for (class, detail) in fails {
                        let idx = run.reqs.len().saturating_sub(1);
                        run.fail(idx, &class, format!("round {round} ({nthreads} threads, shared={shared}): {detail}"));
                    }
                }
                Err(_) => {
                    let idx = run.reqs.len().saturating_sub(1);
                    run.fail(idx, "panic", format!("round {round}: worker thread panicked"));
                }
            }
        }
        // the victim context was cancelled by some thread (or is cancelled now): EVERY operation
        // that shares it must now be cancelled, on every thread, and stay so
        victim.cancel();
        let mut hs = vec![];
        for t in 0..nthreads.min(4) {
            let v = victim.clone();
            let assets = assets.clone();
            hs.push(std::thread::spawn(move || {
                let (f, d) = &assets[t % assets.len()];
                (0..2).map(|_| cc::read_with(&v, f, d)).collect::<Vec<_>>()
            }));
        }
        for h in hs {
            if let Ok(results) = h.join() {
                for r in results {
                    if r != "cancelled" {
                        let idx = run.reqs.len().saturating_sub(1);
                        run.fail(idx, "cancelled-context-ran-an-operation", format!("round {round}: an operation on a cancelled shared context returned {}", short(&r)));
                    }
                }
            }
        }
        // the victim context was cancelled; the shared one must not be
        if shared_ctx.is_cancelled() {
            let idx = run.reqs.len().saturating_sub(1);
            run.fail(idx, "cancel-leaked-to-other-context", format!("round {round}: cancelling one context set the flag of another"));
        }
        run.count(&format!("threads_{nthreads}"));
        run.nontrivial(format!("round {round} {nthreads} {shared}"));
    }

    // cancelling the SHARED context while others run: every operation ends `cancelled` or with
    // its baseline result, nothing else; once a thread has seen `cancelled` it sees nothing else
    let rounds = if run.thorough() { 30 } else { 6 };
    let mut saw_both = false;
    for round in 0..rounds {
        let nthreads = [2usize, 3, 4, 8, 16][rng.below(5) as usize];
        let target = Arc::new(Context::new().with_settings(shared_settings.as_str()).expect("ctx"));
        let barrier = Arc::new(Barrier::new(nthreads + 2));
        let mut handles = vec![];
        for t in 0..nthreads {
            let seed = rng.next();
            let (assets, baseline, barrier, target, src_jpg, sign_baseline, base_ctx) = (assets.clone(), baseline.clone(), barrier.clone(), target.clone(), src_jpg.clone(), sign_baseline.clone(), base_ctx.clone());
            handles.push(std::thread::spawn(move || {
                let mut r = Rng::new(seed);
                let mut fails: Vec<(String, String)> = vec![];
                let (mut n_ok, mut n_cancelled) = (0, 0);
                barrier.wait();
                for k in 0..5 {
                    let i = r.below(assets.len() as u64) as usize;
                    let (got, base) = if r.chance(1, 4) {
                        (sign_report(&target, &base_ctx, "image/jpeg", &src_jpg), sign_baseline.as_str().to_string())
                    } else {
                        let (f, d) = &assets[i];
                        (cc::read_with(&target, f, d), baseline[i].clone())
                    };
                    if got == "cancelled" {
                        n_cancelled += 1;
                    } else if got == base {
                        if n_cancelled > 0 {
                            fails.push(("cancel-not-sticky".into(), format!("thread {t} op {k}: baseline result after an earlier operation of this thread was cancelled")));
                        }
                        n_ok += 1;
                    } else {
                        fails.push(("cancelled-shared-context-wrong-result".into(), format!("thread {t} op {k}: neither cancelled nor baseline: {}", short(&got))));
                    }
                }
                (fails, n_ok, n_cancelled)
            }));
        }
        let delay = rng.below(60_000);
        let canceller = {
            let (target, barrier) = (target.clone(), barrier.clone());
            std::thread::spawn(move || {
                barrier.wait();
                std::thread::sleep(std::time::Duration::from_micros(delay));
                target.cancel();
            })
        };
        barrier.wait();
        let _ = canceller.join();
        let (mut ok, mut can) = (0, 0);
        for h in handles {
            match h.join() {
                Ok((fails, a, b)) => {
                    ok += a;
                    can += b;
                    for (class, detail) in fails {
                        let idx = run.reqs.len().saturating_sub(1);
                        run.fail(idx, &class, format!("cancel round {round} ({nthreads} threads): {detail}"));
                    }
                }
                Err(_) => {
                    let idx = run.reqs.len().saturating_sub(1);
                    run.fail(idx, "panic", format!("cancel round {round}: worker thread panicked"));
                }
            }
        }
        if ok > 0 && can > 0 {
            saw_both = true;
        }
        run.count("cancel_shared_rounds");
        run.nontrivial(format!("cancel-round {round} {nthreads} ok={} cancelled={}", ok > 0, can > 0));
    }
    run.notes.push(format!("cancel-shared rounds: some round had both completed and cancelled operations: {saw_both}"));
    // the main thread's legacy settings were never touched by anything above
    run.obligations.insert("main-thread-legacy-settings-untouched".to_string(), clean_tls == cc::tls_full());
}

fn merge(target: &mut serde_json::Value, overlay: &serde_json::Value) {
    match (target, overlay) {
        (serde_json::Value::Object(t), serde_json::Value::Object(o)) => {
            for (k, v) in o {
                merge(t.entry(k.clone()).or_insert(serde_json::Value::Null), v);
            }
        }
        (t, o) => *t = o.clone(),
    }
}

/// Contexts configured through EVERY `IntoSettings` form (JSON str, TOML str, String,
/// serde_json::Value, Settings value / reference, settings files json / toml, `set_settings`), several
/// in a row on one thread (clean or poisoned): (a) no key of the thread's legacy settings moves,
/// (b) the context's effective settings are the defaults overlaid with exactly the given document
/// — whatever was built on the thread before —, (c) a read through the context gives the report of
/// a clean thread.
fn into_settings_forms(run: &mut Run, rng: &mut Rng) {
    let dir = vh::common::scratch("c24-forms");
    let defaults = serde_json::to_value(Settings::default()).unwrap_or_default();
    // (json document, the same as toml)
    let docs: Vec<(serde_json::Value, String)> = vec![
        (serde_json::json!({"verify": {"verify_trust": false, "remote_manifest_fetch": false, "ocsp_fetch": false}, "core": {"merkle_tree_max_proofs": 7}}), "[verify]\nverify_trust = false\nremote_manifest_fetch = false\nocsp_fetch = false\n[core]\nmerkle_tree_max_proofs = 7\n".into()),
        (serde_json::json!({"verify": {"remote_manifest_fetch": false, "ocsp_fetch": false}, "core": {"merkle_tree_max_proofs": 9}}), "[verify]\nremote_manifest_fetch = false\nocsp_fetch = false\n[core]\nmerkle_tree_max_proofs = 9\n".into()),
        (serde_json::json!({"verify": {"verify_after_reading": false, "remote_manifest_fetch": false, "ocsp_fetch": false}, "builder": {"thumbnail": {"enabled": false}}}), "[verify]\nverify_after_reading = false\nremote_manifest_fetch = false\nocsp_fetch = false\n[builder.thumbnail]\nenabled = false\n".into()),
        (serde_json::json!({"verify": {"remote_manifest_fetch": false, "ocsp_fetch": false}, "core": {"decode_identity_assertions": false, "max_decompressed_manifest_size_in_mb": 3}}), "[verify]\nremote_manifest_fetch = false\nocsp_fetch = false\n[core]\ndecode_identity_assertions = false\nmax_decompressed_manifest_size_in_mb = 3\n".into()),
    ];
    for (k, (j, t)) in docs.iter().enumerate() {
        let _ = std::fs::write(dir.join(format!("d{k}.json")), j.to_string());
        let _ = std::fs::write(dir.join(format!("d{k}.toml")), t);
    }
    let (fmt, asset) = probe_asset().clone();
    // references on the main thread (legacy settings never written), JSON form: report per document
    let reference: Vec<String> = docs
        .iter()
        .map(|(j, _)| match Context::new().with_settings(j.to_string().as_str()) {
            Ok(c) => cc::read_with(&Arc::new(c), &fmt, &asset),
            Err(e) => format!("ctx-error:{e:?}"),
        })
        .collect();
    let docs = Arc::new(docs);
    let reference = Arc::new(reference);
    let poisons = cc::poisons();
    let nthreads = if run.thorough() { 24 } else { 8 };
    let mut handles = vec![];
    for t in 0..nthreads {
        let (docs, reference, defaults, dir, fmt, asset) = (docs.clone(), reference.clone(), defaults.clone(), dir.clone(), fmt.clone(), asset.clone());
        let poison = if t % 2 == 1 { Some(poisons[(t / 2) % poisons.len()].clone()) } else { None };
        let seed = rng.next();
        handles.push(std::thread::spawn(move || {
            let mut r = Rng::new(seed);
            let mut fails: Vec<(String, String)> = vec![];
            if let Some(p) = &poison {
                let _ = Settings::from_string(p, "json");
            }
            let mut prev = String::from("-");
            let mut built = 0usize;
            for _ in 0..10 {
                let k = r.below(docs.len() as u64) as usize;
                let form = r.below(10);
                let (j, tml) = &docs[k];
                let before = cc::tls_full();
                let (name, ctx): (&str, c2pa::Result<Context>) = match form {
                    0 => ("json-str", Context::new().with_settings(j.to_string().as_str())),
                    1 => ("toml-str", Context::new().with_settings(tml.as_str())),
                    2 => ("toml-String", Context::new().with_settings(tml.clone())),
                    3 => ("json-Value", Context::new().with_settings(j.clone())),
                    4 => ("Settings-value", Settings::new().with_toml(tml).and_then(|s| Context::new().with_settings(s))),
                    5 => ("Settings-ref", Settings::new().with_json(&j.to_string()).and_then(|s| Context::new().with_settings(&s))),
                    6 => ("file-json", Settings::new().with_file(dir.join(format!("d{k}.json"))).and_then(|s| Context::new().with_settings(s))),
                    7 => ("file-toml", Settings::new().with_file(dir.join(format!("d{k}.toml"))).and_then(|s| Context::new().with_settings(s))),
                    8 => ("set_settings-toml-str", {
                        let mut c = Context::new();
                        c.set_settings(tml.as_str()).map(|_| c)
                    }),
                    _ => ("json-String", Context::new().with_settings(j.to_string())),
                };
                let here = format!("document #{k} as {name} (thread {t}, {}; previous on this thread: {prev})", if poison.is_some() { "poisoned legacy settings" } else { "clean legacy settings" });
                let after = cc::tls_full();
                if before != after {
                    fails.push(("settings-builder-changed-thread-local-settings".into(), format!("building a context from {here} changed the thread's legacy settings")));
                }
                match ctx {
                    Ok(c) => {
                        let mut want = defaults.clone();
                        merge(&mut want, j);
                        let got = serde_json::to_value(c.settings()).unwrap_or_default();
                        if got != want {
                            let mut where_ = vec![];
                            if let (Some(g), Some(w)) = (got.as_object(), want.as_object()) {
                                for (sec, wv) in w {
                                    if g.get(sec) != Some(wv) {
                                        where_.push(format!("{sec}: {} <> expected {}", short(&g.get(sec).map(|x| x.to_string()).unwrap_or_default()), short(&wv.to_string())));
                                    }
                                }
                            }
                            fails.push(("context-settings-not-defaults-plus-document".into(), format!("{here}: effective settings differ from defaults overlaid with the document at {where_:?}")));
                        }
                        let rep = cc::read_with(&Arc::new(c), &fmt, &asset);
                        if rep != reference[k] {
                            fails.push(("context-report-depends-on-how-settings-were-given".into(), format!("{here}: {} vs clean-thread JSON reference {}", short(&rep), short(&reference[k]))));
                        }
                        built += 1;
                    }
                    Err(e) => fails.push(("settings-form-rejected".into(), format!("{here}: {e:?}"))),
                }
                prev = format!("#{k} as {name}");
            }
            (fails, built)
        }));
    }
    let mut total = 0;
    for h in handles {
        match h.join() {
            Ok((fails, built)) => {
                total += built;
                for (class, detail) in fails {
                    let idx = run.reqs.len().saturating_sub(1);
                    run.fail(idx, &class, detail);
                }
            }
            Err(_) => {
                let idx = run.reqs.len().saturating_sub(1);
                run.fail(idx, "panic", "into_settings_forms: worker thread panicked".into());
            }
        }
    }
    run.count("into_settings_form_threads");
    run.nontrivial(format!("into-settings-forms {total}"));
    run.notes.push(format!("IntoSettings forms: {total} contexts built through 10 forms on {nthreads} threads (half poisoned)"));
    run.obligations.insert("into-settings-forms-exercised".to_string(), total >= nthreads * 8);
    let _ = std::fs::remove_dir_all(&dir);
}

pub fn run(run: &mut Run, rng: &mut Rng) {
    run.rule = "(a) random programs (0–5 ops each) over 1–4 real contexts and real threads executed in a random total order: two programs (`sched`) and 1–16 programs (`schedn`); non-trivial = ≥2 non-empty programs satisfying the theorems' hypothesis (any two ops of different programs touch different cells or are both shared-safe); conflicting programs are also generated (the model must still agree). Worker threads carry legacy thread-local settings that differ from every context's settings. (b) rounds of 1–16 real threads × shared/distinct contexts doing reads AND signs (signer from the context's settings), cancelling another context and calling settings builders with random delays, each thread with poisoned legacy settings; results compared with a clean-thread baseline, every key of the legacy settings watched; rounds that cancel the shared context mid-run (each op cancelled or baseline, cancelled is sticky). (c) contexts built through every IntoSettings form (JSON/TOML str, String, Value, Settings value/ref, json/toml files, set_settings), ten in a row per thread on clean and poisoned threads: legacy settings untouched, effective settings = defaults + document, report = clean-thread reference".to_string();
    model_cases(run, rng);
    model_cases_n(run, rng);
    into_settings_forms(run, rng);
    concurrency(run, rng);
}
