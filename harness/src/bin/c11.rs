//! C11 — the reader's verdict does not depend on a wrong format hint.
//!
//!   c11 dump                         -> JSON {pdf, map:[[fmt,container],…]} (used by the translator)
//!   c11 <tier> <seed> <outdir>       -> correspondence + end-to-end run
//!
//! Request lines:
//!   C11 detect pdf=<0|1> hint=<hex> data=<hex>  -> <detected|-> <family(hint)|-> <hex(resolved format)>
//!   C11 norm s=<hex>                            -> <hex(normalize_format(s))>  (via container lookups)

use std::io::Cursor;

use c2pa::{verif_hooks::c11 as hook, Context, Reader};
use vh::common::{canon_json, fixtures, guarded, hex, main_with, Rng, Run};

fn main() {
    let args: Vec<String> = std::env::args().collect();
    if args.len() >= 2 && args[1] == "dump" {
        let map: Vec<Vec<String>> = hook::container_map().into_iter().map(|(k, v)| vec![k, v]).collect();
        println!("{}", serde_json::json!({"pdf": hook::pdf_enabled(), "map": map}));
        return;
    }
    main_with("C11", run);
}

fn magic_prefixes() -> Vec<Vec<u8>> {
    vec![
        vec![0xff, 0xd8, 0xff],
        vec![0x89, 0x50, 0x4e, 0x47, 0x0d, 0x0a, 0x1a, 0x0a],
        b"GIF87a".to_vec(),
        b"GIF89a".to_vec(),
        b"GIF88a".to_vec(),
        vec![0x49, 0x49, 0x2A, 0x00],
        vec![0x4D, 0x4D, 0x00, 0x2A],
        vec![0x49, 0x49, 0x2B, 0x00],
        vec![0x4D, 0x4D, 0x00, 0x2B],
        vec![0x4D, 0x4D, 0x2A, 0x00],
        vec![0x00, 0x00, 0x00, 0x0c, 0x4a, 0x58, 0x4c, 0x20, 0x0d, 0x0a, 0x87, 0x0a],
        b"RIFF".to_vec(),
        b"\x00\x00\x00\x18ftyp".to_vec(),
        b"\x00\x00\x00\x18ftyq".to_vec(),
        b"fLaC".to_vec(),
        b"ID3".to_vec(),
        vec![0xff, 0xe0],
        vec![0xff, 0xfb],
        vec![0xff, 0xdf],
        b"%PDF".to_vec(),
        b"<svg".to_vec(),
        b"\x00\x00\x00\x20jumb".to_vec(),
    ]
}

fn gen_data(r: &mut Rng) -> Vec<u8> {
    let magics = magic_prefixes();
    match r.below(10) {
        0 => { let k = r.below(4) as usize; r.bytes(k) }
        1 => { let k = r.range(2, 40) as usize; r.bytes(k) }
        2 => {
            // ID3 with a crafted sync-safe size and optional fLaC at the computed offset
            let size = *r.pick(&[0u32, 1, 5, 127, 128, 200, 300]);
            let mut v = b"ID3\x04\x00\x00".to_vec();
            let hi = if r.chance(1, 3) { 0x80 } else { 0 }; // high bits must be ignored
            v.push(((size >> 21) & 0x7f) as u8 | hi);
            v.push(((size >> 14) & 0x7f) as u8 | hi);
            v.push(((size >> 7) & 0x7f) as u8 | hi);
            v.push((size & 0x7f) as u8 | hi);
            let pad = match r.below(4) {
                0 => size as usize,
                1 => size.saturating_sub(1) as usize,
                2 => size as usize + 1,
                _ => r.below(size as u64 + 2) as usize,
            };
            v.extend(r.bytes(pad));
            match r.below(3) {
                0 => v.extend(b"fLaC"),
                1 => v.extend(b"fLa"),
                _ => v.extend(r.bytes(4)),
            }
            v
        }
        3 => {
            // truncated magic
            let m = r.pick(&magics).clone();
            let k = r.below(m.len() as u64 + 1) as usize;
            m[..k].to_vec()
        }
        4 => {
            // magic with one byte flipped
            let mut m = r.pick(&magics).clone();
            let i = r.below(m.len() as u64) as usize;
            m[i] ^= 1 << r.below(8);
            let k = r.below(20) as usize; m.extend(r.bytes(k));
            m
        }
        _ => {
            let mut m = r.pick(&magics).clone();
            let k = r.below(24) as usize; m.extend(r.bytes(k));
            m
        }
    }
}

fn gen_hint(r: &mut Rng, formats: &[String]) -> String {
    let base = match r.below(10) {
        0 => "".to_string(),
        1 => r.pick(&["xyz", "image/unknown", "application/octet-stream", "c2pa", "svg", "txt"]).to_string(),
        _ => r.pick(formats).clone(),
    };
    let mut s = base;
    if r.chance(1, 4) {
        s = s.to_uppercase();
    } else if r.chance(1, 6) {
        // mixed case
        s = s
            .chars()
            .enumerate()
            .map(|(i, c)| if i % 2 == 0 { c.to_ascii_uppercase() } else { c })
            .collect();
    }
    if r.chance(1, 5) {
        let ws = [" ", "\t", "  ", "\n", "\r\n"];
        s = format!("{}{}{}", r.pick(&ws), s, r.pick(&ws));
    }
    s
}

fn report_of(format: &str, data: &[u8]) -> String {
    report_of_mode(format, data, false)
}

/// Same read through the async entry point (`with_stream_async`), driven by a current-thread runtime.
fn report_of_async(format: &str, data: &[u8]) -> String {
    report_of_mode(format, data, true)
}

fn report_of_mode(format: &str, data: &[u8], use_async: bool) -> String {
    let res = guarded(|| {
        let ctx = Context::new();
        if use_async {
            let rt = tokio::runtime::Builder::new_current_thread().enable_all().build().expect("runtime");
            rt.block_on(Reader::from_context(ctx).with_stream_async(format, Cursor::new(data.to_vec())))
        } else {
            Reader::from_context(ctx).with_stream(format, Cursor::new(data.to_vec()))
        }
    });
    match res {
        Err(p) => format!("panic:{p}"),
        Ok(Err(e)) => {
            // class only
            let d = format!("{e:?}");
            let cls: String = d.chars().take_while(|c| c.is_ascii_alphanumeric()).collect();
            format!("err:{cls}")
        }
        Ok(Ok(reader)) => {
            let mut v: serde_json::Value = serde_json::from_str(&reader.json()).unwrap_or(serde_json::Value::Null);
            // validation time is a wall-clock stamp
            if let Some(o) = v.as_object_mut() {
                if let Some(vr) = o.get_mut("validation_results").and_then(|x| x.as_object_mut()) {
                    vr.remove("validationTime");
                }
                o.remove("validation_time");
            }
            format!("ok:{:?}:{}", reader.validation_state(), canon_json(&v))
        }
    }
}

pub fn run(run: &mut Run, rng: &mut Rng) {
    run.rule = "leading bytes from a magic-prefix grammar (exact / truncated / one-bit-flipped / ID3 with crafted sync-safe sizes) × hints from every key of the running CONTAINER_MAP with case/whitespace variation; non-trivial = detection succeeds and the hint's family differs from it or is unknown; end-to-end: every fixture asset whose container is detected × every format string as hint, reports compared".to_string();
    let map = hook::container_map();
    let formats: Vec<String> = map.iter().map(|(k, _)| k.clone()).collect();
    let pdf = hook::pdf_enabled();
    run.notes.push(format!("CONTAINER_MAP entries: {} pdf={}", map.len(), pdf));

    let n = if run.thorough() { 200_000 } else { 20_000 };
    for _ in 0..n {
        let mut r = rng.fork();
        let data = gen_data(&mut r);
        let hint = gen_hint(&mut r, &formats);
        let detected = hook::container_from_stream(&mut Cursor::new(data.clone()));
        let fam = hook::container_from_format(&hint);
        let resolved = hook::format_from_stream(&hint, &mut Cursor::new(data.clone()));
        let req = format!("C11 detect pdf={} hint={} data={}", pdf as u8, hex(hint.as_bytes()), hex(&data));
        let imp = format!("{} {} {}", detected.unwrap_or("-"), fam.unwrap_or("-"), hex(resolved.as_bytes()));
        run.count(&format!("detected_{}", detected.unwrap_or("none")));
        if let Some(d) = detected {
            if fam != Some(d) {
                run.nontrivial(req.clone());
            }
        }
        let idx = run.case(req, imp);
        // oracle: when bytes identify a container the resolved format is in that family,
        // whatever the hint; otherwise the hint is used unchanged.
        match detected {
            Some(d) => {
                if hook::container_from_format(&resolved) != Some(d) {
                    run.fail(idx, "hint-overrides-detection", format!("detected {d} but resolved format {resolved:?} is in family {:?}", hook::container_from_format(&resolved)));
                }
            }
            None => {
                if resolved != hint {
                    run.fail(idx, "hint-not-used", format!("no container detected but resolved {resolved:?} != hint {hint:?}"));
                }
            }
        }
    }

    // End-to-end: signed fixtures × hints.
    let dir = fixtures();
    let mut files: Vec<std::path::PathBuf> = std::fs::read_dir(&dir)
        .map(|d| d.filter_map(|e| e.ok()).map(|e| e.path()).filter(|p| p.is_file()).collect())
        .unwrap_or_default();
    files.sort();
    let max_size = if run.thorough() { 5_000_000 } else { 3_000_000 };
    // assets: fixtures that already carry a manifest + one freshly signed asset per writable family
    let mut assets: Vec<(String, Vec<u8>)> = vec![];
    for (fmt, name) in vh::sign::unsigned_sources() {
        if let Ok(src) = std::fs::read(dir.join(name)) {
            if src.len() > max_size { continue; }
            match guarded(|| vh::sign::sign_asset(fmt, &src, None)) {
                Ok(Ok(signed)) => assets.push((format!("signed:{name}"), signed)),
                Ok(Err(e)) => run.notes.push(format!("could not sign {name}: {e:?}")),
                Err(p) => run.notes.push(format!("panic signing {name}: {p}")),
            }
        }
    }
    for f in files {
        if let Ok(d) = std::fs::read(&f) {
            assets.push((f.file_name().unwrap().to_string_lossy().to_string(), d));
        }
    }
    let mut seen_containers: std::collections::BTreeMap<String, u32> = Default::default();
    let per_container = if run.thorough() { 6 } else { 2 };
    let mut e2e = 0u64;
    for (name, data) in assets {
        if data.len() > max_size {
            continue;
        }
        let detected = match hook::container_from_stream(&mut Cursor::new(data.clone())) {
            Some(d) => d,
            None => continue,
        };
        let cnt = seen_containers.entry(detected.to_string()).or_insert(0);
        if *cnt >= per_container {
            continue;
        }
        let baseline = report_of(detected, &data);
        if !baseline.starts_with("ok:") {
            continue; // only assets that carry a readable manifest are informative
        }
        *cnt += 1;
        let hints: Vec<String> = if run.thorough() {
            formats.clone()
        } else {
            // one representative per family + a few random
            let mut hs: Vec<String> = vec![];
            let mut fams = std::collections::BTreeSet::new();
            for (k, v) in &map {
                if fams.insert(v.clone()) {
                    hs.push(k.clone());
                }
            }
            for _ in 0..4 {
                hs.push(rng.pick(&formats).clone());
            }
            hs.push("application/unknown".to_string());
            hs.push(" IMAGE/JPEG ".to_string());
            hs
        };
        for h in hints {
            let rep = report_of(&h, &data);
            e2e += 1;
            let same = rep == baseline;
            run.count(if same { "e2e_same" } else { "e2e_diff" });
            if !same {
                let idx = run.reqs.len().saturating_sub(1);
                run.fail(idx, "report-depends-on-hint", format!("fixture {name} (container {detected}) hint {h:?}: {} vs baseline {}", &rep[..rep.len().min(160)], &baseline[..baseline.len().min(160)]));
            } else {
                run.nontrivial(format!("e2e {name} {h}"));
            }
            // the async entry point must reconcile the hint in the same way
            let rep_a = report_of_async(&h, &data);
            e2e += 1;
            let same_a = rep_a == baseline;
            run.count(if same_a { "e2e_async_same" } else { "e2e_async_diff" });
            if !same_a {
                let idx = run.reqs.len().saturating_sub(1);
                run.fail(idx, "report-depends-on-hint", format!("fixture {name} (container {detected}) hint {h:?} through with_stream_async: {} vs baseline {}", &rep_a[..rep_a.len().min(160)], &baseline[..baseline.len().min(160)]));
            } else {
                run.nontrivial(format!("e2e-async {name} {h}"));
            }
        }
    }
    run.notes.push(format!("end-to-end reads: {e2e}; fixtures per container: {seen_containers:?}"));
    run.obligations.insert("e2e:report-independent-of-hint".to_string(), !run.oracle.iter().any(|o| o.class == "report-depends-on-hint"));
}
