//! C11 — the reader's verdict does not depend on a wrong format hint.
//!
//!   c11 dump                         -> JSON {pdf, map:[[fmt,container],…], readers:[[fmt,[types…]],…]}
//!                                       (used by the translator)
//!   c11 <tier> <seed> <outdir>       -> correspondence + end-to-end run
//!
//! Request lines:
//!   C11 detect pdf=<0|1> hint=<hex> data=<hex>  -> <detected|-> <family(hint)|-> <hex(resolved format)>
//!   C11 detectio pdf=<0|1> hint=<hex> data=<hex> script=<c<k>|i|f,…|-> seekfail=<n|->
//!                                               -> <detected|-> <hex(resolved format)>
//!       (the stream's successive `read` calls follow the script: short read of ≤k bytes,
//!        Interrupted, hard error; the n-th `seek` call fails)
//!   C11 reader f=<hex>                          -> identity of the handler selected for reading | -
//!   C11 norm s=<hex>                            -> <hex(normalize_format(s))>  (via container lookups)

use std::collections::{BTreeMap, BTreeSet, VecDeque};
use std::io::{Cursor, Read, Seek, SeekFrom};

use c2pa::{verif_hooks::c11 as hook, Builder, BuilderIntent, Context, EphemeralSigner, Reader};
use vh::common::{canon_json, fixtures, guarded, hex, main_with, Rng, Run};

fn main() {
    let args: Vec<String> = std::env::args().collect();
    if args.len() >= 2 && args[1] == "dump" {
        let map: Vec<Vec<String>> = hook::container_map().into_iter().map(|(k, v)| vec![k, v]).collect();
        let readers: Vec<serde_json::Value> = hook::reader_map().into_iter().map(|(k, t)| serde_json::json!([k, t])).collect();
        println!("{}", serde_json::json!({"pdf": hook::pdf_enabled(), "map": map, "readers": readers}));
        return;
    }
    main_with("C11", run);
}

fn magic_prefixes() -> Vec<Vec<u8>> {
    vec![
        vec![0xff, 0xd8, 0xff],
        vec![0x89, 0x50, 0x4e, 0x47, 0x0d, 0x0a, 0x1a, 0x0a],
        b"GIF87a".to_vec(),
        b"GIF89a".to_vec(),
        b"GIF88a".to_vec(),
        vec![0x49, 0x49, 0x2A, 0x00],
        vec![0x4D, 0x4D, 0x00, 0x2A],
        vec![0x49, 0x49, 0x2B, 0x00],
        vec![0x4D, 0x4D, 0x00, 0x2B],
        vec![0x4D, 0x4D, 0x2A, 0x00],
        vec![0x00, 0x00, 0x00, 0x0c, 0x4a, 0x58, 0x4c, 0x20, 0x0d, 0x0a, 0x87, 0x0a],
        b"RIFF".to_vec(),
        b"\x00\x00\x00\x18ftyp".to_vec(),
        b"\x00\x00\x00\x18ftyq".to_vec(),
        b"fLaC".to_vec(),
        b"ID3".to_vec(),
        vec![0xff, 0xe0],
        vec![0xff, 0xfb],
        vec![0xff, 0xdf],
        b"%PDF".to_vec(),
        b"<svg".to_vec(),
        b"\x00\x00\x00\x20jumb".to_vec(),
        // two signatures at once (offset-0 magic + "ftyp" at offset 4): rule order decides
        b"RIFFftyp".to_vec(),
        b"fLaCftyp".to_vec(),
        b"II\x2a\x00ftyp".to_vec(),
        b"%PDFftyp".to_vec(),
        b"ID3\x04ftyp\x00\x00".to_vec(),
        b"\xff\xd8\xff\xe0ftyp".to_vec(),
        b"\xff\xfb\x90\x00ftyp".to_vec(),
    ]
}

fn gen_data(r: &mut Rng) -> Vec<u8> {
    let magics = magic_prefixes();
    match r.below(10) {
        0 => { let k = r.below(4) as usize; r.bytes(k) }
        1 => { let k = r.range(2, 40) as usize; r.bytes(k) }
        2 => {
            // ID3 with a crafted sync-safe size and optional fLaC at the computed offset
            let size = *r.pick(&[0u32, 1, 5, 127, 128, 200, 300]);
            let mut v = b"ID3\x04\x00\x00".to_vec();
            let hi = if r.chance(1, 3) { 0x80 } else { 0 }; // high bits must be ignored
            v.push(((size >> 21) & 0x7f) as u8 | hi);
            v.push(((size >> 14) & 0x7f) as u8 | hi);
            v.push(((size >> 7) & 0x7f) as u8 | hi);
            v.push((size & 0x7f) as u8 | hi);
            let pad = match r.below(4) {
                0 => size as usize,
                1 => size.saturating_sub(1) as usize,
                2 => size as usize + 1,
                _ => r.below(size as u64 + 2) as usize,
            };
            v.extend(r.bytes(pad));
            match r.below(3) {
                0 => v.extend(b"fLaC"),
                1 => v.extend(b"fLa"),
                _ => v.extend(r.bytes(4)),
            }
            v
        }
        3 => {
            // truncated magic
            let m = r.pick(&magics).clone();
            let k = r.below(m.len() as u64 + 1) as usize;
            m[..k].to_vec()
        }
        4 => {
            // magic with one byte flipped
            let mut m = r.pick(&magics).clone();
            let i = r.below(m.len() as u64) as usize;
            m[i] ^= 1 << r.below(8);
            let k = r.below(20) as usize; m.extend(r.bytes(k));
            m
        }
        _ => {
            let mut m = r.pick(&magics).clone();
            let k = r.below(24) as usize; m.extend(r.bytes(k));
            m
        }
    }
}

fn gen_hint(r: &mut Rng, formats: &[String]) -> String {
    let base = match r.below(10) {
        0 => "".to_string(),
        1 => r.pick(&["xyz", "image/unknown", "application/octet-stream", "c2pa", "svg", "txt"]).to_string(),
        _ => r.pick(formats).clone(),
    };
    vary(r, base)
}

fn vary(r: &mut Rng, base: String) -> String {
    let mut s = base;
    if r.chance(1, 4) {
        s = s.to_uppercase();
    } else if r.chance(1, 6) {
        // mixed case
        s = s
            .chars()
            .enumerate()
            .map(|(i, c)| if i % 2 == 0 { c.to_ascii_uppercase() } else { c })
            .collect();
    }
    if r.chance(1, 5) {
        let ws = [" ", "\t", "  ", "\n", "\r\n", "\x0b", "\x0c"];
        s = format!("{}{}{}", r.pick(&ws), s, r.pick(&ws));
    }
    s
}

// ---------------------------------------------------------------------------------------------
// a stream whose `read`/`seek` calls follow a script (short reads, Interrupted, hard errors)

#[derive(Clone, Copy, Debug)]
enum Ev {
    Chunk(usize),
    Intr,
    Fail,
}

struct ScriptStream {
    inner: Cursor<Vec<u8>>,
    script: VecDeque<Ev>,
    seeks: usize,
    seek_fail: Option<usize>,
}

impl ScriptStream {
    fn new(data: &[u8], script: &[Ev], seek_fail: Option<usize>) -> Self {
        ScriptStream { inner: Cursor::new(data.to_vec()), script: script.iter().copied().collect(), seeks: 0, seek_fail }
    }
}

impl Read for ScriptStream {
    fn read(&mut self, buf: &mut [u8]) -> std::io::Result<usize> {
        match self.script.pop_front() {
            None => self.inner.read(buf),
            Some(Ev::Chunk(k)) => {
                let m = k.min(buf.len());
                self.inner.read(&mut buf[..m])
            }
            Some(Ev::Intr) => Err(std::io::Error::new(std::io::ErrorKind::Interrupted, "scripted EINTR")),
            Some(Ev::Fail) => Err(std::io::Error::other("scripted read error")),
        }
    }
}

impl Seek for ScriptStream {
    fn seek(&mut self, pos: SeekFrom) -> std::io::Result<u64> {
        let i = self.seeks;
        self.seeks += 1;
        if Some(i) == self.seek_fail {
            return Err(std::io::Error::other("scripted seek error"));
        }
        self.inner.seek(pos)
    }
}

fn gen_script(r: &mut Rng) -> Vec<Ev> {
    let n = match r.below(6) {
        0 => 0,
        1 => 1,
        _ => r.below(24) as usize,
    };
    // hard errors and premature Ok(0) are rarer so that most scripts reach the magic tests
    let (p_fail, p_zero) = match r.below(4) {
        0 => (6, 6),
        _ => (40, 40),
    };
    (0..n)
        .map(|_| {
            if r.chance(1, p_fail) {
                Ev::Fail
            } else if r.chance(1, p_zero) {
                Ev::Chunk(0)
            } else if r.chance(1, 5) {
                Ev::Intr
            } else {
                Ev::Chunk(*r.pick(&[1usize, 1, 1, 2, 3, 4, 5, 7, 9, 15, 16, 32]))
            }
        })
        .collect()
}

fn script_text(s: &[Ev]) -> String {
    if s.is_empty() {
        return "-".to_string();
    }
    s.iter()
        .map(|e| match e {
            Ev::Chunk(k) => format!("c{k}"),
            Ev::Intr => "i".to_string(),
            Ev::Fail => "f".to_string(),
        })
        .collect::<Vec<_>>()
        .join(",")
}

// ---------------------------------------------------------------------------------------------
// end-to-end reads

fn report_of(format: &str, data: &[u8]) -> String {
    report_of_mode(format, data, false)
}

/// Same read through the async entry point (`with_stream_async`), driven by a current-thread runtime.
fn report_of_async(format: &str, data: &[u8]) -> String {
    report_of_mode(format, data, true)
}

fn report_of_mode(format: &str, data: &[u8], use_async: bool) -> String {
    let res = guarded(|| {
        let ctx = Context::new();
        if use_async {
            let rt = tokio::runtime::Builder::new_current_thread().enable_all().build().expect("runtime");
            rt.block_on(Reader::from_context(ctx).with_stream_async(format, Cursor::new(data.to_vec())))
        } else {
            Reader::from_context(ctx).with_stream(format, Cursor::new(data.to_vec()))
        }
    });
    match res {
        Err(p) => format!("panic:{p}"),
        Ok(Err(e)) => {
            // class only
            let d = format!("{e:?}");
            let cls: String = d.chars().take_while(|c| c.is_ascii_alphanumeric()).collect();
            format!("err:{cls}")
        }
        Ok(Ok(reader)) => {
            let mut v: serde_json::Value = serde_json::from_str(&reader.json()).unwrap_or(serde_json::Value::Null);
            // validation time is a wall-clock stamp
            if let Some(o) = v.as_object_mut() {
                if let Some(vr) = o.get_mut("validation_results").and_then(|x| x.as_object_mut()) {
                    vr.remove("validationTime");
                }
                o.remove("validation_time");
            }
            format!("ok:{:?}:{}", reader.validation_state(), canon_json(&v))
        }
    }
}

/// Minimal 4x4 8-bit grayscale baseline TIFF, single strip; classic or BigTIFF, either byte order.
fn tiny_tiff(big_endian: bool, bigtiff: bool) -> Vec<u8> {
    let u16b = |v: u16| if big_endian { v.to_be_bytes() } else { v.to_le_bytes() };
    let u32b = |v: u32| if big_endian { v.to_be_bytes() } else { v.to_le_bytes() };
    let u64b = |v: u64| if big_endian { v.to_be_bytes() } else { v.to_le_bytes() };
    const SHORT: u16 = 3;
    const LONG: u16 = 4;
    let n = 9usize;
    let data_off: u32 = if bigtiff { (16 + 8 + n * 20 + 8) as u32 } else { (8 + 2 + n * 12 + 4) as u32 };
    let entries: [(u16, u16, u32); 9] = [
        (256, SHORT, 4),
        (257, SHORT, 4),
        (258, SHORT, 8),
        (259, SHORT, 1),
        (262, SHORT, 1),
        (273, LONG, data_off),
        (277, SHORT, 1),
        (278, SHORT, 4),
        (279, LONG, 16),
    ];
    let mut out = Vec::new();
    out.extend_from_slice(if big_endian { b"MM" } else { b"II" });
    if bigtiff {
        out.extend_from_slice(&u16b(43));
        out.extend_from_slice(&u16b(8));
        out.extend_from_slice(&u16b(0));
        out.extend_from_slice(&u64b(16));
        out.extend_from_slice(&u64b(n as u64));
    } else {
        out.extend_from_slice(&u16b(42));
        out.extend_from_slice(&u32b(8));
        out.extend_from_slice(&u16b(n as u16));
    }
    for (tag, ty, val) in entries {
        out.extend_from_slice(&u16b(tag));
        out.extend_from_slice(&u16b(ty));
        if bigtiff {
            out.extend_from_slice(&u64b(1));
        } else {
            out.extend_from_slice(&u32b(1));
        }
        let mut field = Vec::new();
        if ty == SHORT {
            field.extend_from_slice(&u16b(val as u16));
        } else {
            field.extend_from_slice(&u32b(val));
        }
        field.resize(if bigtiff { 8 } else { 4 }, 0);
        out.extend_from_slice(&field);
    }
    if bigtiff {
        out.extend_from_slice(&u64b(0));
    } else {
        out.extend_from_slice(&u32b(0));
    }
    assert_eq!(out.len(), data_off as usize);
    out.extend((0u8..16).map(|i| i * 16));
    out
}

/// Add an update manifest (`BuilderIntent::Update`) on top of a signed asset.
fn add_update(format: &str, signed: &[u8]) -> c2pa::Result<Vec<u8>> {
    let signer = EphemeralSigner::new("verif.test")?;
    let ctx = Context::new().with_signer(signer);
    let def = serde_json::json!({
        "title": "verif update", "format": format,
        "claim_generator_info": [{"name": "verif-harness", "version": "0.1"}],
        "assertions": [{"label": "c2pa.actions", "data": {"actions": [{"action": "c2pa.edited.metadata"}]}}]
    })
    .to_string();
    let mut b = Builder::from_context(ctx).with_definition(def.as_str())?;
    b.set_intent(BuilderIntent::Update);
    let mut out = Cursor::new(Vec::new());
    b.save_to_stream(format, &mut Cursor::new(signed.to_vec()), &mut out)?;
    Ok(out.into_inner())
}

/// Which of the sniffing rules' alternatives the leading bytes of `d` exercise (harness-side
/// label used only for coverage accounting).
fn magic_variant(d: &[u8]) -> &'static str {
    let at = |o: usize, p: &[u8]| d.len() >= o + p.len() && &d[o..o + p.len()] == p;
    if at(0, &[0xff, 0xd8, 0xff]) {
        "jpg"
    } else if at(0, &[0x89, 0x50, 0x4e, 0x47, 0x0d, 0x0a, 0x1a, 0x0a]) {
        "png"
    } else if at(0, b"GIF87a") {
        "gif87a"
    } else if at(0, b"GIF89a") {
        "gif89a"
    } else if at(0, &[0x49, 0x49, 0x2a, 0x00]) {
        "tiff-le"
    } else if at(0, &[0x4d, 0x4d, 0x00, 0x2a]) {
        "tiff-be"
    } else if at(0, &[0x49, 0x49, 0x2b, 0x00]) {
        "bigtiff-le"
    } else if at(0, &[0x4d, 0x4d, 0x00, 0x2b]) {
        "bigtiff-be"
    } else if at(0, &[0x00, 0x00, 0x00, 0x0c, 0x4a, 0x58, 0x4c, 0x20]) {
        "jxl"
    } else if at(0, b"RIFF") {
        "riff"
    } else if at(4, b"ftyp") {
        "ftyp"
    } else if at(0, b"fLaC") {
        "flac"
    } else if at(0, b"ID3") && d.len() >= 10 {
        let sz = ((d[6] as usize & 0x7f) << 21) | ((d[7] as usize & 0x7f) << 14) | ((d[8] as usize & 0x7f) << 7) | (d[9] as usize & 0x7f);
        if at(10 + sz, b"fLaC") {
            "id3+flac"
        } else {
            "id3"
        }
    } else if d.len() >= 2 && d[0] == 0xff && d[1] & 0xe0 == 0xe0 {
        "mpeg-sync"
    } else if at(0, b"%PDF") {
        "pdf"
    } else {
        "none"
    }
}

const VARIANTS: [&str; 16] = [
    "jpg", "png", "gif87a", "gif89a", "tiff-le", "tiff-be", "bigtiff-le", "bigtiff-be", "jxl", "riff", "ftyp", "flac", "id3+flac", "id3",
    "mpeg-sync", "pdf",
];

struct Asset {
    name: String,
    data: Vec<u8>,
    /// synthesized to reach a particular rule alternative / code path: never dropped by the
    /// per-container quota
    forced: bool,
    /// the format the harness itself produced the asset as (None for fixture files)
    truth: Option<&'static str>,
}

pub fn run(run: &mut Run, rng: &mut Rng) {
    run.rule = "leading bytes from a magic-prefix grammar (exact / truncated / one-bit-flipped / two signatures at once / ID3 with crafted sync-safe sizes) × hints from every key of the running CONTAINER_MAP with case/whitespace variation; the same through streams with scripted short reads / Interrupted / read and seek errors; non-trivial = detection succeeds and the hint's family differs from it or is unknown, or an I/O script that changes the outcome; end-to-end: signed, update-manifest, truncated, bit-flipped and unsigned assets of every sniffing-rule alternative × format strings as hint (sync and async entry points), full report or error class compared; undetected streams × hints compared with the hint's own family".to_string();
    let map = hook::container_map();
    let formats: Vec<String> = map.iter().map(|(k, _)| k.clone()).collect();
    let pdf = hook::pdf_enabled();
    run.notes.push(format!("CONTAINER_MAP entries: {} pdf={}", map.len(), pdf));

    // ---- handler selected for reading: every registered string with variants + unknown ones ----
    let join = |t: Option<Vec<String>>| t.map(|v| v.join(",")).unwrap_or_else(|| "-".to_string());
    let mut reader_inputs: Vec<String> = vec![];
    for f in &formats {
        reader_inputs.push(f.clone());
        reader_inputs.push(f.to_uppercase());
        reader_inputs.push(format!(" {f}\t"));
        reader_inputs.push(format!("\n{}\r\n", f.to_uppercase()));
    }
    for u in ["", " ", "xyz", "image/unknown", "jp g", "jpg,jpeg", "image/jpeg;q=1"] {
        reader_inputs.push(u.to_string());
    }
    let mut writer_asym: BTreeSet<String> = BTreeSet::new();
    for f in &reader_inputs {
        let imp = join(hook::handler_types(f));
        let idx = run.case(format!("C11 reader f={}", hex(f.as_bytes())), imp.clone());
        run.count(if imp == "-" { "reader_unknown" } else { "reader_known" });
        // observation (not an oracle clause): during validation the format string is also looked
        // up in CAI_WRITERS (object_locations_from_stream); that lookup need not be uniform
        // inside a family. Any report difference it causes is caught by the end-to-end sweep.
        if let Some(c) = hook::container_from_format(f) {
            if hook::writer_present(f) != hook::writer_present(c) && writer_asym.insert(f.trim().to_lowercase()) {
                run.count("observation_writer_lookup_differs_within_family");
            }
        }
        // oracle: a string of family c selects the same handler as c itself
        if let Some(c) = hook::container_from_format(f) {
            let want = join(hook::handler_types(c));
            if imp != want || imp == "-" {
                run.fail(idx, "family-member-selects-other-handler", format!("format {f:?} is in family {c} but selects handler [{imp}], {c} selects [{want}]"));
            }
        } else if imp != "-" {
            run.fail(idx, "handler-without-family", format!("format {f:?} has no container id but selects handler [{imp}]"));
        }
    }

    if !writer_asym.is_empty() {
        run.notes.push(format!(
            "observation: get_caiwriter_handler (used by object_locations_from_stream during validation) finds no handler for {writer_asym:?} although their container id has one; only matters for re-basing data-hash exclusions under an update manifest (see the update:* assets in the end-to-end sweep)"
        ));
    }

    // ---- detection / reconciliation on in-memory streams ----
    let n = if run.thorough() { 200_000 } else { 20_000 };
    for _ in 0..n {
        let mut r = rng.fork();
        let data = gen_data(&mut r);
        let hint = gen_hint(&mut r, &formats);
        let detected = hook::container_from_stream(&mut Cursor::new(data.clone()));
        let fam = hook::container_from_format(&hint);
        let resolved = hook::format_from_stream(&hint, &mut Cursor::new(data.clone()));
        let req = format!("C11 detect pdf={} hint={} data={}", pdf as u8, hex(hint.as_bytes()), hex(&data));
        let imp = format!("{} {} {}", detected.unwrap_or("-"), fam.unwrap_or("-"), hex(resolved.as_bytes()));
        run.count(&format!("detected_{}", detected.unwrap_or("none")));
        if let Some(d) = detected {
            if fam != Some(d) {
                run.nontrivial(req.clone());
            }
        }
        let idx = run.case(req, imp);
        // oracle: when bytes identify a container the resolved format is in that family and
        // selects that family's handler, whatever the hint; otherwise the hint is used unchanged.
        match detected {
            Some(d) => {
                if hook::container_from_format(&resolved) != Some(d) {
                    run.fail(idx, "hint-overrides-detection", format!("detected {d} but resolved format {resolved:?} is in family {:?}", hook::container_from_format(&resolved)));
                }
                let (hr, hd) = (hook::handler_types(&resolved), hook::handler_types(d));
                if hr.is_none() || hr != hd {
                    run.fail(idx, "hint-changes-handler", format!("detected {d}: hint {hint:?} resolves to {resolved:?} which selects handler {hr:?}, {d} selects {hd:?}"));
                }
            }
            None => {
                if resolved != hint {
                    run.fail(idx, "hint-not-used", format!("no container detected but resolved {resolved:?} != hint {hint:?}"));
                }
            }
        }
    }

    // ---- the same through streams with scripted reads / seeks ----
    let n_io = if run.thorough() { 100_000 } else { 10_000 };
    for _ in 0..n_io {
        let mut r = rng.fork();
        let data = gen_data(&mut r);
        let hint = gen_hint(&mut r, &formats);
        let script = gen_script(&mut r);
        let seek_fail = if r.chance(1, 8) { Some(r.below(5) as usize) } else { None };
        let detected = hook::container_from_stream(&mut ScriptStream::new(&data, &script, seek_fail));
        let resolved = hook::format_from_stream(&hint, &mut ScriptStream::new(&data, &script, seek_fail));
        let req = format!(
            "C11 detectio pdf={} hint={} data={} script={} seekfail={}",
            pdf as u8,
            hex(hint.as_bytes()),
            hex(&data),
            script_text(&script),
            seek_fail.map(|k| k.to_string()).unwrap_or_else(|| "-".to_string())
        );
        let imp = format!("{} {}", detected.unwrap_or("-"), hex(resolved.as_bytes()));
        let plain = hook::container_from_stream(&mut Cursor::new(data.clone()));
        let benign = seek_fail.is_none() && !script.iter().any(|e| matches!(e, Ev::Fail | Ev::Chunk(0)));
        run.count(if benign { "io_benign" } else { "io_faulty" });
        if plain != detected {
            run.count("io_outcome_changed_by_fault");
            run.nontrivial(req.clone());
        } else if benign && !script.is_empty() && plain.is_some() {
            run.nontrivial(req.clone());
        }
        let idx = run.case(req, imp);
        // oracle: short reads and Interrupted never change what is detected; with any fault the
        // result is still "detected family or the hint unchanged"
        if benign && detected != plain {
            run.fail(idx, "short-read-changes-detection", format!("script {} : detected {detected:?}, whole-buffer read detects {plain:?}", script_text(&script)));
        }
        match detected {
            Some(d) => {
                if hook::container_from_format(&resolved) != Some(d) {
                    run.fail(idx, "hint-overrides-detection", format!("(scripted stream) detected {d} but resolved {resolved:?}"));
                }
            }
            None => {
                if resolved != hint {
                    run.fail(idx, "hint-not-used", format!("(scripted stream) nothing detected but resolved {resolved:?} != hint {hint:?}"));
                }
            }
        }
    }

    // ---- End-to-end: assets × hints ----
    let dir = fixtures();
    let mut files: Vec<std::path::PathBuf> = std::fs::read_dir(&dir)
        .map(|d| d.filter_map(|e| e.ok()).map(|e| e.path()).filter(|p| p.is_file()).collect())
        .unwrap_or_default();
    files.sort();
    let max_size = if run.thorough() { 5_000_000 } else { 3_000_000 };
    let mut assets: Vec<Asset> = vec![];
    let mut undetected: Vec<Asset> = vec![];
    let mut signed_by_fmt: BTreeMap<&'static str, Vec<u8>> = BTreeMap::new();
    let sign_into = |run: &mut Run, assets: &mut Vec<Asset>, name: String, fmt: &'static str, src: &[u8], forced: bool| -> Option<Vec<u8>> {
        match guarded(|| vh::sign::sign_asset(fmt, src, None)) {
            Ok(Ok(signed)) => {
                assets.push(Asset { name, data: signed.clone(), forced, truth: Some(fmt) });
                Some(signed)
            }
            Ok(Err(e)) => {
                run.notes.push(format!("could not sign {name}: {e:?}"));
                None
            }
            Err(p) => {
                run.notes.push(format!("panic signing {name}: {p}"));
                None
            }
        }
    };
    // one freshly signed asset per writable family
    for (fmt, name) in vh::sign::unsigned_sources() {
        if let Ok(src) = std::fs::read(dir.join(name)) {
            if src.len() > max_size {
                continue;
            }
            if let Some(s) = sign_into(run, &mut assets, format!("signed:{name}"), fmt, &src, false) {
                signed_by_fmt.insert(fmt, s);
            }
        }
    }
    // every TIFF magic: classic / BigTIFF × little / big endian — signed when the handler can, and
    // always also unsigned (error results must not depend on the hint either)
    for (be, big) in [(false, false), (true, false), (false, true), (true, true)] {
        let src = tiny_tiff(be, big);
        let name = format!("tiny-{}tiff-{}", if big { "big" } else { "" }, if be { "be" } else { "le" });
        sign_into(run, &mut assets, format!("signed:{name}"), "image/tiff", &src, true);
        assets.push(Asset { name: format!("unsigned:{name}"), data: src, forced: true, truth: Some("image/tiff") });
    }
    // other rule alternatives that no signed asset starts with
    if let Some(g) = signed_by_fmt.get("image/gif") {
        let mut g87 = g.clone();
        if g87.len() > 6 && &g87[0..6] == b"GIF89a" {
            g87[4] = b'7';
            assets.push(Asset { name: "signed-gif-as-87a".to_string(), data: g87, forced: true, truth: Some("image/gif") });
        }
    }
    if let Ok(m) = std::fs::read(dir.join("sample1.mp3")) {
        // strip a leading ID3 tag: the stream then starts with the MPEG frame sync
        if m.len() > 10 && &m[0..3] == b"ID3" {
            let sz = ((m[6] as usize & 0x7f) << 21) | ((m[7] as usize & 0x7f) << 14) | ((m[8] as usize & 0x7f) << 7) | (m[9] as usize & 0x7f);
            if m.len() > 10 + sz + 2 {
                assets.push(Asset { name: "mp3-without-id3".to_string(), data: m[10 + sz..].to_vec(), forced: true, truth: Some("audio/mpeg") });
            }
        }
    }
    if let Ok(f) = std::fs::read(dir.join("sample1.flac")) {
        assets.push(Asset { name: "unsigned:sample1.flac".to_string(), data: f, forced: true, truth: Some("audio/flac") });
    }
    if pdf {
        for name in ["basic-signed.pdf", "express-signed.pdf", "basic.pdf"] {
            if let Ok(p) = std::fs::read(dir.join(name)) {
                if p.len() <= max_size {
                    assets.push(Asset { name: name.to_string(), data: p, forced: true, truth: Some("application/pdf") });
                    break;
                }
            }
        }
    }
    // update manifests on top of signed assets (validation then also uses the format string to
    // locate the manifest store in the asset)
    for fmt in ["image/jpeg", "image/png", "image/tiff", "audio/wav", "video/mp4"] {
        if !run.thorough() && !matches!(fmt, "image/jpeg" | "image/tiff") {
            continue;
        }
        if let Some(s) = signed_by_fmt.get(fmt) {
            match guarded(|| add_update(fmt, s)) {
                Ok(Ok(u)) => assets.push(Asset { name: format!("update:{fmt}"), data: u, forced: true, truth: Some(fmt) }),
                Ok(Err(e)) => run.notes.push(format!("could not add an update manifest to {fmt}: {e:?}")),
                Err(p) => run.notes.push(format!("panic adding an update manifest to {fmt}: {p}")),
            }
        }
    }
    // damaged signed assets: truncated / one content bit flipped (sniffing prefix kept)
    {
        let keys: Vec<&'static str> = signed_by_fmt.keys().copied().collect();
        let n_damaged = if run.thorough() { 24 } else { 6 };
        for i in 0..n_damaged {
            let fmt = keys[i % keys.len().max(1)];
            let s = &signed_by_fmt[fmt];
            if s.len() < 64 {
                continue;
            }
            let mut d = s.clone();
            if rng.chance(1, 2) {
                let cut = rng.range(16, d.len() as u64 - 1) as usize;
                d.truncate(cut);
                assets.push(Asset { name: format!("truncated@{cut}:{fmt}"), data: d, forced: true, truth: Some(fmt) });
            } else {
                let pos = rng.range(16, d.len() as u64 - 1) as usize;
                d[pos] ^= 1 << rng.below(8);
                assets.push(Asset { name: format!("bitflip@{pos}:{fmt}"), data: d, forced: true, truth: Some(fmt) });
            }
        }
    }
    for f in files {
        if let Ok(d) = std::fs::read(&f) {
            assets.push(Asset { name: f.file_name().unwrap().to_string_lossy().to_string(), data: d, forced: false, truth: None });
        }
    }

    // hint sets
    let fam_rep: Vec<String> = {
        let mut hs = vec![];
        let mut fams = BTreeSet::new();
        for (k, v) in &map {
            if fams.insert(v.clone()) {
                hs.push(k.clone());
            }
        }
        hs
    };
    let same_family = |d: &str| -> Vec<String> { map.iter().filter(|(_, v)| v == d).map(|(k, _)| k.clone()).collect() };

    let mut seen_containers: BTreeMap<String, u32> = Default::default();
    let mut seen_variants: BTreeSet<&'static str> = BTreeSet::new();
    let per_container = if run.thorough() { 6 } else { 3 };
    let mut e2e = 0u64;
    let mut baselines_err = 0u64;
    let mut asset_log: Vec<String> = vec![];
    for a in assets {
        if a.data.len() > max_size {
            continue;
        }
        let detected = match hook::container_from_stream(&mut Cursor::new(a.data.clone())) {
            Some(d) => d,
            None => {
                // An asset the harness produced itself as format F and whose leading bytes carry a
                // well-known signature (judged by the harness' own table `magic_variant`, not by
                // the code under test) must still read like F under every hint.
                match (a.truth, magic_variant(&a.data)) {
                    (Some(t), v) if v != "none" => match hook::container_from_format(t) {
                        Some(c) => {
                            run.count("e2e_known_signature_not_sniffed");
                            c
                        }
                        None => {
                            undetected.push(a);
                            continue;
                        }
                    },
                    _ => {
                        undetected.push(a);
                        continue;
                    }
                }
            }
        };
        let cnt = seen_containers.entry(detected.to_string()).or_insert(0);
        if !a.forced {
            if *cnt >= per_container {
                continue;
            }
            *cnt += 1;
        }
        let (name, data) = (a.name, a.data);
        let baseline = report_of(detected, &data);
        let is_ok = baseline.starts_with("ok:");
        if !is_ok {
            // error results are compared by class: they must not depend on the hint either
            baselines_err += 1;
            if !a.forced && !run.thorough() {
                // quick tier: unsigned fixtures are represented by the forced ones
                *seen_containers.get_mut(detected).unwrap() -= 1;
                continue;
            }
        }
        seen_variants.insert(magic_variant(&data));
        run.count(&format!("e2e_asset_{}", if is_ok { "report" } else { "error" }));
        // every registered format string (strings of the detected family are kept verbatim by the
        // reconciliation, so they are what the rest of the reader sees) + unknown + case /
        // white-space variants
        let hints: Vec<String> = {
            let mut hs = formats.clone();
            hs.push("application/unknown".to_string());
            hs.push("".to_string());
            hs.push(format!(" {}\n", same_family(detected).last().cloned().unwrap_or_default().to_uppercase()));
            for _ in 0..(if run.thorough() { 12 } else { 4 }) {
                let b = rng.pick(&formats).clone();
                hs.push(vary(rng, b));
            }
            hs.sort();
            hs.dedup();
            hs
        };
        asset_log.push(format!("{name}[{}]={}", magic_variant(&data), &baseline[..baseline.find(':').map(|i| (i + 8).min(baseline.len())).unwrap_or(baseline.len()).min(24)]));
        for (hi, h) in hints.iter().enumerate() {
            let rep = report_of(h, &data);
            e2e += 1;
            let same = rep == baseline;
            run.count(if same { "e2e_same" } else { "e2e_diff" });
            if !same {
                let idx = run.reqs.len().saturating_sub(1);
                run.fail(idx, "report-depends-on-hint", format!("asset {name} (container {detected}) hint {h:?}: {} vs baseline {}", &rep[..rep.len().min(160)], &baseline[..baseline.len().min(160)]));
            } else {
                run.nontrivial(format!("e2e {name} {h}"));
            }
            // the async entry point must reconcile the hint in the same way
            // (quick tier: async for every second hint, alternating with the asset)
            if run.thorough() || (hi + asset_log.len()) % 2 == 0 {
                let rep_a = report_of_async(h, &data);
                e2e += 1;
                let same_a = rep_a == baseline;
                run.count(if same_a { "e2e_async_same" } else { "e2e_async_diff" });
                if !same_a {
                    let idx = run.reqs.len().saturating_sub(1);
                    run.fail(idx, "report-depends-on-hint", format!("asset {name} (container {detected}) hint {h:?} through with_stream_async: {} vs baseline {}", &rep_a[..rep_a.len().min(160)], &baseline[..baseline.len().min(160)]));
                } else {
                    run.nontrivial(format!("e2e-async {name} {h}"));
                }
            }
        }
    }

    // ---- End-to-end: streams whose bytes identify no container — only here the hint matters ----
    undetected.push(Asset { name: "text".to_string(), data: b"plain text, no container at all\n".to_vec(), forced: true, truth: None });
    undetected.push(Asset { name: "one-byte".to_string(), data: vec![0xff], forced: true, truth: None });
    undetected.push(Asset { name: "empty".to_string(), data: vec![], forced: true, truth: None });
    let mut hint_mattered = 0u64;
    let mut und_seen = 0;
    for a in undetected {
        if a.data.len() > max_size || (!a.forced && und_seen >= if run.thorough() { 12 } else { 4 }) {
            continue;
        }
        und_seen += 1;
        run.count("e2e_undetected_asset");
        let mut hs: Vec<String> = if run.thorough() { formats.clone() } else { fam_rep.clone() };
        for k in ["svg", "image/svg+xml", "c2pa", "application/c2pa", " SVG ", "application/unknown", ""] {
            hs.push(k.to_string());
        }
        hs.sort();
        hs.dedup();
        let mut results = BTreeSet::new();
        for h in hs {
            let rep = report_of(&h, &a.data);
            e2e += 1;
            // the hint is what is used: unknown string -> unsupported; known string -> exactly
            // what its own family's canonical id gives
            let want = match hook::container_from_format(&h) {
                None => "err:UnsupportedType".to_string(),
                Some(c) => report_of(c, &a.data),
            };
            run.count(if rep == want { "e2e_undetected_same" } else { "e2e_undetected_diff" });
            if rep != want {
                let idx = run.reqs.len().saturating_sub(1);
                run.fail(idx, "undetected-hint-not-used", format!("asset {} (no container detected) hint {h:?}: {} but the hint's family gives {}", a.name, &rep[..rep.len().min(160)], &want[..want.len().min(160)]));
            }
            results.insert(rep[..rep.len().min(40)].to_string());
        }
        if results.len() > 1 {
            hint_mattered += 1;
            run.nontrivial(format!("e2e-undetected {} hint matters", a.name));
        }
    }

    run.notes.push(format!(
        "end-to-end reads: {e2e}; assets per container (quota-counted): {seen_containers:?}; assets with an error baseline: {baselines_err}; rule alternatives read end-to-end: {seen_variants:?}; undetected assets on which the hint changed the result: {hint_mattered}"
    ));
    run.obligations.insert("e2e:report-independent-of-hint".to_string(), !run.oracle.iter().any(|o| o.class == "report-depends-on-hint"));
    run.notes.push(format!("end-to-end assets [rule alternative] = baseline: {}", asset_log.join("; ")));
    let missing: Vec<&str> = VARIANTS.iter().copied().filter(|v| !seen_variants.contains(v) && (*v != "pdf" || pdf)).collect();
    if !missing.is_empty() {
        run.notes.push(format!("rule alternatives with no end-to-end asset: {missing:?}"));
    }
    run.obligations.insert("e2e:every-sniffing-rule-alternative-read".to_string(), missing.is_empty());
    run.obligations.insert("e2e:hint-matters-on-some-undetected-stream".to_string(), hint_mattered > 0);
}
