//! C12 — see src/embed_common.rs / src/embed_oracle.rs (shared by C07, C08, C09, C12) and
//! lean/C2paModel/Model/C07.lean for the request protocol.
use vh::common::main_with;

fn main() {
    main_with("C12", |run, rng| vh::embed_oracle::run_prop(run, rng, "C12"));
}
