//! C37 — revocation evidence is bound to the signing certificate.
//!
//! A local CA / OCSP responder driven through the `openssl` CLI produces responses with known
//! content (good / revoked with reason none, keyCompromise, removeFromCRL / unknown; for the signing
//! certificate or another one; signed by a delegated responder of the issuing CA, by the CA itself,
//! by a responder of an untrusted CA, by a responder of another trusted CA; corrupted signature,
//! no embedded certificates, garbage; short validity window). A second family is re-issued from
//! an openssl response with hand-made `SingleResponse`s under the delegated responder's signature
//! (`ocsp_forge.rs`): `certId`s that match the signer in the serial number and exactly one of the
//! two issuer hashes (a second CA with the same subject name but another key; a CA with the same key
//! but another name), stale `good` responses (nextUpdate in the past), `good` for a certificate that
//! another response reports revoked, several `SingleResponse`s, GeneralizedTime values with
//! fractional seconds (which `from_der_checked` fails to re-parse). The facts of every artefact are
//! sent to the Lean model; the implementation is driven at three levels:
//!
//!   C37 fdc resp=<resp> st=<t|-> now=<t>        `OcspResponse::from_der_checked` (hook)
//!                                               -> certs|nocerts log=<entries>
//!   C37 cos staple=<resp/flags|-> asserted=<…;…|-> st= now=
//!        `crypto::cose::check_ocsp_status` (public) on a harness-built COSE_Sign1
//!                                               -> ok|err log=<entries>
//!   C37 e2e staple=… st= now= rest=<entries of the same signer without staple>
//!        Builder (direct-COSE signer) + Reader  -> <state> log=<signingCredential.ocsp.* entries>
//!   C37 e2a staple=… asserted=…;… st= now= rest=   the same with a `c2pa.certificate-status`
//!        assertion carrying the asserted responses (store pre-pass + revocation check)
//!
//! Oracle (on the implementation): a response that reports the signing certificate revoked
//! (validly signed by the issuing CA or its delegated responder, effective at the signing time)
//! never leaves the manifest Valid/Trusted; a response that does not concern the signing
//! certificate or is not validly signed leaves result, codes and state exactly as without it.
#[path = "../cose_build.rs"]
mod cose_build;
#[path = "../pki.rs"]
mod pki;
#[path = "../ocsp_forge.rs"]
mod ocsp_forge;

use std::{io::Cursor, sync::Arc};

use c2pa::{
    crypto::cose::{check_ocsp_status, CertificateTrustPolicy, OcspFetchPolicy},
    status_tracker::{LogKind, StatusTracker},
    Builder, Context, Reader, Signer, SigningAlg,
};
use cose_build::Unprotected;
use pki::{Cred, Pki};
use vh::common::{fixtures, guarded, main_with, scratch, Rng, Run};
use vh::sign::definition;

fn main() {
    main_with("C37", run);
}

fn b(x: bool) -> char {
    if x {
        '1'
    } else {
        '0'
    }
}

// ---------------------------------------------------------------- response facts

#[derive(Clone, Debug, PartialEq)]
enum St {
    Good(i64, i64),
    Revoked(i64, char), // n(one) c(removeFromCRL) o(ther)
    Unknown,
    /// a time value with fractional seconds: `g` thisUpdate of a good status, `r` revocationTime
    BadTime(char),
}

/// (subject-name id, key id) of the CA certificates the harness uses as issuers
fn issuer_parts(label: &str) -> (&'static str, &'static str) {
    match label {
        "root-a" => ("a", "ka"),
        "root-a2" => ("a", "ka2"), // same subject name as root-a, another key
        "root-a3" => ("a3", "ka"), // root-a's key under another subject name
        "root-b" => ("b", "kb"),
        "root-c" => ("c", "kc"),
        _ => ("?", "??"),
    }
}

/// The three comparisons of `cert_id_matches_signer` for a SingleResponse about certificate `c`
/// issued by `i`, against the chain [`ee`, `issuer`] (`-`: the chain has no issuer).
fn cert_id_bits(c: &str, i: &str, ee: &str, issuer: &str) -> (bool, bool, bool) {
    if issuer == "-" {
        return (c == ee, false, false);
    }
    let ((n1, k1), (n2, k2)) = (issuer_parts(i), issuer_parts(issuer));
    (c == ee, n1 == n2, k1 == k2)
}

#[derive(Clone, Debug)]
struct RespFacts {
    shape: char, // U undecodable, N no certificates, P parsed
    sig_ok: bool,
    /// (certificate name, issuer name, status) per SingleResponse
    singles: Vec<(String, String, St)>,
    /// who signed: "deleg-a" (delegated by root-a), "root-a" (the CA itself), "resp-b" (untrusted
    /// CA), "resp-c" (another trusted CA)
    responder: String,
}

impl RespFacts {
    fn enc(&self, ee: &str, issuer: &str) -> String {
        let singles: Vec<String> = self
            .singles
            .iter()
            .map(|(c, i, st)| {
                let (sn, nm, ky) = cert_id_bits(c, i, ee, issuer);
                let m = format!("{}{}{}", b(sn), b(nm), b(ky));
                match st {
                    St::Good(a, n) => format!("{m}g{a}~{n}"),
                    St::Revoked(a, r) => format!("{m}r{a}~{r}"),
                    St::Unknown => format!("{m}u"),
                    St::BadTime(_) => format!("{m}x"),
                }
            })
            .collect();
        match self.shape {
            'U' => "U".into(),
            'N' => format!("N:{}", singles.join(",")),
            _ => format!("P{}:{}", b(self.sig_ok), singles.join(",")),
        }
    }

    /// responder facts as the implementation's oracles see them
    fn responder_flags(&self) -> String {
        let (profile, trusted) = match self.responder.as_str() {
            "deleg-a" => (true, true),
            "root-a" => (false, true), // a CA certificate does not pass the end-entity profile
            "resp-b" => (true, false),
            "resp-c" => (true, true),
            _ => (false, false),
        };
        format!("{}{}", b(profile), b(trusted))
    }

    fn enc_rr(&self, ee: &str, issuer: &str) -> String {
        format!("{}/{}", self.enc(ee, issuer), self.responder_flags())
    }

    // ---- ground truth for the oracle (independent of the model)

    /// validly signed by the issuing CA of `issuer` or by its delegated responder
    fn validly_signed(&self, issuer: &str) -> bool {
        self.shape == 'P' && self.sig_ok && issuer == "root-a" && (self.responder == "deleg-a" || self.responder == "root-a")
    }

    /// some `certId` identifies the signing certificate: serial number, issuer name and issuer key
    fn concerns(&self, ee: &str, issuer: &str) -> bool {
        self.singles.iter().any(|(c, i, _)| cert_id_bits(c, i, ee, issuer) == (true, true, true))
    }

    /// the response says: revoked, effective for a signature made at `st` (none: now)
    fn reports_revoked(&self, ee: &str, issuer: &str, st: Option<i64>, now: i64) -> bool {
        let mine: Vec<&St> = self.singles.iter().filter(|(c, i, _)| cert_id_bits(c, i, ee, issuer) == (true, true, true)).map(|x| &x.2).collect();
        if mine.iter().any(|s| matches!(s, St::BadTime(_))) {
            return false; // unreadable: the response as a whole says nothing
        }
        let t = st.unwrap_or(now);
        let revoked = mine.iter().any(|s| matches!(s, St::Revoked(at, r) if *r == 'n' || *at <= t));
        let contradicts = mine.iter().any(|s| match s {
            St::Good(_, n) => st.map(|t| t <= *n).unwrap_or(true),
            St::Revoked(at, r) => *r != 'n' && st.map(|t| t < *at).unwrap_or(false),
            St::Unknown | St::BadTime(_) => false,
        });
        revoked && !contradicts
    }
}

/// Oracle class of a response that must not change the verdict: responses about the signing
/// certificate whose only defect is that a responder of *another trusted CA* signed them get
/// their own class.
fn unbound_class(f: &RespFacts, ee: &str) -> &'static str {
    if f.responder == "resp-c" && f.shape == 'P' && f.sig_ok && f.concerns(ee, "root-a") {
        "other-ca-responder-accepted"
    } else {
        "unbound-changed-verdict"
    }
}

fn flip_last(mut v: Vec<u8>) -> Vec<u8> {
    let n = v.len();
    // the signature BIT STRING precedes the optional certs; flip a byte inside the tbsResponseData
    // instead (any byte of the producedAt digits) so that the signature no longer verifies
    if let Some(p) = (0..n.saturating_sub(17)).find(|&i| v[i] == 0x18 && v[i + 1] == 0x0f && v[i + 16] == b'Z') {
        v[p + 15] = if v[p + 15] == b'0' { b'1' } else { b'0' };
    }
    v
}

struct Env {
    pki: Arc<Pki>,
    root_a: Cred,
    root_a2: Cred,
    root_a3: Cred,
    root_b: Cred,
    root_c: Cred,
    deleg_a: Cred,
    resp_b: Cred,
    resp_c: Cred,
    tsa: Cred,
    anchors: String,
}

impl Env {
    fn ctp(&self) -> CertificateTrustPolicy {
        let mut ctp = CertificateTrustPolicy::default();
        ctp.add_trust_anchors(self.anchors.as_bytes()).expect("anchors");
        ctp
    }

    fn settings_json(&self) -> String {
        serde_json::json!({
            "verify": {"verify_trust": true, "verify_timestamp_trust": true, "ocsp_fetch": false,
                       "remote_manifest_fetch": false, "verify_after_sign": false},
            "trust": {"trust_anchors": self.anchors}
        })
        .to_string()
    }

    fn responder(&self, name: &str) -> &Cred {
        match name {
            "root-a" => &self.root_a,
            "resp-b" => &self.resp_b,
            "resp-c" => &self.resp_c,
            _ => &self.deleg_a,
        }
    }

    /// One response about `cert` (issued by root-a) from the CA database `index`.
    fn response(&self, cert: &Cred, responder: &str, ndays: Option<u32>, index: &str, kind: &str, no_certs: bool) -> Option<(Vec<u8>, RespFacts)> {
        let extra: Vec<&str> = if no_certs { vec!["-resp_no_certs"] } else { vec![] };
        let der = self.pki.ocsp_response(&self.root_a, cert, self.responder(responder), ndays, index, &extra)?;
        let times = Pki::generalized_times(&der);
        // producedAt, [revocationTime], thisUpdate, [nextUpdate]
        let st = match kind {
            "good" => {
                let this = *times.get(1)?;
                let next = if ndays.is_some() { *times.get(2)? } else { times[0] + 86400 };
                St::Good(this, next)
            }
            "unknown" => St::Unknown,
            r => St::Revoked(*times.get(1)?, r.chars().next().unwrap()),
        };
        let f = RespFacts {
            shape: if no_certs { 'N' } else { 'P' },
            sig_ok: true,
            singles: vec![(cert.name.clone(), "root-a".into(), st)],
            responder: responder.to_string(),
        };
        Some((der, f))
    }

    fn issuer(&self, label: &str) -> &Cred {
        match label {
            "root-a2" => &self.root_a2,
            "root-a3" => &self.root_a3,
            "root-b" => &self.root_b,
            "root-c" => &self.root_c,
            _ => &self.root_a,
        }
    }

    /// `template` (an openssl response signed by `responder`) re-issued with the given
    /// `SingleResponse`s: (certificate, issuing CA the `certId` names, status).
    fn forged(&self, template: &[u8], responder: &str, items: &[(&Cred, &str, St)]) -> Option<(Vec<u8>, RespFacts)> {
        let now = pki::now();
        let mut singles = vec![];
        for (cert, issuer, st) in items {
            let cert_id = ocsp_forge::cert_id(&self.pki, self.issuer(issuer), &self.pki.serial_hex(cert))?;
            let (status, this_update, next_update) = match st {
                St::Good(a, n) => (ocsp_forge::Status::Good, (*a, 0), Some(*n)),
                St::Revoked(at, r) => (ocsp_forge::Status::Revoked(*at, 0, *r), (now, 0), Some(now + 7 * 86400)),
                St::Unknown => (ocsp_forge::Status::Unknown, (now, 0), Some(now + 7 * 86400)),
                St::BadTime('g') => (ocsp_forge::Status::Good, (now - 60, 500_000_000), Some(now + 7 * 86400)),
                St::BadTime(_) => (ocsp_forge::Status::Revoked(now - 60, 500_000_000, 'n'), (now, 0), Some(now + 7 * 86400)),
            };
            singles.push(ocsp_forge::Single { cert_id, status, this_update, next_update });
        }
        let der = ocsp_forge::reissue(&self.pki, template, self.responder(responder), None, &singles)?;
        let f = RespFacts {
            shape: 'P',
            sig_ok: true,
            singles: items.iter().map(|(c, i, st)| (c.name.clone(), i.to_string(), st.clone())).collect(),
            responder: responder.to_string(),
        };
        Some((der, f))
    }
}

fn log_entries(log: &StatusTracker) -> Vec<(char, String)> {
    log.logged_items()
        .iter()
        .filter_map(|i| {
            let c = i.validation_status.as_ref()?.to_string();
            let k = match i.kind {
                LogKind::Success => 's',
                LogKind::Informational => 'i',
                LogKind::Failure => 'f',
            };
            Some((k, c))
        })
        .collect()
}

fn log_str(e: &[(char, String)]) -> String {
    if e.is_empty() {
        "-".into()
    } else {
        e.iter().map(|x| format!("{}:{}", x.0, x.1)).collect::<Vec<_>>().join(",")
    }
}

// ---------------------------------------------------------------- fdc

fn fdc_case(run: &mut Run, der: &[u8], f: &RespFacts, chain: &[Vec<u8>], ee: &str, issuer: &str, st: Option<i64>, tag: &str) {
    let (der2, chain2) = (der.to_vec(), chain.to_vec());
    let now = pki::now();
    let out = guarded(move || {
        let mut log = StatusTracker::default();
        let r = c2pa::verif_hooks::c37::from_der_checked(&der2, &chain2, st, &mut log);
        (r.map(|o| o.ocsp_certs.is_some()), log_entries(&log))
    });
    let req = format!("C37 fdc resp={} st={} now={now}", f.enc(ee, issuer), st.map(|t| t.to_string()).unwrap_or("-".into()));
    run.count(&format!("fdc:{tag}"));
    match out {
        Err(p) => {
            let i = run.case(req, "panic".into());
            run.fail(i, "panic", p);
        }
        Ok((r, entries)) => {
            let rep = match r {
                Ok(c) => format!("{} log={}", if c { "certs" } else { "nocerts" }, log_str(&entries)),
                Err(()) => "err".to_string(),
            };
            let i = run.case(req, rep);
            run.nontrivial(format!("fdc:{tag}:{}:{st:?}", f.enc(ee, issuer)));
            // oracle: nothing is concluded from a response that is not about this certificate or
            // whose signature does not verify
            if (!f.concerns(ee, issuer) || f.shape != 'P' || !f.sig_ok) && !entries.is_empty() {
                run.fail(i, "unbound-changed-verdict", format!("{tag}: entries {entries:?} from a response that is unbound or unsigned"));
            }
            if f.shape == 'P' && f.sig_ok && f.reports_revoked(ee, issuer, st, now) && !entries.iter().any(|e| e.1 == "signingCredential.ocsp.revoked") {
                run.fail(i, "revoked-accepted", format!("{tag}: revoked response for the signing certificate not reported"));
            }
        }
    }
}

// ---------------------------------------------------------------- cos / e2e

fn raw_signer(ee: &Cred, root: &Cred) -> c2pa::BoxedSigner {
    let mut chain = ee.cert_pem();
    chain.extend_from_slice(&root.cert_pem());
    c2pa::create_signer::from_keys(&chain, &ee.key_pem(), SigningAlg::Es256, None).expect("signer")
}

fn token_of_resp(resp: &[u8]) -> Vec<u8> {
    fn hdr(b: &[u8]) -> (usize, usize) {
        let l = b[1];
        if l < 0x80 {
            (2, l as usize)
        } else {
            let n = (l & 0x7f) as usize;
            let mut v = 0usize;
            for i in 0..n {
                v = (v << 8) | b[2 + i] as usize;
            }
            (2 + n, v)
        }
    }
    let (h0, _) = hdr(resp);
    let inner = &resp[h0..];
    let (h1, l1) = hdr(inner);
    inner[h1 + l1..].to_vec()
}

/// A good sigTst2 token over `msg`; returns (token, signing time).
fn good_token(env: &Env, msg: &[u8]) -> Option<(Vec<u8>, i64)> {
    let resp = env.pki.ts_reply(&env.tsa, Some(&env.root_a), "sha256", msg, true, "tsa_acc1")?;
    let tok = token_of_resp(&resp);
    let (_, eff) = pki::token_times(&tok)?;
    Some((tok, eff))
}

struct Staple {
    der: Vec<u8>,
    facts: RespFacts,
}

#[allow(clippy::too_many_arguments)]
fn cos_case(run: &mut Run, env: &Env, ee: &Cred, staple: Option<&Staple>, asserted: &[&Staple], with_ts: bool, tag: &str, rng: &mut Rng) {
    let p = prepare(env, ee, with_ts, rng);
    cos_prepared(run, env, ee, p, staple, asserted, tag)
}

/// A signed (and optionally time-stamped) COSE_Sign1 whose OCSP staple is added later.
struct Prepared {
    s1: coset::CoseSign1,
    payload: Vec<u8>,
    u: Unprotected,
    st: Option<i64>,
}

fn prepare(env: &Env, ee: &Cred, with_ts: bool, rng: &mut Rng) -> Prepared {
    let signer = raw_signer(ee, &env.root_a);
    let plen = rng.range(16, 120) as usize;
    let payload = rng.bytes(plen);
    let certs = vec![ee.cert_der(), env.root_a.cert_der()];
    let (s1, msg) = cose_build::sign_detached(&certs, &payload, &|tbs| signer.sign(tbs).unwrap_or_default());
    let mut u = Unprotected::default();
    let mut st = None;
    if with_ts {
        if let Some((tok, t)) = good_token(env, &msg) {
            u.tst = Some(("sigTst2".into(), vec![tok]));
            st = Some(t);
        }
    }
    Prepared { s1, payload, u, st }
}

/// `check_ocsp_status` (no fetching) on a finished COSE_Sign1.
fn run_cos(env: &Env, cose: Vec<u8>, payload: Vec<u8>, list: Vec<Vec<u8>>) -> Result<Result<(bool, Vec<(char, String)>), String>, String> {
    let js = env.settings_json();
    let ctp = env.ctp();
    guarded(move || {
        let ctx = Context::new().with_settings(js.as_str()).expect("settings");
        let mut log = StatusTracker::default();
        let mut plog = StatusTracker::default();
        let sign1 = c2pa::crypto::cose::parse_cose_sign1(&cose, &payload, &mut plog).map_err(|e| format!("{e:?}"))?;
        let r = check_ocsp_status(
            &sign1,
            &payload,
            OcspFetchPolicy::DoNotFetch,
            &ctp,
            if list.is_empty() { None } else { Some(&list) },
            None,
            &mut log,
            &ctx,
        );
        Ok::<_, String>((r.is_ok(), log_entries(&log)))
    })
}

fn cos_prepared(run: &mut Run, env: &Env, ee: &Cred, p: Prepared, staple: Option<&Staple>, asserted: &[&Staple], tag: &str) {
    let Prepared { s1, payload, mut u, st } = p;
    let bare = cose_build::finish(s1.clone(), &u, 14000);
    if let Some(s) = staple {
        u.ocsp = Some(vec![s.der.clone()]);
    }
    let (Some(cose), Some(bare)) = (cose_build::finish(s1, &u, 14000), bare) else {
        run.notes.push(format!("cos {tag}: pad failed"));
        return;
    };
    let list: Vec<Vec<u8>> = asserted.iter().map(|s| s.der.clone()).collect();
    let now = pki::now();
    let out = run_cos(env, cose, payload.clone(), list.clone());
    let enc = |s: &Staple| s.facts.enc_rr(&ee.name, "root-a");
    let req = format!(
        "C37 cos staple={} asserted={} st={} now={now}",
        staple.map(enc).unwrap_or("-".into()),
        if asserted.is_empty() { "-".to_string() } else { asserted.iter().map(|s| enc(s)).collect::<Vec<_>>().join(";") },
        st.map(|t| t.to_string()).unwrap_or("-".into())
    );
    run.count(&format!("cos:{tag}"));
    match out {
        Err(p) => {
            let i = run.case(req, "panic".into());
            run.fail(i, "panic", p);
        }
        Ok(Err(e)) => {
            let i = run.case(req, "parse-error".into());
            run.fail(i, "harness", e);
        }
        Ok(Ok((ok, entries))) => {
            let i = run.case(req, format!("{} log={}", if ok { "ok" } else { "err" }, log_str(&entries)));
            run.nontrivial(format!("cos:{tag}:{}", ee.name));
            // ---- oracle
            let usable = |s: &&Staple| s.facts.concerns(&ee.name, "root-a") && s.facts.validly_signed("root-a");
            let considered: Vec<&Staple> = staple.into_iter().chain(asserted.iter().copied()).collect();
            // (1) nothing is concluded when every response is unbound or not validly signed
            if considered.iter().all(|s| !usable(s)) && (!ok || !entries.is_empty()) {
                let class = considered.iter().map(|s| unbound_class(&s.facts, &ee.name)).find(|c| *c != "unbound-changed-verdict").unwrap_or("unbound-changed-verdict");
                run.fail(i, class, format!("{tag}: result ok={ok} entries {entries:?} although every response is unbound or not validly signed"));
            }
            // (2) an unbound / unsigned staple leaves the outcome exactly as without it
            if let Some(s) = staple {
                if !usable(&s) && unbound_class(&s.facts, &ee.name) == "unbound-changed-verdict" {
                    if let Ok(Ok((ok0, entries0))) = run_cos(env, bare, payload.clone(), list.clone()) {
                        if ok0 != ok || entries0 != entries {
                            run.fail(i, "unbound-staple-shadows-assertions", format!("{tag}: with the unbound staple ok={ok} {entries:?}; without it ok={ok0} {entries0:?}"));
                        }
                    }
                }
            }
            // (3) a revoked report from the only usable response fails the check
            let usable_ones: Vec<&&Staple> = considered.iter().filter(|s| usable(s)).collect();
            if let [only] = usable_ones.as_slice() {
                if only.facts.reports_revoked(&ee.name, "root-a", st, now) && ok {
                    let class = if only.facts.responder == "root-a" { "revoked-by-ca-ignored" } else { "revoked-accepted" };
                    run.fail(i, class, format!("{tag}: revoked response (responder {}) did not fail the revocation check", only.facts.responder));
                }
            }
            // (4) the statement as it stands ("stapled or asserted"): a usable response that reports
            // revoked fails the check wherever it stands among the sources
            if usable_ones.len() > 1 && ok {
                if let Some(p) = considered.iter().position(|s| usable(s) && s.facts.reports_revoked(&ee.name, "root-a", st, now)) {
                    let shadow = considered[..p].iter().position(|s| usable(s));
                    let class = match shadow {
                        Some(0) if staple.is_some() => "good-staple-shadows-revoked-assertion",
                        Some(_) => "good-assertion-shadows-revoked-assertion",
                        None => "revoked-accepted",
                    };
                    run.fail(i, class, format!("{tag}: ok={ok} {entries:?} although source #{p} reports the signing certificate revoked"));
                }
            }
        }
    }
}

type MkUnprot = Arc<dyn Fn(&[u8]) -> Option<(Unprotected, Option<i64>)> + Send + Sync>;

struct DirectSigner {
    inner: c2pa::BoxedSigner,
    certs: Vec<Vec<u8>>,
    reserve: usize,
    mk: MkUnprot,
    st: Arc<std::sync::Mutex<Option<i64>>>,
}

impl Signer for DirectSigner {
    fn sign(&self, data: &[u8]) -> c2pa::Result<Vec<u8>> {
        let inner = &self.inner;
        let (s1, msg) = cose_build::sign_detached(&self.certs, data, &|tbs| inner.sign(tbs).unwrap_or_default());
        let (u, st) = (self.mk)(&msg).ok_or(c2pa::Error::BadParam("header".into()))?;
        *self.st.lock().unwrap() = st;
        cose_build::finish(s1, &u, self.reserve).ok_or(c2pa::Error::BadParam("pad".into()))
    }

    fn alg(&self) -> SigningAlg {
        SigningAlg::Es256
    }

    fn certs(&self) -> c2pa::Result<Vec<Vec<u8>>> {
        Ok(self.certs.clone())
    }

    fn reserve_size(&self) -> usize {
        self.reserve
    }

    fn direct_cose_handling(&self) -> bool {
        true
    }
}

/// The SDK's `CertificateStatus` (crate-private) writes and reads `ocspVals` as base64 text: the
/// CBOR (de)serialiser it uses reports itself as human-readable.
#[derive(serde::Serialize)]
struct CertStatus {
    #[serde(rename = "ocspVals")]
    ocsp_vals: Vec<String>,
}

fn b64(data: &[u8]) -> String {
    const T: &[u8; 64] = b"ABCDEFGHIJKLMNOPQRSTUVWXYZabcdefghijklmnopqrstuvwxyz0123456789+/";
    let mut out = String::new();
    for c in data.chunks(3) {
        let n = (c[0] as u32) << 16 | (*c.get(1).unwrap_or(&0) as u32) << 8 | *c.get(2).unwrap_or(&0) as u32;
        out.push(T[(n >> 18) as usize & 63] as char);
        out.push(T[(n >> 12) as usize & 63] as char);
        out.push(if c.len() > 1 { T[(n >> 6) as usize & 63] as char } else { '=' });
        out.push(if c.len() > 2 { T[n as usize & 63] as char } else { '=' });
    }
    out
}

fn sign_e2e(env: &Arc<Env>, ee: &Cred, staple: Option<Vec<u8>>, with_ts: bool, src: &[u8]) -> Result<(Vec<u8>, Option<i64>), String> {
    sign_e2e_asserted(env, ee, staple, &[], with_ts, src)
}

fn sign_e2e_asserted(env: &Arc<Env>, ee: &Cred, staple: Option<Vec<u8>>, asserted: &[Vec<u8>], with_ts: bool, src: &[u8]) -> Result<(Vec<u8>, Option<i64>), String> {
    let st = Arc::new(std::sync::Mutex::new(None));
    let env2 = env.clone();
    let mk: MkUnprot = Arc::new(move |msg: &[u8]| {
        let mut u = Unprotected::default();
        let mut t = None;
        if with_ts {
            let (tok, tt) = good_token(&env2, msg)?;
            u.tst = Some(("sigTst2".into(), vec![tok]));
            t = Some(tt);
        }
        if let Some(s) = &staple {
            u.ocsp = Some(vec![s.clone()]);
        }
        Some((u, t))
    });
    let signer = DirectSigner {
        inner: raw_signer(ee, &env.root_a),
        certs: vec![ee.cert_der(), env.root_a.cert_der()],
        reserve: 16000,
        mk,
        st: st.clone(),
    };
    let ctx = Context::new().with_settings(env.settings_json().as_str()).map_err(|e| format!("{e:?}"))?.with_signer(signer);
    let mut bld = Builder::from_context(ctx).with_definition(definition("c37", "image/jpeg").as_str()).map_err(|e| format!("{e:?}"))?;
    if !asserted.is_empty() {
        let cs = CertStatus { ocsp_vals: asserted.iter().map(|d| b64(d)).collect() };
        bld.add_assertion("c2pa.certificate-status", &cs).map_err(|e| format!("{e:?}"))?;
    }
    let mut out = Cursor::new(Vec::new());
    bld.save_to_stream("image/jpeg", &mut Cursor::new(src.to_vec()), &mut out).map_err(|e| format!("{e:?}"))?;
    let t = *st.lock().unwrap();
    Ok((out.into_inner(), t))
}

type ReadOut = Result<(String, Vec<(char, String)>), String>;

fn read(env: &Env, asset: &[u8]) -> Result<ReadOut, String> {
    let (asset, js) = (asset.to_vec(), env.settings_json());
    guarded(move || {
        let ctx = Context::new().with_settings(js.as_str()).expect("settings");
        let r = Reader::from_context(ctx).with_stream("image/jpeg", Cursor::new(asset)).map_err(|e| format!("{e:?}"))?;
        let state = format!("{:?}", r.validation_state()).to_lowercase();
        let mut entries = vec![];
        if let Some(a) = r.validation_results().and_then(|v| v.active_manifest()) {
            for (k, l) in [('s', a.success()), ('i', a.informational()), ('f', a.failure())] {
                for st in l {
                    entries.push((k, st.code().to_string()));
                }
            }
        }
        Ok((state, entries))
    })
}

fn is_ocsp(c: &str) -> bool {
    c.starts_with("signingCredential.ocsp.")
}

#[allow(clippy::too_many_arguments)]
fn e2e_case(run: &mut Run, env: &Arc<Env>, ee: &Cred, staple: &Staple, with_ts: bool, src: &[u8], baseline: &(String, Vec<(char, String)>), tag: &str) {
    run.count(&format!("e2e:{tag}"));
    let signed = guarded({
        let (env, ee, der, src) = (env.clone(), ee.clone(), staple.der.clone(), src.to_vec());
        move || sign_e2e(&env, &ee, Some(der), with_ts, &src)
    });
    let (asset, st) = match signed {
        Ok(Ok(x)) => x,
        other => {
            run.notes.push(format!("e2e {tag}: signing failed: {:?}", other.map(|r| r.map(|_| ()).err())));
            return;
        }
    };
    let now = pki::now();
    let out = read(env, &asset);
    // `rest`: what the same signer yields without a staple (time-stamp codes differ only in presence,
    // so they are taken from this read when a time-stamp is present)
    let req_rest: Vec<(char, String)> = baseline.1.iter().filter(|e| !is_ocsp(&e.1)).cloned().collect();
    let mk_req = |rest: &[(char, String)]| {
        format!(
            "C37 e2e staple={} st={} now={now} rest={}",
            staple.facts.enc_rr(&ee.name, "root-a"),
            st.map(|t| t.to_string()).unwrap_or("-".into()),
            log_str(rest)
        )
    };
    match out {
        Err(p) => {
            let i = run.case(mk_req(&req_rest), "panic".into());
            run.fail(i, "panic", p);
        }
        Ok(Err(e)) => {
            let cls: String = e.chars().take_while(|c| c.is_ascii_alphanumeric()).collect();
            let rep = if cls == "CertificateTrustError" { "read-error".to_string() } else { format!("read-error:{cls}") };
            let i = run.case(mk_req(&req_rest), rep);
            run.nontrivial(format!("e2e:{tag}"));
            // a read error is not a Valid/Trusted report; unbound responses must not cause it
            if !staple.facts.concerns(&ee.name, "root-a") || !staple.facts.validly_signed("root-a") {
                run.fail(i, unbound_class(&staple.facts, &ee.name), format!("{tag}: read failed ({cls}) because of an unbound / unsigned response"));
            }
        }
        Ok(Ok((state, entries))) => {
            // with a time-stamp the baseline lacks the timeStamp.* successes: add them to `rest`
            let mut rest = req_rest.clone();
            if with_ts {
                for e in entries.iter().filter(|e| e.1.starts_with("timeStamp.")) {
                    rest.insert(0, e.clone());
                }
            }
            let ocsp: Vec<(char, String)> = entries.iter().filter(|e| is_ocsp(&e.1)).cloned().collect();
            let i = run.case(mk_req(&rest), format!("{state} log={}", log_str(&ocsp)));
            run.nontrivial(format!("e2e:{tag}"));
            let unbound = !staple.facts.concerns(&ee.name, "root-a") || !staple.facts.validly_signed("root-a");
            if unbound {
                let non_ts = |v: &[(char, String)]| {
                    let mut x: Vec<(char, String)> = v.iter().filter(|e| !e.1.starts_with("timeStamp.")).cloned().collect();
                    x.sort();
                    x
                };
                if state != baseline.0 || non_ts(&entries) != non_ts(&baseline.1) {
                    run.fail(i, unbound_class(&staple.facts, &ee.name), format!("{tag}: state {state} / codes differ from the same signer without the response (baseline {})", baseline.0));
                }
            }
            if staple.facts.validly_signed("root-a") && staple.facts.reports_revoked(&ee.name, "root-a", st, now) && state != "invalid" {
                let class = if staple.facts.responder == "root-a" { "revoked-by-ca-ignored" } else { "revoked-accepted" };
                run.fail(i, class, format!("{tag}: state {state} although the stapled response (responder {}) reports the signing certificate revoked", staple.facts.responder));
            }
        }
    }
}

/// Builder + Reader with a certificate-status assertion carrying `asserted` (and optionally a staple).
#[allow(clippy::too_many_arguments)]
fn e2a_case(run: &mut Run, env: &Arc<Env>, ee: &Cred, staple: Option<&Staple>, asserted: &[&Staple], src: &[u8], baseline: &(String, Vec<(char, String)>), tag: &str) {
    run.count(&format!("e2a:{tag}"));
    let signed = guarded({
        let (env, ee, der, list, src) = (env.clone(), ee.clone(), staple.map(|s| s.der.clone()), asserted.iter().map(|s| s.der.clone()).collect::<Vec<_>>(), src.to_vec());
        move || sign_e2e_asserted(&env, &ee, der, &list, false, &src)
    });
    let (asset, st) = match signed {
        Ok(Ok(x)) => x,
        other => {
            run.notes.push(format!("e2a {tag}: signing failed: {:?}", other.map(|r| r.map(|_| ()).err())));
            return;
        }
    };
    let now = pki::now();
    let out = read(env, &asset);
    let enc = |s: &Staple| s.facts.enc_rr(&ee.name, "root-a");
    // `rest`: the entries of the same signer without any revocation evidence (+ the assertion's hashed-URI match)
    let rest: Vec<(char, String)> = baseline.1.iter().filter(|e| !is_ocsp(&e.1)).cloned().collect();
    let req = format!(
        "C37 e2a staple={} asserted={} st={} now={now} rest={}",
        staple.map(enc).unwrap_or("-".into()),
        if asserted.is_empty() { "-".to_string() } else { asserted.iter().map(|s| enc(s)).collect::<Vec<_>>().join(";") },
        st.map(|t| t.to_string()).unwrap_or("-".into()),
        log_str(&rest)
    );
    let usable = |s: &&Staple| s.facts.concerns(&ee.name, "root-a") && s.facts.validly_signed("root-a");
    let considered: Vec<&Staple> = staple.into_iter().chain(asserted.iter().copied()).collect();
    let all_unbound = considered.iter().all(|s| !usable(s));
    let class_unbound = considered.iter().map(|s| unbound_class(&s.facts, &ee.name)).find(|c| *c != "unbound-changed-verdict").unwrap_or("unbound-assertion-changed-verdict");
    let revoked_reported = considered.iter().any(|s| usable(s) && s.facts.reports_revoked(&ee.name, "root-a", st, now));
    match out {
        Err(p) => {
            let i = run.case(req, "panic".into());
            run.fail(i, "panic", p);
        }
        Ok(Err(e)) => {
            let cls: String = e.chars().take_while(|c| c.is_ascii_alphanumeric()).collect();
            let rep = if cls == "CertificateTrustError" { "read-error".to_string() } else { format!("read-error:{cls}") };
            let i = run.case(req, rep);
            run.nontrivial(format!("e2a:{tag}"));
            if all_unbound {
                run.fail(i, class_unbound, format!("{tag}: read failed ({cls}) although every response is unbound or not validly signed"));
            }
        }
        Ok(Ok((state, entries))) => {
            let ocsp: Vec<(char, String)> = entries.iter().filter(|e| is_ocsp(&e.1)).cloned().collect();
            let i = run.case(req, format!("{state} log={}", log_str(&ocsp)));
            run.nontrivial(format!("e2a:{tag}"));
            if all_unbound && (state != baseline.0 || !ocsp.is_empty()) {
                run.fail(i, class_unbound, format!("{tag}: state {state} (baseline {}), revocation entries {ocsp:?} although every response is unbound or not validly signed", baseline.0));
            }
            if revoked_reported && state != "invalid" {
                let p = considered.iter().position(|s| usable(s) && s.facts.reports_revoked(&ee.name, "root-a", st, now)).unwrap_or(0);
                let shadow = considered[..p].iter().position(|s| usable(s));
                let class = match shadow {
                    Some(0) if staple.is_some() => "good-staple-shadows-revoked-assertion",
                    Some(_) => "good-assertion-shadows-revoked-assertion",
                    None if considered[p].facts.responder == "root-a" => "revoked-by-ca-ignored",
                    None => "revoked-accepted",
                };
                run.fail(i, class, format!("{tag}: state {state} although an asserted / stapled response reports the signing certificate revoked"));
            }
        }
    }
}

pub fn run(run: &mut Run, rng: &mut Rng) {
    run.rule = "every case carries a real OCSP response produced by openssl ocsp (or a corrupted one); non-trivial = the case reaches from_der_checked; distinct by (level, response facts, chain, signing time)".to_string();
    let thorough = run.thorough();
    let dir = scratch("c37");
    let pki = Arc::new(Pki::new(&dir));
    let t0 = pki::now();
    let day = 86400;
    let root_a = pki.root("root-a");
    // a second CA with root-a's subject name but its own key, and root-a's key under another name
    let root_a2 = pki.root_as("root-a2", "root-a", None);
    let root_a3 = pki.root_as("root-a3", "root-a-renamed", Some(&root_a));
    let root_b = pki.root("root-b");
    let root_c = pki.root("root-c");
    let mut anchors = String::from_utf8(root_a.cert_pem()).unwrap();
    anchors.push_str(&String::from_utf8(root_c.cert_pem()).unwrap());
    let env = Arc::new(Env {
        deleg_a: pki.issue(&root_a, "deleg-a", "v3_ocsp", t0 - day, t0 + 30 * day),
        resp_b: pki.issue(&root_b, "resp-b", "v3_ocsp", t0 - day, t0 + 30 * day),
        resp_c: pki.issue(&root_c, "resp-c", "v3_ocsp", t0 - day, t0 + 30 * day),
        tsa: pki.issue(&root_a, "tsa", "v3_tsa", t0 - day, t0 + 30 * day),
        anchors,
        pki: pki.clone(),
        root_a: root_a.clone(),
        root_a2,
        root_a3,
        root_b,
        root_c,
    });
    let mk_ee = |n: &str| pki.issue(&root_a, n, "v3_sign", t0 - day, t0 + 30 * day);
    let ee_good = mk_ee("ee-good");
    let ee_rev_o = mk_ee("ee-rev-o");
    let ee_rev_n = mk_ee("ee-rev-n");
    let ee_rev_c = mk_ee("ee-rev-c");
    let ee_unk = mk_ee("ee-unk");
    let ee_late = mk_ee("ee-late"); // revoked only after the time-stamped signatures below are made
    let src = std::fs::read(fixtures().join("IMG_0003.jpg")).expect("fixture");

    // signatures by ee-late, time-stamped *before* its revocation (the staple is added afterwards)
    let late_prepared: Vec<Prepared> = (0..2).map(|_| prepare(&env, &ee_late, true, rng)).collect();
    while late_prepared.iter().any(|p| p.st.map(|t| t >= pki::now()).unwrap_or(false)) {
        std::thread::sleep(std::time::Duration::from_millis(200));
    }
    std::thread::sleep(std::time::Duration::from_millis(1100));
    pki.revoke(&root_a, &ee_rev_o, Some("keyCompromise"));
    pki.revoke(&root_a, &ee_rev_n, None);
    pki.revoke(&root_a, &ee_rev_c, Some("removeFromCRL"));
    pki.revoke(&root_a, &ee_late, Some("keyCompromise"));

    // responses
    let mut staples: Vec<(String, Cred, Staple)> = vec![]; // (tag, certificate the response is about, staple)
    let mut add = |tag: &str, cert: &Cred, r: Option<(Vec<u8>, RespFacts)>, notes: &mut Vec<String>| match r {
        Some((der, facts)) => staples.push((tag.to_string(), cert.clone(), Staple { der, facts })),
        None => notes.push(format!("response {tag}: generation failed")),
    };
    for responder in ["deleg-a", "root-a", "resp-b", "resp-c"] {
        add(&format!("good/{responder}"), &ee_good, env.response(&ee_good, responder, Some(7), "index.txt", "good", false), &mut run.notes);
        add(&format!("revoked-o/{responder}"), &ee_rev_o, env.response(&ee_rev_o, responder, Some(7), "index.txt", "o", false), &mut run.notes);
    }
    add("revoked-n/deleg-a", &ee_rev_n, env.response(&ee_rev_n, "deleg-a", Some(7), "index.txt", "n", false), &mut run.notes);
    add("revoked-c/deleg-a", &ee_rev_c, env.response(&ee_rev_c, "deleg-a", Some(7), "index.txt", "c", false), &mut run.notes);
    add("revoked-late/deleg-a", &ee_late, env.response(&ee_late, "deleg-a", Some(7), "index.txt", "o", false), &mut run.notes);
    add("unknown/deleg-a", &ee_unk, env.response(&ee_unk, "deleg-a", Some(7), "empty.txt", "unknown", false), &mut run.notes);
    add("good-nonext/deleg-a", &ee_good, env.response(&ee_good, "deleg-a", None, "index.txt", "good", false), &mut run.notes);
    add("good-nocerts/deleg-a", &ee_good, env.response(&ee_good, "deleg-a", Some(7), "index.txt", "good", true), &mut run.notes);
    add("revoked-nocerts/deleg-a", &ee_rev_o, env.response(&ee_rev_o, "deleg-a", Some(7), "index.txt", "o", true), &mut run.notes);
    // corrupted copies
    let base: Vec<(String, Cred, Vec<u8>, RespFacts)> = staples.iter().filter(|s| s.0 == "good/deleg-a" || s.0 == "revoked-o/deleg-a").map(|s| (s.0.clone(), s.1.clone(), s.2.der.clone(), s.2.facts.clone())).collect();
    for (tag, cert, der, facts) in base {
        let mut f = facts.clone();
        f.sig_ok = false;
        staples.push((format!("{tag}+flipsig"), cert.clone(), Staple { der: flip_last(der.clone()), facts: f }));
        let mut f = facts.clone();
        f.shape = 'U';
        let mut d = der.clone();
        d.truncate(der.len() / 2);
        staples.push((format!("{tag}+truncated"), cert.clone(), Staple { der: d, facts: f }));
    }
    {
        let f = RespFacts { shape: 'U', sig_ok: false, singles: vec![], responder: "none".into() };
        let n = rng.range(1, 300) as usize;
        staples.push(("garbage".into(), ee_good.clone(), Staple { der: rng.bytes(n), facts: f }));
    }

    // re-issued responses (hand-made SingleResponses under deleg-a's signature)
    let tf = pki::now();
    if let Some(template) = staples.iter().find(|s| s.0 == "good/deleg-a").map(|s| s.2.der.clone()) {
        let fresh = St::Good(tf - 3600, tf + 7 * day);
        let stale = St::Good(tf - 10 * day, tf - 3 * day);
        let rev = |r: char| St::Revoked(tf - 7200, r);
        let forged: Vec<(&str, &Cred, Vec<(&Cred, &str, St)>)> = vec![
            // sanity: the forge itself yields usable responses
            ("forged-good", &ee_good, vec![(&ee_good, "root-a", fresh.clone())]),
            ("forged-revoked-n", &ee_good, vec![(&ee_good, "root-a", rev('n'))]),
            // same serial number, exactly one of the two issuer hashes
            ("samename-revoked", &ee_good, vec![(&ee_good, "root-a2", rev('n'))]),
            ("samekey-revoked", &ee_good, vec![(&ee_good, "root-a3", rev('n'))]),
            ("samename-revoked-o", &ee_good, vec![(&ee_good, "root-a2", rev('o'))]),
            ("samekey-revoked-c", &ee_good, vec![(&ee_good, "root-a3", rev('c'))]),
            ("samename-good", &ee_rev_o, vec![(&ee_rev_o, "root-a2", fresh.clone())]),
            ("samekey-good", &ee_rev_o, vec![(&ee_rev_o, "root-a3", fresh.clone())]),
            ("samename-unknown", &ee_good, vec![(&ee_good, "root-a2", St::Unknown)]),
            ("otherca-revoked", &ee_good, vec![(&ee_good, "root-b", rev('n'))]),
            // `good` for a certificate that the CA reports revoked (as issued before the revocation)
            ("good-for-revoked", &ee_rev_o, vec![(&ee_rev_o, "root-a", fresh.clone())]),
            // stale: nextUpdate three days ago
            ("stale-good", &ee_good, vec![(&ee_good, "root-a", stale.clone())]),
            ("stale-good-for-revoked", &ee_rev_o, vec![(&ee_rev_o, "root-a", stale.clone())]),
            // several SingleResponses
            ("multi:other+revoked", &ee_rev_o, vec![(&ee_good, "root-a", fresh.clone()), (&ee_rev_o, "root-a", rev('o'))]),
            ("multi:samekey-good+revoked", &ee_rev_o, vec![(&ee_rev_o, "root-a3", fresh.clone()), (&ee_rev_o, "root-a", rev('n'))]),
            ("multi:revoked+good", &ee_rev_o, vec![(&ee_rev_o, "root-a", rev('n')), (&ee_rev_o, "root-a", fresh.clone())]),
            ("multi:unknown+revoked", &ee_rev_o, vec![(&ee_rev_o, "root-a", St::Unknown), (&ee_rev_o, "root-a", rev('c'))]),
            // time values `from_der_checked` cannot re-parse
            ("badtime-good", &ee_good, vec![(&ee_good, "root-a", St::BadTime('g'))]),
            ("badtime-revoked", &ee_rev_o, vec![(&ee_rev_o, "root-a", St::BadTime('r'))]),
            ("multi:revoked+badtime", &ee_rev_o, vec![(&ee_rev_o, "root-a", rev('n')), (&ee_rev_o, "root-a", St::BadTime('r'))]),
            ("multi:badtime-other+revoked", &ee_rev_o, vec![(&ee_good, "root-a", St::BadTime('r')), (&ee_rev_o, "root-a", rev('n'))]),
        ];
        for (tag, cert, items) in forged {
            match env.forged(&template, "deleg-a", &items) {
                Some((der, facts)) => staples.push((tag.to_string(), (*cert).clone(), Staple { der, facts })),
                None => run.notes.push(format!("response {tag}: re-issuing failed")),
            }
        }
    } else {
        run.notes.push("no template for re-issued responses".into());
    }
    run.obligations.insert("re-issued responses present".into(), staples.iter().any(|s| s.0 == "samekey-revoked") && staples.iter().any(|s| s.0 == "samename-good"));

    // --- fdc
    let chain_of = |ee: &Cred, issuer: &Cred| vec![ee.cert_der(), issuer.cert_der()];
    let t_now = pki::now();
    for (tag, cert, s) in &staples {
        let times: Vec<Option<i64>> = {
            let mut v = vec![None, Some(t_now - 3600), Some(t_now + 2 * day), Some(t_now + 30 * day)];
            for (_, _, st) in &s.facts.singles {
                match st {
                    St::Good(a, n) => v.extend([Some(*a - 1), Some(*a), Some(*n), Some(*n + 1)]),
                    St::Revoked(a, _) => v.extend([Some(*a - 1), Some(*a), Some(*a + 1)]),
                    St::Unknown | St::BadTime(_) => {}
                }
            }
            v
        };
        for st in &times {
            // the certificate the response is about, another certificate, a wrong issuer, no issuer
            fdc_case(run, &s.der, &s.facts, &chain_of(cert, &root_a), &cert.name, "root-a", *st, tag);
            if thorough || st.is_none() {
                let other = if cert.name == "ee-good" { &ee_rev_o } else { &ee_good };
                fdc_case(run, &s.der, &s.facts, &chain_of(other, &root_a), &other.name, "root-a", *st, &format!("{tag}/other-cert"));
                fdc_case(run, &s.der, &s.facts, &chain_of(cert, &env.root_b), &cert.name, "root-b", *st, &format!("{tag}/wrong-issuer"));
                // the chain names a CA that shares only the subject name / only the key with the response's issuer
                fdc_case(run, &s.der, &s.facts, &chain_of(cert, &env.root_a2), &cert.name, "root-a2", *st, &format!("{tag}/issuer-samename"));
                fdc_case(run, &s.der, &s.facts, &chain_of(cert, &env.root_a3), &cert.name, "root-a3", *st, &format!("{tag}/issuer-samekey"));
                fdc_case(run, &s.der, &s.facts, &[cert.cert_der()], &cert.name, "-", *st, &format!("{tag}/no-issuer"));
            }
        }
    }

    // --- cos
    let find = |t: &str| staples.iter().find(|s| s.0 == t).map(|s| &s.2);
    for (tag, cert, s) in &staples {
        for with_ts in [false, true] {
            if !thorough && with_ts && !(tag.starts_with("good") || tag.starts_with("revoked") || tag.starts_with("stale") || tag.starts_with("same")) {
                continue;
            }
            if tag.starts_with("stale-good") && !with_ts {
                run.count("witness:stale-good-clears-without-time");
            }
            cos_case(run, &env, cert, Some(s), &[], with_ts, &format!("{tag}/ts{}", b(with_ts)), rng);
            // stapled into a manifest signed by another certificate
            let other = if cert.name == "ee-good" { &ee_rev_o } else { &ee_good };
            cos_case(run, &env, other, Some(s), &[], with_ts, &format!("{tag}/other-signer/ts{}", b(with_ts)), rng);
        }
    }
    // no staple; certificate-status assertion responses in order
    if let (Some(g), Some(r), Some(gb), Some(rb), Some(u)) = (find("good/deleg-a"), find("revoked-o/deleg-a"), find("good/resp-b"), find("revoked-o/resp-b"), find("unknown/deleg-a")) {
        let lists: Vec<(&str, &Cred, Vec<&Staple>)> = vec![
            ("none", &ee_good, vec![]),
            ("list:good", &ee_good, vec![g]),
            ("list:revoked", &ee_rev_o, vec![r]),
            ("list:other-then-revoked", &ee_rev_o, vec![g, r]),
            ("list:untrusted-good-then-revoked", &ee_rev_o, vec![gb, r]),
            ("list:revoked-for-other-then-good", &ee_good, vec![r, g]),
            ("list:untrusted-revoked-then-good", &ee_good, vec![rb, g]),
            ("list:unknown-then-good", &ee_good, vec![u, g]),
            ("list:untrusted-revoked-only", &ee_good, vec![rb]),
        ];
        let mut lists = lists;
        let f = |t: &str| find(t);
        if let (Some(sng), Some(skg), Some(snr), Some(skr), Some(gfr), Some(sgfr), Some(bt)) = (f("samename-good"), f("samekey-good"), f("samename-revoked"), f("samekey-revoked"), f("good-for-revoked"), f("stale-good-for-revoked"), f("badtime-revoked")) {
            lists.extend(vec![
                // one matching issuer hash must not vouch for / condemn the signer
                ("list:samename-good-then-revoked", &ee_rev_o, vec![sng, r]),
                ("list:samekey-good-then-revoked", &ee_rev_o, vec![skg, r]),
                ("list:samename-revoked-then-good", &ee_good, vec![snr, g]),
                ("list:samekey-revoked-then-good", &ee_good, vec![skr, g]),
                ("list:samekey-revoked-only", &ee_good, vec![skr]),
                // an unreadable response is skipped
                ("list:badtime-then-revoked", &ee_rev_o, vec![bt, r]),
                // the statement's "or asserted" clause, falsified: an earlier `good` wins
                ("shadow:good-assertion-then-revoked", &ee_rev_o, vec![gfr, r]),
                ("shadow:stale-good-assertion-then-revoked", &ee_rev_o, vec![sgfr, r]),
            ]);
        }
        for (tag, ee, l) in lists {
            if tag.starts_with("shadow:") {
                run.count("witness:asserted-revoked-never-valid-false");
            }
            cos_case(run, &env, ee, None, &l, false, tag, rng);
            // a stapled response takes precedence over the list
            if !l.is_empty() {
                cos_case(run, &env, ee, Some(gb), &l, false, &format!("{tag}+untrusted-staple"), rng);
            }
        }
        // a good (even stale) *staple* shadows a revoked asserted response; with a time-stamp
        // after nextUpdate the stale staple is itself filed under "revoked"
        for (tag, with_ts) in [("good-for-revoked", false), ("good-for-revoked", true), ("stale-good-for-revoked", false), ("stale-good-for-revoked", true)] {
            if let Some(s) = find(tag) {
                run.count("witness:asserted-revoked-never-valid-false");
                cos_case(run, &env, &ee_rev_o, Some(s), &[r], with_ts, &format!("shadow:{tag}-staple+revoked-assertion/ts{}", b(with_ts)), rng);
            }
        }
        // a staple with one matching issuer hash in front of the list
        for tag in ["samekey-good", "samename-good"] {
            if let Some(s) = find(tag) {
                cos_case(run, &env, &ee_rev_o, Some(s), &[r], false, &format!("{tag}-staple+revoked-assertion"), rng);
            }
        }
    }

    // --- e2e
    let mut baselines: std::collections::BTreeMap<String, (String, Vec<(char, String)>)> = Default::default();
    for ee in [&ee_good, &ee_rev_o, &ee_rev_n, &ee_rev_c, &ee_unk, &ee_late] {
        let signed = guarded({
            let (env, ee, src) = (env.clone(), ee.clone(), src.clone());
            move || sign_e2e(&env, &ee, None, false, &src)
        });
        if let Ok(Ok((asset, _))) = signed {
            if let Ok(Ok(o)) = read(&env, &asset) {
                baselines.insert(ee.name.clone(), o);
            }
        }
    }
    for (tag, cert, s) in &staples {
        let quick_set = ["good/deleg-a", "revoked-o/deleg-a", "revoked-o/root-a", "revoked-o/resp-b", "revoked-o/resp-c", "revoked-n/deleg-a", "revoked-c/deleg-a", "unknown/deleg-a", "revoked-o/deleg-a+flipsig", "revoked-nocerts/deleg-a", "garbage", "good/resp-c", "samename-revoked", "samekey-revoked", "samename-good", "samekey-good", "stale-good", "badtime-revoked", "forged-revoked-n"];
        if !thorough && !quick_set.contains(&tag.as_str()) {
            continue;
        }
        for with_ts in [false, true] {
            if !thorough && with_ts && !matches!(tag.as_str(), "good/deleg-a" | "revoked-o/deleg-a") {
                continue;
            }
            if let Some(bl) = baselines.get(&cert.name) {
                e2e_case(run, &env, cert, s, with_ts, &src, bl, &format!("{tag}/ts{}", b(with_ts)));
            }
            // revoked response about another certificate stapled into ee-good's manifest and vice versa
            let other = if cert.name == "ee-good" { &ee_rev_o } else { &ee_good };
            if !with_ts {
                if let Some(bl) = baselines.get(&other.name) {
                    e2e_case(run, &env, other, s, false, &src, bl, &format!("{tag}/other-signer"));
                }
            }
        }
    }
    // --- e2a: the same evidence carried in a certificate-status assertion
    {
        let f = |t: &str| find(t);
        let mut cases: Vec<(&str, &Cred, Option<&Staple>, Vec<&Staple>)> = vec![];
        if let (Some(g), Some(r), Some(gb), Some(rb)) = (f("good/deleg-a"), f("revoked-o/deleg-a"), f("good/resp-b"), f("revoked-o/resp-b")) {
            cases.extend(vec![
                ("good", &ee_good, None, vec![g]),
                ("revoked", &ee_rev_o, None, vec![r]),
                ("untrusted-good", &ee_good, None, vec![gb]),
                ("untrusted-revoked", &ee_rev_o, None, vec![rb]),
                ("untrusted-revoked-for-other", &ee_good, None, vec![rb]),
                ("revoked-for-other", &ee_good, None, vec![r]),
                ("untrusted-good-then-revoked", &ee_rev_o, None, vec![gb, r]),
                ("untrusted-revoked-then-good", &ee_good, None, vec![rb, g]),
                ("untrusted-staple+revoked", &ee_rev_o, Some(gb), vec![r]),
            ]);
            if let (Some(skr), Some(snr), Some(skg), Some(fs), Some(gfr), Some(bt), Some(un)) = (f("samekey-revoked"), f("samename-revoked"), f("samekey-good"), f("revoked-o/deleg-a+flipsig"), f("good-for-revoked"), f("badtime-revoked"), f("unknown/deleg-a")) {
                cases.extend(vec![
                    ("samekey-revoked", &ee_good, None, vec![skr]),
                    ("samename-revoked", &ee_good, None, vec![snr]),
                    ("samekey-good-then-revoked", &ee_rev_o, None, vec![skg, r]),
                    ("flipsig-revoked", &ee_rev_o, None, vec![fs]),
                    ("badtime-revoked", &ee_rev_o, None, vec![bt]),
                    ("unknown", &ee_unk, None, vec![un]),
                    ("shadow:good-then-revoked", &ee_rev_o, None, vec![gfr, r]),
                    ("shadow:good-staple+revoked", &ee_rev_o, Some(gfr), vec![r]),
                ]);
            }
        }
        // baseline with an (empty-effect) assertion present is the plain baseline plus one hashed-URI match;
        // take it from a manifest whose assertion holds only garbage
        let garbage = f("garbage");
        for (tag, ee, staple, list) in cases {
            let bl = match (garbage, baselines.get(&ee.name)) {
                (Some(gs), Some(_)) => {
                    let signed = guarded({
                        let (env, ee, src, d) = (env.clone(), (*ee).clone(), src.clone(), gs.der.clone());
                        move || sign_e2e_asserted(&env, &ee, None, &[d], false, &src)
                    });
                    match signed {
                        Ok(Ok((asset, _))) => match read(&env, &asset) {
                            Ok(Ok(x)) => Some(x),
                            other => {
                                run.notes.push(format!("e2a {tag}: baseline read failed: {:?}", other.map(|r| r.map(|_| ()).err())));
                                None
                            }
                        },
                        other => {
                            run.notes.push(format!("e2a {tag}: baseline signing failed: {:?}", other.map(|r| r.map(|_| ()).err())));
                            None
                        }
                    }
                }
                _ => None,
            };
            match bl {
                Some(bl) => e2a_case(run, &env, ee, staple, &list, &src, &bl, tag),
                None => run.notes.push(format!("e2a {tag}: no baseline")),
            }
        }
    }

    // signed and time-stamped before the revocation: the later "revoked" response does not apply;
    // the same response with a signature time-stamped after the revocation does
    if let Some(s) = find("revoked-late/deleg-a") {
        for p in late_prepared {
            cos_prepared(run, &env, &ee_late, p, Some(s), &[], "revoked-late/signed-before");
        }
        cos_case(run, &env, &ee_late, Some(s), &[], true, "revoked-late/signed-after", rng);
        cos_case(run, &env, &ee_late, Some(s), &[], false, "revoked-late/no-time", rng);
    }
    run.obligations.insert("baselines for all signers".into(), baselines.len() == 6);
    let _ = std::fs::remove_dir_all(&dir);
}
