//! C36 — time-stamps are used only when they match the signature.
//!
//! Artefacts with ground truth: a local CA / TSA driven through the `openssl` CLI issues signing
//! certificates (valid, expired, not yet valid, short-lived) and RFC 3161 tokens (right message,
//! other message, other wrapping, corrupted CMS signature, corrupted / re-targeted TSTInfo,
//! broken signer id, garbage, no certificates, trusted / untrusted / expired / not-yet-valid /
//! about-to-expire TSA certificate, SHA-1/224/256/384/512 imprints, accuracy 0 s / 1 s).
//! The facts of every artefact are known by construction and are sent to the Lean model; the
//! implementation is driven at three levels:
//!
//!   C36 vts tok=<token> data=<msg> vt=<0|1>
//!        `crypto::time_stamp::verify_time_stamp` (public)   -> ok <t> | err:<class>  log=<entries>
//!   C36 vc  hdr=<header> ext=<t|-> nb= na= sf=<5 flags> trust= tt= now=
//!        `cose_validator::verify_cose` (hook) on a harness-built COSE_Sign1
//!                                                           -> ok|err used=<t|-> S= I= F=
//!   C36 e2e (same fields)   Builder (direct-COSE signer or SDK signer with a
//!        `send_timestamp_request` override) + Reader        -> <state> shown=<t|-> S= I= F=
//!   C36 ta  hdr=- xt=<tokens|-> xvt=1 now0=<t> (signing fields) now=
//!        a manifest signed (no header time-stamp) with a short-lived certificate becomes an
//!        ingredient of a second manifest that carries a `c2pa.time-stamp` assertion (token over the
//!        raw COSE signature; other message; other wrapping; corrupted; untrusted TSA; unknown
//!        label); read after the certificate expired  -> store S= I= F= delta S= I= F=
//!        (`store`: timeStamp.* entries the store pass logs; `delta`: the ingredient's new entries)
//!
//! `hdr` may list two entries `<first>&<second>` (unprotected-header order): `get_cose_tst_info`
//! takes the first `sigTst2`/`sigTst` it meets.
//!
//! Oracle (on the implementation, independent of the model): an unbound / CMS-invalid token never
//! yields a time, `timeStamp.validated` or `timeStamp.trusted`; a rejected token is reported with a
//! `timeStamp.*` informational code; a signing certificate that is not valid now is accepted only
//! with a bound, valid token whose time lies inside the certificate's validity.
#[path = "../cose_build.rs"]
mod cose_build;
#[path = "../pki.rs"]
mod pki;

use std::{
    io::Cursor,
    sync::{Arc, Mutex},
};

use c2pa::{
    crypto::{cose::CertificateTrustPolicy, time_stamp::verify_time_stamp},
    status_tracker::{LogKind, StatusTracker},
    Builder, Context, Reader, Signer, SigningAlg,
};
use cose_build::Unprotected;
use coset::cbor::value::Value;
use pki::{Cred, Pki};
use sha2::{Digest, Sha256};
use vh::common::{fixtures, guarded, main_with, scratch, Rng, Run};
use vh::sign::definition;

fn main() {
    main_with("C36", run);
}

// ---------------------------------------------------------------- token facts

#[derive(Clone, Debug)]
struct TokFacts {
    shape: char, // U unparsable, N no certificates, P parsed (one signer)
    cert_found: bool,
    sig_ok: bool,
    md_match: bool,
    gen: i64,
    eff: i64, // signed signingTime attribute: the time the code checks and returns
    nb: i64,
    na: i64,
    margin: i64,
    imprint: String,
    alg_known: bool,
    root_trusted: bool,
    /// SignerInfo.digestAlgorithm is one of SHA-1/256/384/512 (the message-digest attribute check)
    digest_known: bool,
    /// the SDK has a CMS signature validator for (TSA key algorithm, SignerInfo digest algorithm)
    alg_supported: bool,
}

/// The (key algorithm, digest algorithm) pairs `c2pa_raw_crypto::validator_for_sig_and_hash_algs`
/// has a validator for, as `verify_time_stamp` calls it (SubjectPublicKeyInfo algorithm of the TSA
/// certificate, SignerInfo.digestAlgorithm). Hard-coded ground truth; `support_table_matches`
/// compares it with the function.
fn sdk_supports(key: &str, md: &str) -> bool {
    match key {
        "ed25519" => true,
        "rsa" => matches!(md, "sha1" | "sha256" | "sha384" | "sha512"),
        "rsa-pss" | "ec" => matches!(md, "sha256" | "sha384" | "sha512"),
        _ => false, // ed448, …
    }
}

fn oid_bytes(name: &str) -> &'static [u8] {
    match name {
        "rsa" => &[0x2a, 0x86, 0x48, 0x86, 0xf7, 0x0d, 0x01, 0x01, 0x01],
        "rsa-pss" => &[0x2a, 0x86, 0x48, 0x86, 0xf7, 0x0d, 0x01, 0x01, 0x0a],
        "ec" => &[0x2a, 0x86, 0x48, 0xce, 0x3d, 0x02, 0x01],
        "ed25519" => &[0x2b, 0x65, 0x70],
        "ed448" => &[0x2b, 0x65, 0x71],
        "sha1" => &[0x2b, 0x0e, 0x03, 0x02, 0x1a],
        "sha224" => &[0x60, 0x86, 0x48, 0x01, 0x65, 0x03, 0x04, 0x02, 0x04],
        "sha256" => &[0x60, 0x86, 0x48, 0x01, 0x65, 0x03, 0x04, 0x02, 0x01],
        "sha384" => &[0x60, 0x86, 0x48, 0x01, 0x65, 0x03, 0x04, 0x02, 0x02],
        "sha512" => &[0x60, 0x86, 0x48, 0x01, 0x65, 0x03, 0x04, 0x02, 0x03],
        "md5" => &[0x2a, 0x86, 0x48, 0x86, 0xf7, 0x0d, 0x02, 0x05],
        _ => &[],
    }
}

fn support_table_matches() -> bool {
    ["rsa", "rsa-pss", "ec", "ed25519", "ed448"].iter().all(|k| {
        ["sha1", "sha224", "sha256", "sha384", "sha512", "md5"].iter().all(|m| {
            let have = c2pa_raw_crypto::validator_for_sig_and_hash_algs(&c2pa_raw_crypto::Oid::new(oid_bytes(k)), &c2pa_raw_crypto::Oid::new(oid_bytes(m))).is_some();
            have == sdk_supports(k, m)
        })
    })
}

fn b(x: bool) -> char {
    if x {
        '1'
    } else {
        '0'
    }
}

impl TokFacts {
    fn profile_ok(&self) -> bool {
        self.nb <= self.eff && self.eff <= self.na
    }

    /// OpenSSL's chain validation treats `notAfter` itself as expired
    fn trusted_at(&self) -> bool {
        self.root_trusted && self.nb <= self.eff && self.eff < self.na
    }

    fn enc(&self) -> String {
        match self.shape {
            'U' => "U".into(),
            'N' => "N".into(),
            _ => {
                // certFound,tstOk,signedAttrs,digestAlgKnown,hasContent,encodable,sigOk,
                // imprintAlgKnown,chainParses,profileOk,trusted
                let flags: String = [
                    self.cert_found,
                    true,
                    true,
                    self.digest_known,
                    true,
                    true,
                    self.sig_ok,
                    self.alg_known,
                    true,
                    self.profile_ok(),
                    self.trusted_at(),
                    self.alg_supported,
                ]
                .iter()
                .map(|x| b(*x))
                .collect();
                let md = if self.md_match { "t" } else { "f" };
                let plog = if self.profile_ok() { "-" } else { "signingCredential.expired" };
                format!(
                    "P:{flags}/{}/{}/{md}/{}/{}/{}/{}/{plog}",
                    self.gen, self.eff, self.nb, self.na, self.margin, self.imprint
                )
            }
        }
    }

    /// ground truth of the statement's condition: imprint covers `msg` and the CMS signature
    /// (over signed attributes that bind the TSTInfo) verifies
    fn bound(&self, msg: &str) -> bool {
        self.shape == 'P' && self.cert_found && self.sig_ok && self.alg_supported && self.digest_known && self.md_match && self.alg_known && self.imprint == msg
    }

    fn in_window(&self) -> bool {
        self.eff >= self.nb - self.margin && self.eff <= self.na + self.margin
    }

    fn valid(&self, msg: &str, vt: bool) -> bool {
        self.bound(msg) && self.in_window() && (!vt || (self.profile_ok() && self.trusted_at()))
    }
}

#[derive(Clone, Copy, PartialEq, Debug)]
enum Mutn {
    None,
    FlipSig,
    FlipContent,
    SwapImprint,
    FlipSid,
    Garbage,
    Truncate,
}

#[derive(Clone)]
struct Spec {
    tsa: Cred,
    chain: Cred,
    root_trusted: bool,
    md: &'static str,
    acc: i64,
    with_certs: bool,
    mutn: Mutn,
    /// (TSA key kind, SignerInfo digest) when not the default EC P-256 / SHA-256
    sig: Option<(&'static str, &'static str)>,
}

fn find_all(h: &[u8], n: &[u8]) -> Vec<usize> {
    if n.is_empty() || h.len() < n.len() {
        return vec![];
    }
    (0..=h.len() - n.len()).filter(|&i| &h[i..i + n.len()] == n).collect()
}

/// TimeStampToken (ContentInfo) out of a TimeStampResp: skip the outer SEQUENCE header and the
/// PKIStatusInfo element.
fn token_of_resp(resp: &[u8]) -> Vec<u8> {
    fn hdr(b: &[u8]) -> (usize, usize) {
        let l = b[1];
        if l < 0x80 {
            (2, l as usize)
        } else {
            let n = (l & 0x7f) as usize;
            let mut v = 0usize;
            for i in 0..n {
                v = (v << 8) | b[2 + i] as usize;
            }
            (2 + n, v)
        }
    }
    let (h0, _) = hdr(resp);
    let inner = &resp[h0..];
    let (h1, l1) = hdr(inner);
    inner[h1 + l1..].to_vec()
}

/// Re-wrap a (possibly edited) token as a granted TimeStampResp.
fn resp_of_token(tok: &[u8]) -> Vec<u8> {
    let status = [0x30u8, 0x03, 0x02, 0x01, 0x00];
    let n = status.len() + tok.len();
    let mut out = vec![0x30];
    if n < 0x80 {
        out.push(n as u8);
    } else if n < 0x100 {
        out.extend([0x81, n as u8]);
    } else {
        out.extend([0x82, (n >> 8) as u8, n as u8]);
    }
    out.extend(status);
    out.extend(tok);
    out
}

/// Build one token with known facts. `covered`/`covered_id` is what the TSA is asked to stamp;
/// `target` (SwapImprint only) is the message whose SHA-256 digest is spliced in afterwards.
fn make_token(
    pki: &Pki,
    spec: &Spec,
    covered: &[u8],
    covered_id: &str,
    target: Option<(&[u8], &str)>,
    rng: &mut Rng,
) -> Option<(Vec<u8>, TokFacts)> {
    if spec.mutn == Mutn::Garbage {
        let n = rng.range(1, 400) as usize;
        let f = TokFacts {
            shape: 'U', cert_found: false, sig_ok: false, md_match: false, gen: 0, eff: 0, nb: 0, na: 0,
            margin: 0, imprint: "ro0".into(), alg_known: false, root_trusted: false, digest_known: true, alg_supported: true,
        };
        return Some((rng.bytes(n), f));
    }
    let sd_section;
    let section = match spec.sig {
        Some((_, md)) => {
            sd_section = format!("tsa_sd_{md}");
            sd_section.as_str()
        }
        None if spec.acc == 1 => "tsa_acc1",
        None => "tsa_acc0",
    };
    let resp = pki.ts_reply(&spec.tsa, Some(&spec.chain), spec.md, covered, spec.with_certs, section)?;
    let mut tok = token_of_resp(&resp);
    // ground truth for the times: read back from the DER openssl produced
    let (gen, eff) = pki::token_times(&tok)?;
    let mut f = TokFacts {
        shape: if spec.with_certs { 'P' } else { 'N' },
        cert_found: true,
        sig_ok: true,
        md_match: true,
        gen,
        eff,
        nb: spec.tsa.not_before,
        na: spec.tsa.not_after,
        margin: spec.acc,
        imprint: covered_id.to_string(),
        alg_known: spec.md != "sha224",
        root_trusted: spec.root_trusted,
        digest_known: spec.sig.map(|(_, md)| matches!(md, "sha1" | "sha256" | "sha384" | "sha512")).unwrap_or(true),
        alg_supported: spec.sig.map(|(k, md)| sdk_supports(k, md)).unwrap_or(true),
    };
    match spec.mutn {
        Mutn::None | Mutn::Garbage => {}
        Mutn::FlipSig => {
            let n = tok.len();
            tok[n - 1] ^= 0x01;
            f.sig_ok = false;
        }
        Mutn::FlipContent => {
            let d = Sha256::digest(covered).to_vec();
            let pos = find_all(&tok, &d);
            let p = *pos.first()?;
            tok[p] ^= 0x80;
            f.md_match = false;
            f.imprint = "ro999999".into();
        }
        Mutn::SwapImprint => {
            let (tb, tid) = target?;
            let d = Sha256::digest(covered).to_vec();
            let nd = Sha256::digest(tb).to_vec();
            let pos = find_all(&tok, &d);
            let p = *pos.first()?;
            tok[p..p + 32].copy_from_slice(&nd);
            f.md_match = false;
            f.imprint = tid.to_string();
        }
        Mutn::FlipSid => {
            let ser = pki.serial_der(&spec.tsa);
            let pos = find_all(&tok, &ser);
            if pos.len() < 2 {
                return None;
            }
            let p = pos[1] + ser.len() - 1;
            tok[p] ^= 0x40;
            f.cert_found = false;
        }
        Mutn::Truncate => {
            let n = tok.len() / 2;
            tok.truncate(n);
            f.shape = 'U';
        }
    }
    Some((tok, f))
}

// ---------------------------------------------------------------- environment

struct Env {
    pki: Arc<Pki>,
    root_a: Cred,
    root_b: Cred,
    tsa_good: Cred,
    tsa_untrusted: Cred,
    tsa_expired: Cred,
    tsa_future: Cred,
    anchors: String,
}

impl Env {
    fn spec(&self, which: &str) -> Spec {
        let (tsa, chain, tr) = match which {
            "untrusted" => (&self.tsa_untrusted, &self.root_b, false),
            "expired" => (&self.tsa_expired, &self.root_a, true),
            "future" => (&self.tsa_future, &self.root_a, true),
            _ => (&self.tsa_good, &self.root_a, true),
        };
        Spec { tsa: tsa.clone(), chain: chain.clone(), root_trusted: tr, md: "sha256", acc: 1, with_certs: true, mutn: Mutn::None, sig: None }
    }

    fn ctp(&self) -> CertificateTrustPolicy {
        let mut ctp = CertificateTrustPolicy::default();
        ctp.add_trust_anchors(self.anchors.as_bytes()).expect("anchors");
        ctp
    }

    fn settings_json(&self, trust: bool, tt: bool) -> String {
        serde_json::json!({
            "verify": {"verify_trust": trust, "verify_timestamp_trust": tt, "ocsp_fetch": false,
                       "remote_manifest_fetch": false, "verify_after_sign": false},
            "trust": {"trust_anchors": self.anchors}
        })
        .to_string()
    }
}

fn other_msg(k: u64) -> (Vec<u8>, String) {
    (format!("verif-other-message-{k}").into_bytes(), format!("ro{k}"))
}

fn log_entries(log: &StatusTracker) -> Vec<(char, String)> {
    log.logged_items()
        .iter()
        .filter_map(|i| {
            let c = i.validation_status.as_ref()?.to_string();
            let k = match i.kind {
                LogKind::Success => 's',
                LogKind::Informational => 'i',
                LogKind::Failure => 'f',
            };
            Some((k, c))
        })
        .collect()
}

fn classes(entries: &[(char, String)]) -> String {
    let pick = |k: char| {
        let mut v: Vec<&str> = entries.iter().filter(|e| e.0 == k).map(|e| e.1.as_str()).collect();
        v.sort();
        if v.is_empty() {
            "-".to_string()
        } else {
            v.join(",")
        }
    };
    format!("S={} I={} F={}", pick('s'), pick('i'), pick('f'))
}

fn relevant(code: &str) -> bool {
    code.starts_with("timeStamp.") || code.starts_with("signingCredential.") || code.starts_with("claimSignature.")
}

const TS_INFO: [&str; 4] = ["timeStamp.mismatch", "timeStamp.malformed", "timeStamp.outsideValidity", "timeStamp.untrusted"];

fn has(entries: &[(char, String)], k: char, code: &str) -> bool {
    entries.iter().any(|e| e.0 == k && e.1 == code)
}

// ---------------------------------------------------------------- vts

fn vts_case(run: &mut Run, env: &Env, tok: &[u8], f: &TokFacts, data: &[u8], data_id: &str, vt: bool, tag: &str) {
    let ctp = env.ctp();
    let tokv = tok.to_vec();
    let datav = data.to_vec();
    let res = guarded(move || {
        let mut log = StatusTracker::default();
        let r = verify_time_stamp(&tokv, &datav, &ctp, &mut log, vt);
        let r = match r {
            Ok(t) => Ok(c2pa::verif_hooks::c36::tst_time(&t)),
            Err(e) => Err(match e {
                c2pa::crypto::time_stamp::TimeStampError::DecodeError(_) => "decode",
                c2pa::crypto::time_stamp::TimeStampError::InvalidData => "invalidData",
                c2pa::crypto::time_stamp::TimeStampError::Untrusted => "untrusted",
                c2pa::crypto::time_stamp::TimeStampError::ExpiredCertificate => "expiredCertificate",
                c2pa::crypto::time_stamp::TimeStampError::UnsupportedAlgorithm => "unsupportedAlgorithm",
                _ => "other",
            }),
        };
        (r, log_entries(&log))
    });
    let req = format!("C36 vts tok={} data={data_id} vt={}", f.enc(), b(vt));
    run.count(&format!("vts:{tag}"));
    match res {
        Err(p) => {
            let i = run.case(req, "panic".into());
            run.fail(i, "panic", p);
        }
        Ok((r, entries)) => {
            let logs = if entries.is_empty() {
                "-".to_string()
            } else {
                entries.iter().map(|e| format!("{}:{}", e.0, e.1)).collect::<Vec<_>>().join(",")
            };
            let rep = match &r {
                Ok(t) => format!("ok {t} log={logs}"),
                Err(c) => format!("err:{c} log={logs}"),
            };
            let i = run.case(req, rep);
            run.nontrivial(format!("vts:{tag}:{}:{vt}", f.enc()));
            // property oracle
            let bound = f.bound(data_id);
            match r {
                Ok(t) => {
                    if !f.sig_ok || !f.alg_supported {
                        run.fail(i, "ts-signature-unverified-accepted", format!("token whose CMS signature was not verified ({tag}: corrupted={} validator={}) accepted with time {t}", !f.sig_ok, f.alg_supported));
                    }
                    if !bound {
                        run.fail(i, "ts-unbound-accepted", format!("token not bound/CMS-valid ({tag}) accepted with time {t}"));
                    } else if t != f.eff {
                        run.fail(i, "ts-time-wrong", format!("returned {t}, token time {}", f.eff));
                    }
                }
                Err(_) => {
                    if !entries.iter().any(|e| e.0 == 'i' && TS_INFO.contains(&e.1.as_str())) {
                        run.fail(i, "ts-failure-unreported", format!("rejected token ({tag}) without a timeStamp.* informational code"));
                    }
                    if has(&entries, 's', "timeStamp.trusted") {
                        run.fail(i, "ts-unbound-accepted", "timeStamp.trusted logged for a rejected token".into());
                    }
                    if (!f.sig_ok || !f.alg_supported) && has(&entries, 's', "timeStamp.validated") {
                        run.fail(i, "ts-signature-unverified-accepted", format!("timeStamp.validated logged for a token whose CMS signature was not verified ({tag})"));
                    }
                    if !bound && has(&entries, 's', "timeStamp.validated") {
                        run.fail(i, "ts-unbound-accepted", "timeStamp.validated logged for an unbound token".into());
                    }
                }
            }
        }
    }
}

// ---------------------------------------------------------------- COSE level / end to end

/// What to put into the unprotected header; tokens are made once the message is known.
#[derive(Clone)]
enum HdrPlan {
    Absent,
    Raw(bool),                                // header-level garbage under sigTst2 (true) / sigTst
    Toks(bool, Vec<(Spec, Cover)>),           // label v2?, tokens
    Two(Box<HdrPlan>, Box<HdrPlan>),          // two sigTst* entries in this header order
}

#[derive(Clone, Copy, PartialEq, Debug)]
enum Cover {
    Right,        // the message this header kind must cover
    OtherWrap,    // the message the *other* header kind would cover
    RawSig,       // raw signature bytes (what a time-stamp assertion covers)
    Other(u64),
    SwapToRight(u64), // stamped Other(k), imprint rewritten to the right message's digest
}

struct Msgs {
    v2: Vec<u8>,  // countersign(cbor(bstr(sig)))
    v1: Vec<u8>,  // countersign(payload)
    raw: Vec<u8>, // signature
}

fn build_header(env: &Env, plan: &HdrPlan, m: &Msgs, rng: &mut Rng) -> Option<(Unprotected, String, Vec<TokFacts>, bool)> {
    let mut u = Unprotected::default();
    match plan {
        HdrPlan::Absent => Some((u, "-".into(), vec![], true)),
        HdrPlan::Raw(v2) => {
            let label = if *v2 { "sigTst2" } else { "sigTst" };
            u.tst_raw = Some((label.to_string(), Value::Text("not a container".into())));
            Some((u, format!("{}:X", if *v2 { 2 } else { 1 }), vec![], *v2))
        }
        HdrPlan::Toks(v2, specs) => {
            let (right, right_id, wrong, wrong_id) =
                if *v2 { (&m.v2, "cS", &m.v1, "cP") } else { (&m.v1, "cP", &m.v2, "cS") };
            let mut toks = vec![];
            let mut facts = vec![];
            for (spec, cover) in specs {
                let (tok, f) = match cover {
                    Cover::Right => make_token(&env.pki, spec, right, right_id, None, rng)?,
                    Cover::OtherWrap => make_token(&env.pki, spec, wrong, wrong_id, None, rng)?,
                    Cover::RawSig => make_token(&env.pki, spec, &m.raw, "rR", None, rng)?,
                    Cover::Other(k) => {
                        let (ob, oid) = other_msg(*k);
                        make_token(&env.pki, spec, &ob, &oid, None, rng)?
                    }
                    Cover::SwapToRight(k) => {
                        let (ob, oid) = other_msg(*k);
                        let mut s = spec.clone();
                        s.mutn = Mutn::SwapImprint;
                        make_token(&env.pki, &s, &ob, &oid, Some((right.as_slice(), right_id)), rng)?
                    }
                };
                toks.push(tok);
                facts.push(f);
            }
            let label = if *v2 { "sigTst2" } else { "sigTst" };
            u.tst = Some((label.to_string(), toks));
            let enc = format!(
                "{}:T:{}",
                if *v2 { 2 } else { 1 },
                facts.iter().map(|f| f.enc()).collect::<Vec<_>>().join(";")
            );
            Some((u, enc, facts, *v2))
        }
        HdrPlan::Two(a, b) => {
            // the facts / kind that count are those of the first entry (`find_map`)
            let (ua, ea, fa, v2a) = build_header(env, a, m, rng)?;
            let (ub, eb, _, _) = build_header(env, b, m, rng)?;
            let second = match (ub.tst, ub.tst_raw) {
                (Some((label, toks)), _) => (label, cose_build::tst_container(&toks)),
                (None, Some(x)) => x,
                _ => return None,
            };
            u = ua;
            u.tst_second = Some(second);
            Some((u, format!("{ea}&{eb}"), fa, v2a))
        }
    }
}

struct Expect {
    /// ground truth: the time a bound, valid single token gives (for tt / no trust)
    valid_time_tt: Option<i64>,
    valid_time_nt: Option<i64>,
    tokens: usize,
}

fn expectation(facts: &[TokFacts], v2: bool, hdr: &str) -> Expect {
    let right_id = if v2 { "cS" } else { "cP" };
    let single = facts.len() == 1 && !hdr.split('&').next().unwrap_or("").ends_with(":X");
    let vt = |tt: bool| {
        if single && facts[0].valid(right_id, tt) {
            Some(facts[0].eff)
        } else {
            None
        }
    };
    Expect { valid_time_tt: vt(true), valid_time_nt: vt(false), tokens: facts.len() }
}

fn raw_signer(ee: &Cred, root: &Cred) -> c2pa::BoxedSigner {
    let mut chain = ee.cert_pem();
    chain.extend_from_slice(&root.cert_pem());
    c2pa::create_signer::from_keys(&chain, &ee.key_pem(), SigningAlg::Es256, None).expect("signer")
}

fn signing_fields(ee: &Cred, sig_ok: bool, used_gt: Option<i64>) -> String {
    // versionOk, restOk, trustNoTime, trustAtTst, sigOk
    // OpenSSL's chain validation treats `notAfter` itself as expired
    let at = used_gt.map(|t| ee.not_before <= t && t < ee.not_after).unwrap_or(true);
    format!("nb={} na={} sf=11{}{}{}", ee.not_before, ee.not_after, b(true), b(at), b(sig_ok))
}

#[allow(clippy::too_many_arguments)]
fn vc_case(run: &mut Run, env: &Env, ee: &Cred, plan: &HdrPlan, corrupt_sig: bool, ext_tok: bool, trust: bool, tt: bool, tag: &str, rng: &mut Rng) {
    let signer = raw_signer(ee, &env.root_a);
    let plen = rng.range(16, 200) as usize;
    let payload = rng.bytes(plen);
    let certs = vec![ee.cert_der(), env.root_a.cert_der()];
    let (mut s1, _) = cose_build::sign_detached(&certs, &payload, &|tbs| signer.sign(tbs).unwrap_or_default());
    if corrupt_sig {
        let n = s1.signature.len();
        s1.signature[n - 1] ^= 1;
    }
    let prot = cose_build::protected_es256(&certs);
    let m = Msgs {
        v2: cose_build::countersign_message(&cose_build::cbor_bstr(&s1.signature), &prot),
        v1: cose_build::countersign_message(&payload, &prot),
        raw: s1.signature.clone(),
    };
    let Some((u, hdr, facts, v2)) = build_header(env, plan, &m, rng) else {
        run.notes.push(format!("vc {tag}: could not build header"));
        return;
    };
    let Some(cose) = cose_build::finish(s1, &u, 14000) else {
        run.notes.push(format!("vc {tag}: could not pad"));
        return;
    };
    // external time-stamp (as a time-stamp assertion would supply): a good token over the raw signature
    let ctp = env.ctp();
    let mut ext = None;
    let mut ext_t = None;
    if ext_tok {
        let spec = env.spec("good");
        if let Some((tok, f)) = make_token(&env.pki, &spec, &m.raw, "rR", None, rng) {
            let mut l = StatusTracker::default();
            if let Ok(t) = verify_time_stamp(&tok, &m.raw, &ctp, &mut l, true) {
                ext_t = Some(f.eff);
                ext = Some(t);
            }
        }
    }
    let ex = expectation(&facts, v2, &hdr);
    let settings = Context::new().with_settings(env.settings_json(trust, tt).as_str()).expect("settings").settings().clone();
    let mut now1;
    let mut out;
    let mut tries = 0;
    loop {
        now1 = pki::now();
        let (cose2, payload2, ctp2, ext2, settings2) = (cose.clone(), payload.clone(), env.ctp(), ext.clone(), settings.clone());
        out = guarded(move || {
            let mut log = StatusTracker::default();
            let r = c2pa::verif_hooks::c36::verify_cose(&cose2, &payload2, b"", true, &ctp2, ext2.as_ref(), &mut log, &settings2);
            let used = r.as_ref().ok().and_then(|ci| ci.date.map(|d| d.timestamp()));
            (r.is_ok(), used, log_entries(&log))
        });
        let now2 = pki::now();
        let v = |t: i64| ee.not_before <= t && t <= ee.not_after;
        tries += 1;
        if v(now1) == v(now2) || tries > 3 {
            break;
        }
    }
    let gt_used = ext_t.or(if tt { ex.valid_time_tt } else { ex.valid_time_nt });
    let req = format!(
        "C36 vc hdr={hdr} ext={} {} trust={} tt={} now={now1}",
        ext_t.map(|t| t.to_string()).unwrap_or("-".into()),
        signing_fields(ee, !corrupt_sig, gt_used),
        b(trust),
        b(tt)
    );
    run.count(&format!("vc:{tag}"));
    match out {
        Err(p) => {
            let i = run.case(req, "panic".into());
            run.fail(i, "panic", p);
        }
        Ok((ok, used, entries)) => {
            let rep = format!(
                "{} used={} {}",
                if ok { "ok" } else { "err" },
                used.map(|t| t.to_string()).unwrap_or("-".into()),
                classes(&entries)
            );
            let i = run.case(req, rep);
            run.nontrivial(format!("vc:{tag}:{hdr}:{trust}:{tt}:{}", ee.name));
            oracle(run, i, ee, now1, &ex, tt, ext_t, ok.then_some(used).flatten(), &entries, has(&entries, 'f', "signingCredential.expired"), tag);
        }
    }
}

/// The statement, evaluated on what the implementation reported.
#[allow(clippy::too_many_arguments)]
fn oracle(run: &mut Run, i: usize, ee: &Cred, now: i64, ex: &Expect, tt: bool, ext_t: Option<i64>, time_seen: Option<i64>, entries: &[(char, String)], rejected_expired: bool, tag: &str) {
    let gt = if tt { ex.valid_time_tt } else { ex.valid_time_nt };
    if ext_t.is_none() {
        // sentence 1: only a bound, CMS-valid token may give a time or the success codes
        if ex.valid_time_nt.is_none() {
            if let Some(t) = time_seen {
                run.fail(i, "ts-unbound-accepted", format!("{tag}: time {t} taken from a token that is not bound and valid"));
            }
            if has(entries, 's', "timeStamp.trusted") {
                run.fail(i, "ts-unbound-accepted", format!("{tag}: timeStamp.trusted for a token that is not bound and valid"));
            }
        }
        if let (Some(t), Some(g)) = (time_seen, ex.valid_time_nt) {
            if t != g {
                run.fail(i, "ts-time-wrong", format!("{tag}: time {t}, token time {g}"));
            }
        }
        // a rejected token is reported
        if ex.tokens >= 1 && gt.is_none() && !entries.iter().any(|e| e.0 == 'i' && TS_INFO.contains(&e.1.as_str())) {
            run.fail(i, "ts-failure-unreported", format!("{tag}: token rejected without a timeStamp.* informational code"));
        }
    } else if ex.tokens >= 1 && gt.is_none() && !entries.iter().any(|e| e.0 == 'i' && TS_INFO.contains(&e.1.as_str())) {
        // "otherwise a time-stamp failure is reported" — also when a time-stamp assertion supplies the time
        run.fail(i, "hdr-token-unreported-with-assertion-ts", format!("{tag}: header token rejected (not bound / not valid) without a timeStamp.* informational code while a time-stamp assertion supplies the time"));
    }
    // sentence 2
    let valid_now = ee.not_before <= now && now <= ee.not_after;
    if !valid_now && !rejected_expired {
        let t = ext_t.or(gt);
        let justified = t.map(|t| ee.not_before <= t && t <= ee.not_after).unwrap_or(false);
        if !justified {
            run.fail(i, "expired-accepted", format!("{tag}: signing certificate not valid at {now} accepted without a bound, valid time-stamp inside its validity"));
        }
    }
}

/// A token made for one COSE_Sign1 placed into a second one over the *same payload, protected
/// header and signer* (ECDSA is randomised: the two signatures differ). The statement binds a token
/// to "the claim signature it accompanies".
fn transplant_case(run: &mut Run, env: &Env, ee: &Cred, v2: bool, rng: &mut Rng) {
    let tag = format!("transplant/{}", if v2 { "v2" } else { "v1" });
    let signer = raw_signer(ee, &env.root_a);
    let payload = rng.bytes(64);
    let certs = vec![ee.cert_der(), env.root_a.cert_der()];
    let prot = cose_build::protected_es256(&certs);
    let (s1a, _) = cose_build::sign_detached(&certs, &payload, &|tbs| signer.sign(tbs).unwrap_or_default());
    let (s1b, _) = cose_build::sign_detached(&certs, &payload, &|tbs| signer.sign(tbs).unwrap_or_default());
    if s1a.signature == s1b.signature {
        run.notes.push(format!("{tag}: the two signatures coincide; skipped"));
        return;
    }
    let msgs = |s: &coset::CoseSign1| Msgs {
        v2: cose_build::countersign_message(&cose_build::cbor_bstr(&s.signature), &prot),
        v1: cose_build::countersign_message(&payload, &prot),
        raw: s.signature.clone(),
    };
    let (ma, mb) = (msgs(&s1a), msgs(&s1b));
    // the token is made for COSE a …
    let (covered, id_in_b) = if v2 { (&ma.v2, "ro424242".to_string()) } else { (&ma.v1, "cP".to_string()) };
    debug_assert!(v2 || ma.v1 == mb.v1);
    let Some((tok, mut f)) = make_token(&env.pki, &env.spec("good"), covered, &id_in_b, None, rng) else {
        run.notes.push(format!("{tag}: token generation failed"));
        return;
    };
    f.imprint = id_in_b; // what it covers, named from COSE b's point of view
    // … and accompanies COSE b
    let mut u = Unprotected::default();
    u.tst = Some((if v2 { "sigTst2" } else { "sigTst" }.to_string(), vec![tok]));
    let Some(cose) = cose_build::finish(s1b, &u, 14000) else { return };
    let hdr = format!("{}:T:{}", if v2 { 2 } else { 1 }, f.enc());
    let settings = Context::new().with_settings(env.settings_json(true, true).as_str()).expect("settings").settings().clone();
    let now = pki::now();
    let (cose2, payload2, ctp2) = (cose.clone(), payload.clone(), env.ctp());
    let out = guarded(move || {
        let mut log = StatusTracker::default();
        let r = c2pa::verif_hooks::c36::verify_cose(&cose2, &payload2, b"", true, &ctp2, None, &mut log, &settings);
        let used = r.as_ref().ok().and_then(|ci| ci.date.map(|d| d.timestamp()));
        (r.is_ok(), used, log_entries(&log))
    });
    let used_gt = if v2 { None } else { Some(f.eff) };
    let req = format!("C36 vc hdr={hdr} ext=- {} trust=1 tt=1 now={now}", signing_fields(ee, true, used_gt));
    run.count(&format!("vc:{tag}"));
    match out {
        Err(p) => {
            let i = run.case(req, "panic".into());
            run.fail(i, "panic", p);
        }
        Ok((ok, used, entries)) => {
            let i = run.case(req, format!("{} used={} {}", if ok { "ok" } else { "err" }, used.map(|t| t.to_string()).unwrap_or("-".into()), classes(&entries)));
            run.nontrivial(format!("vc:{tag}"));
            if let Some(t) = used {
                let class = if v2 { "ts-unbound-accepted" } else { "v1-token-survives-resigning" };
                run.fail(i, class, format!("{tag}: a token made for another signature over the same claim gives the signing time {t}"));
            }
        }
    }
}

// ---- time-stamp assertions (store pass)

struct TaArt {
    asset: Vec<u8>,
    xt: String,
    facts: Vec<TokFacts>,
    ee: Cred,
    now0: i64,
    tag: String,
}

/// Sign `src` with `ee` (direct COSE, no header time-stamp); returns the asset and the raw COSE signature.
fn sign_plain(env: &Arc<Env>, ee: &Cred, src: &[u8]) -> Result<(Vec<u8>, Vec<u8>), String> {
    let raw: Arc<Mutex<Option<Vec<u8>>>> = Arc::new(Mutex::new(None));
    let raw2 = raw.clone();
    let mk: MkUnprot = Arc::new(move |m: &Msgs| {
        *raw2.lock().unwrap() = Some(m.raw.clone());
        Some(Unprotected::default())
    });
    let ctx = Context::new().with_settings(env.settings_json(true, true).as_str()).map_err(|e| format!("{e:?}"))?.with_signer(DirectSigner {
        inner: raw_signer(ee, &env.root_a),
        certs: vec![ee.cert_der(), env.root_a.cert_der()],
        reserve: 16000,
        mk,
    });
    let mut bld = Builder::from_context(ctx).with_definition(definition("c36-a", "image/jpeg").as_str()).map_err(|e| format!("{e:?}"))?;
    let mut out = Cursor::new(Vec::new());
    bld.save_to_stream("image/jpeg", &mut Cursor::new(src.to_vec()), &mut out).map_err(|e| format!("{e:?}"))?;
    let sig = raw.lock().unwrap().take().ok_or("signature not recorded")?;
    Ok((out.into_inner(), sig))
}

/// Manifest B (signed by `ee_b`) with `asset_a` as a component ingredient and a `c2pa.time-stamp`
/// assertion `{label: token}`.
fn build_with_ts_assertion(env: &Arc<Env>, ee_b: &Cred, asset_a: &[u8], entry: Option<(&str, &[u8])>) -> Result<Vec<u8>, String> {
    let mk: MkUnprot = Arc::new(|_m: &Msgs| Some(Unprotected::default()));
    let ctx = Context::new().with_settings(env.settings_json(true, true).as_str()).map_err(|e| format!("{e:?}"))?.with_signer(DirectSigner {
        inner: raw_signer(ee_b, &env.root_a),
        certs: vec![ee_b.cert_der(), env.root_a.cert_der()],
        reserve: 16000,
        mk,
    });
    let mut bld = Builder::from_context(ctx).with_definition(definition("c36-b", "image/jpeg").as_str()).map_err(|e| format!("{e:?}"))?;
    bld.add_ingredient_from_stream(serde_json::json!({"title": "a.jpg", "relationship": "componentOf"}).to_string(), "image/jpeg", &mut Cursor::new(asset_a.to_vec()))
        .map_err(|e| format!("{e:?}"))?;
    if let Some((label, tok)) = entry {
        let mut ts = c2pa::assertions::TimeStamp::new();
        ts.add_timestamp(label, tok);
        bld.add_assertion(c2pa::assertions::TimeStamp::LABEL, &ts).map_err(|e| format!("{e:?}"))?;
    }
    let mut out = Cursor::new(Vec::new());
    bld.save_to_stream("image/jpeg", &mut Cursor::new(asset_a.to_vec()), &mut out).map_err(|e| format!("{e:?}"))?;
    Ok(out.into_inner())
}

fn read_ta(run: &mut Run, env: &Env, a: &TaArt, trust: bool, tt: bool) {
    let now = pki::now();
    let (asset, js) = (a.asset.clone(), env.settings_json(trust, tt));
    let out = guarded(move || {
        let ctx = Context::new().with_settings(js.as_str()).expect("settings");
        let r = Reader::from_context(ctx).with_stream("image/jpeg", Cursor::new(asset)).map_err(|e| format!("{e:?}"))?;
        let state = format!("{:?}", r.validation_state()).to_lowercase();
        let (mut store, mut delta) = (vec![], vec![]);
        if let Some(v) = r.validation_results() {
            if let Some(am) = v.active_manifest() {
                for (k, l) in [('s', am.success()), ('i', am.informational()), ('f', am.failure())] {
                    for st in l.iter().filter(|s| s.code().starts_with("timeStamp.")) {
                        store.push((k, st.code().to_string()));
                    }
                }
            }
            for d in v.ingredient_deltas().map(|d| d.as_slice()).unwrap_or(&[]) {
                let sc = d.validation_deltas();
                for (k, l) in [('s', sc.success()), ('i', sc.informational()), ('f', sc.failure())] {
                    for st in l.iter().filter(|s| relevant(s.code())) {
                        delta.push((k, st.code().to_string()));
                    }
                }
            }
        }
        Ok::<_, String>((state, store, delta))
    });
    // the assertion token is always checked with the trust part for a v2 claim (`rc.version() != 1`)
    let used_gt = (a.facts.len() == 1 && a.facts[0].valid("rR", true)).then(|| a.facts[0].eff);
    let req = format!(
        "C36 ta hdr=- xt={} xvt=1 now0={} {} trust={} tt={} now={now}",
        a.xt,
        a.now0,
        signing_fields(&a.ee, true, used_gt),
        b(trust),
        b(tt)
    );
    run.count(&format!("ta:{}", a.tag));
    match out {
        Err(p) => {
            let i = run.case(req, "panic".into());
            run.fail(i, "panic", p);
        }
        Ok(Err(e)) => {
            let i = run.case(req, format!("read-error:{}", e.chars().take_while(|c| c.is_ascii_alphanumeric()).collect::<String>()));
            run.fail(i, "read-error", e);
        }
        Ok(Ok((state, store, delta))) => {
            let i = run.case(req, format!("store {} delta {}", classes(&store), classes(&delta)));
            run.nontrivial(format!("ta:{}:{trust}:{tt}", a.tag));
            let valid_now = a.ee.not_before <= now && now <= a.ee.not_after;
            let expired_reported = has(&delta, 'f', "signingCredential.expired");
            // sentence 2: the expired ingredient signature is accepted only with a bound, valid assertion token
            if !valid_now && !expired_reported {
                let justified = used_gt.map(|t| a.ee.not_before <= t && t <= a.ee.not_after).unwrap_or(false);
                if !justified {
                    run.fail(i, "expired-accepted", format!("{}: certificate not valid at {now} accepted without a bound, valid time-stamp (state {state})", a.tag));
                }
            }
            if !valid_now && expired_reported && state != "invalid" {
                run.fail(i, "expired-accepted", format!("{}: signingCredential.expired for the ingredient but state {state}", a.tag));
            }
            // sentence 1: a rejected assertion token is reported, and never as trusted
            if a.facts.len() == 1 && used_gt.is_none() {
                if !store.iter().chain(delta.iter()).any(|e| e.0 == 'i' && TS_INFO.contains(&e.1.as_str())) {
                    run.fail(i, "assertion-ts-failure-unreported", format!("{}: time-stamp assertion token rejected without a timeStamp.* informational code", a.tag));
                }
                if store.iter().chain(delta.iter()).any(|e| e.1 == "timeStamp.trusted") {
                    run.fail(i, "ts-unbound-accepted", format!("{}: timeStamp.trusted for a rejected assertion token", a.tag));
                }
            }
        }
    }
}

// ---- end to end

type MkUnprot = Arc<dyn Fn(&Msgs) -> Option<Unprotected> + Send + Sync>;

struct DirectSigner {
    inner: c2pa::BoxedSigner,
    certs: Vec<Vec<u8>>,
    reserve: usize,
    mk: MkUnprot,
}

impl Signer for DirectSigner {
    fn sign(&self, data: &[u8]) -> c2pa::Result<Vec<u8>> {
        let inner = &self.inner;
        let (s1, _) = cose_build::sign_detached(&self.certs, data, &|tbs| inner.sign(tbs).unwrap_or_default());
        let prot = cose_build::protected_es256(&self.certs);
        let m = Msgs {
            v2: cose_build::countersign_message(&cose_build::cbor_bstr(&s1.signature), &prot),
            v1: cose_build::countersign_message(data, &prot),
            raw: s1.signature.clone(),
        };
        let u = (self.mk)(&m).ok_or(c2pa::Error::BadParam("header".into()))?;
        cose_build::finish(s1, &u, self.reserve).ok_or(c2pa::Error::BadParam("pad".into()))
    }

    fn alg(&self) -> SigningAlg {
        SigningAlg::Es256
    }

    fn certs(&self) -> c2pa::Result<Vec<Vec<u8>>> {
        Ok(self.certs.clone())
    }

    fn reserve_size(&self) -> usize {
        self.reserve
    }

    fn direct_cose_handling(&self) -> bool {
        true
    }
}

/// SDK signing path: the SDK builds the COSE structure and asks this signer for the time-stamp.
struct SdkSigner {
    inner: c2pa::BoxedSigner,
    mk: Arc<dyn Fn(&[u8]) -> Option<Vec<u8>> + Send + Sync>,
}

impl Signer for SdkSigner {
    fn sign(&self, data: &[u8]) -> c2pa::Result<Vec<u8>> {
        self.inner.sign(data)
    }

    fn alg(&self) -> SigningAlg {
        self.inner.alg()
    }

    fn certs(&self) -> c2pa::Result<Vec<Vec<u8>>> {
        self.inner.certs()
    }

    fn reserve_size(&self) -> usize {
        16000
    }

    fn send_timestamp_request(&self, message: &[u8]) -> Option<c2pa::Result<Vec<u8>>> {
        Some((self.mk)(message).ok_or(c2pa::Error::BadParam("tsa".into())))
    }
}

fn parse_rfc3339(s: &str) -> Option<i64> {
    // YYYY-MM-DDTHH:MM:SS(+00:00|Z)
    let n = |a: usize, b: usize| s.get(a..b)?.parse::<i64>().ok();
    let (y, mo, d, h, mi, se) = (n(0, 4)?, n(5, 7)?, n(8, 10)?, n(11, 13)?, n(14, 16)?, n(17, 19)?);
    let y2 = if mo <= 2 { y - 1 } else { y };
    let era = y2.div_euclid(400);
    let yoe = y2.rem_euclid(400);
    let mp = (mo + 9) % 12;
    let doy = (153 * mp + 2) / 5 + d - 1;
    let doe = yoe * 365 + yoe / 4 - yoe / 100 + doy;
    Some((era * 146097 + doe - 719468) * 86400 + h * 3600 + mi * 60 + se)
}

struct Signed {
    asset: Vec<u8>,
    hdr: String,
    facts: Vec<TokFacts>,
    v2: bool,
    ee: Cred,
    tag: String,
}

fn sign_e2e(env: &Arc<Env>, ee: &Cred, plan: &HdrPlan, sdk_path: bool, src: &[u8], seed: u64, tag: &str) -> Result<Signed, String> {
    let rec: Arc<Mutex<Option<(String, Vec<TokFacts>, bool)>>> = Arc::new(Mutex::new(None));
    let ctx = Context::new().with_settings(env.settings_json(true, true).as_str()).map_err(|e| format!("{e:?}"))?;
    let ctx = if sdk_path {
        let HdrPlan::Toks(true, specs) = plan else { return Err("sdk path needs one sigTst2 token".into()) };
        let (spec, cover) = specs[0].clone();
        let (env2, rec2) = (env.clone(), rec.clone());
        let mk = Arc::new(move |message: &[u8]| {
            let mut rng = Rng::new(seed);
            let (tok, f) = match cover {
                Cover::Right => make_token(&env2.pki, &spec, message, "cS", None, &mut rng)?,
                Cover::Other(k) => {
                    let (ob, oid) = other_msg(k);
                    make_token(&env2.pki, &spec, &ob, &oid, None, &mut rng)?
                }
                _ => return None,
            };
            *rec2.lock().unwrap() = Some((format!("2:T:{}", f.enc()), vec![f], true));
            Some(resp_of_token(&tok))
        });
        ctx.with_signer(SdkSigner { inner: raw_signer(ee, &env.root_a), mk })
    } else {
        let (env2, rec2, plan2) = (env.clone(), rec.clone(), plan.clone());
        let mk: MkUnprot = Arc::new(move |m: &Msgs| {
            let mut rng = Rng::new(seed);
            let (u, hdr, facts, v2) = build_header(&env2, &plan2, m, &mut rng)?;
            *rec2.lock().unwrap() = Some((hdr, facts, v2));
            Some(u)
        });
        ctx.with_signer(DirectSigner {
            inner: raw_signer(ee, &env.root_a),
            certs: vec![ee.cert_der(), env.root_a.cert_der()],
            reserve: 16000,
            mk,
        })
    };
    let mut bld = Builder::from_context(ctx).with_definition(definition("c36", "image/jpeg").as_str()).map_err(|e| format!("{e:?}"))?;
    let mut out = Cursor::new(Vec::new());
    bld.save_to_stream("image/jpeg", &mut Cursor::new(src.to_vec()), &mut out).map_err(|e| format!("{e:?}"))?;
    let (hdr, facts, v2) = rec.lock().unwrap().take().ok_or("header not recorded")?;
    Ok(Signed { asset: out.into_inner(), hdr, facts, v2, ee: ee.clone(), tag: tag.to_string() })
}

fn read_e2e(run: &mut Run, env: &Env, s: &Signed, trust: bool, tt: bool) {
    let ex = expectation(&s.facts, s.v2, &s.hdr);
    let mut now1;
    let mut out;
    let mut tries = 0;
    loop {
        now1 = pki::now();
        let (asset, js) = (s.asset.clone(), env.settings_json(trust, tt));
        out = guarded(move || {
            let ctx = Context::new().with_settings(js.as_str()).expect("settings");
            let r = Reader::from_context(ctx).with_stream("image/jpeg", Cursor::new(asset)).map_err(|e| format!("{e:?}"))?;
            let state = format!("{:?}", r.validation_state()).to_lowercase();
            let shown = r.active_manifest().and_then(|m| m.signature_info()).and_then(|i| i.time.clone());
            let mut entries = vec![];
            if let Some(a) = r.validation_results().and_then(|v| v.active_manifest()) {
                for (k, l) in [('s', a.success()), ('i', a.informational()), ('f', a.failure())] {
                    for st in l {
                        entries.push((k, st.code().to_string()));
                    }
                }
            }
            Ok::<_, String>((state, shown, entries))
        });
        let now2 = pki::now();
        let v = |t: i64| s.ee.not_before <= t && t <= s.ee.not_after;
        tries += 1;
        if v(now1) == v(now2) || tries > 3 {
            break;
        }
    }
    let gt_used = if tt { ex.valid_time_tt } else { ex.valid_time_nt };
    let req = format!(
        "C36 e2e hdr={} ext=- {} trust={} tt={} now={now1}",
        s.hdr,
        signing_fields(&s.ee, true, gt_used),
        b(trust),
        b(tt)
    );
    run.count(&format!("e2e:{}", s.tag));
    match out {
        Err(p) => {
            let i = run.case(req, "panic".into());
            run.fail(i, "panic", p);
        }
        Ok(Err(e)) => {
            let i = run.case(req, format!("read-error:{}", e.chars().take_while(|c| c.is_ascii_alphanumeric()).collect::<String>()));
            run.fail(i, "read-error", e);
        }
        Ok(Ok((state, shown, entries))) => {
            // failure codes of unrelated checks (hash bindings, assertions, …) are handed to the model
            // as extra failures: the state depends on them but they are not this property's subject
            let mut unexpected: Vec<String> =
                entries.iter().filter(|e| e.0 == 'f' && !relevant(&e.1)).map(|e| e.1.clone()).collect();
            unexpected.sort();
            unexpected.dedup();
            let mut req = req;
            if !unexpected.is_empty() {
                run.count("e2e:unrelated-failure-codes-present");
                if run.notes.len() < 8 {
                    run.notes.push(format!("e2e {}: unrelated failure codes {unexpected:?}", s.tag));
                }
                req = format!("{req} xf={}", unexpected.join(","));
            }
            let shown_t = shown.as_deref().and_then(parse_rfc3339);
            let rel: Vec<(char, String)> = entries.iter().filter(|e| relevant(&e.1)).cloned().collect();
            let rep = format!("{state} shown={} {}", shown_t.map(|t| t.to_string()).unwrap_or("-".into()), classes(&rel));
            let i = run.case(req, rep);
            run.nontrivial(format!("e2e:{}:{}:{trust}:{tt}", s.tag, s.hdr));
            let accepted = state != "invalid";
            oracle(run, i, &s.ee, now1, &ex, tt, None, shown_t, &rel, !accepted, &s.tag);
        }
    }
}

// ---------------------------------------------------------------- run

pub fn run(run: &mut Run, rng: &mut Rng) {
    run.rule = "every case carries a real RFC 3161 token (or header) produced by openssl ts, or a signing certificate that is not valid at validation time; non-trivial = the case reaches verify_time_stamp or the validity branch of the certificate profile; distinct by (level, artefact kind, token facts, settings)".to_string();
    let thorough = run.thorough();
    let dir = scratch("c36");
    let pki = Arc::new(Pki::new(&dir));
    let t0 = pki::now();
    let root_a = pki.root("root-a");
    let root_b = pki.root("root-b");
    let day = 86400;
    let env = Arc::new(Env {
        tsa_good: pki.issue(&root_a, "tsa-good", "v3_tsa", t0 - day, t0 + 30 * day),
        tsa_untrusted: pki.issue(&root_b, "tsa-untrusted", "v3_tsa", t0 - day, t0 + 30 * day),
        tsa_expired: pki.issue(&root_a, "tsa-expired", "v3_tsa", t0 - 60 * day, t0 - 30 * day),
        tsa_future: pki.issue(&root_a, "tsa-future", "v3_tsa", t0 + day, t0 + 30 * day),
        anchors: String::from_utf8(root_a.cert_pem()).unwrap(),
        pki: pki.clone(),
        root_a: root_a.clone(),
        root_b,
    });
    let ee_valid = pki.issue(&root_a, "signer-valid", "v3_sign", t0 - day, t0 + 30 * day);
    let ee_expired = pki.issue(&root_a, "signer-expired", "v3_sign", t0 - 20 * day, t0 - 10 * day);
    let ee_future = pki.issue(&root_a, "signer-future", "v3_sign", t0 + day, t0 + 2 * day);
    let src = std::fs::read(fixtures().join("IMG_0003.jpg")).expect("fixture");

    // --- short-lived signing certificate: sign now (inside validity), validate after expiry
    let t1 = pki::now();
    let short_life = if thorough { 45 } else { 32 };
    let ee_short = pki.issue(&root_a, "signer-short", "v3_sign", t1 - 3600, t1 + short_life);
    let mut short_signed: Vec<Signed> = vec![];
    let good = |e: &Env| vec![(e.spec("good"), Cover::Right)];
    let short_plans: Vec<(&str, HdrPlan, bool)> = vec![
        ("short-good", HdrPlan::Toks(true, good(&env)), false),
        ("short-good-sdk", HdrPlan::Toks(true, good(&env)), true),
        ("short-none", HdrPlan::Absent, false),
        ("short-wrongmsg", HdrPlan::Toks(true, vec![(env.spec("good"), Cover::Other(1))]), false),
        ("short-swap", HdrPlan::Toks(true, vec![(env.spec("good"), Cover::SwapToRight(2))]), false),
        ("short-flipsig", HdrPlan::Toks(true, vec![(Spec { mutn: Mutn::FlipSig, ..env.spec("good") }, Cover::Right)]), false),
        ("short-untrusted-tsa", HdrPlan::Toks(true, vec![(env.spec("untrusted"), Cover::Right)]), false),
        ("short-v1-good", HdrPlan::Toks(false, good(&env)), false),
        ("short-two", HdrPlan::Toks(true, vec![(env.spec("good"), Cover::Right), (env.spec("good"), Cover::Right)]), false),
    ];
    for (tag, plan, sdk) in &short_plans {
        if pki::now() >= ee_short.not_after - 1 {
            run.notes.push(format!("{tag}: short-lived certificate expired before signing; skipped"));
            continue;
        }
        match guarded({
            let (env, ee, plan, src, seed) = (env.clone(), ee_short.clone(), plan.clone(), src.clone(), rng.next());
            let (sdk, tag) = (*sdk, tag.to_string());
            move || sign_e2e(&env, &ee, &plan, sdk, &src, seed, &tag)
        }) {
            Ok(Ok(s)) => short_signed.push(s),
            other => run.notes.push(format!("{tag}: signing failed: {:?}", other.map(|r| r.map(|_| ()).err()))),
        }
    }
    // --- time-stamp assertions: manifest A (short-lived certificate, no header time-stamp) becomes an
    // ingredient of manifest B, built while A's certificate is still valid; B carries the assertion
    let mut ta_arts: Vec<TaArt> = vec![];
    // its own short-lived certificate, issued now, so that the whole window is available
    let t2 = pki::now();
    let ee_ta = pki.issue(&root_a, "signer-short-ta", "v3_sign", t2 - 3600, t2 + short_life);
    match guarded({
        let (env, ee, src) = (env.clone(), ee_ta.clone(), src.clone());
        move || sign_plain(&env, &ee, &src)
    }) {
        Ok(Ok((asset_a, sig_a))) => {
            let label_a = guarded({
                let (asset, js) = (asset_a.clone(), env.settings_json(true, true));
                move || {
                    let ctx = Context::new().with_settings(js.as_str()).expect("settings");
                    Reader::from_context(ctx).with_stream("image/jpeg", Cursor::new(asset)).ok().and_then(|r| r.active_label().map(|s| s.to_string()))
                }
            })
            .ok()
            .flatten();
            if let Some(label_a) = label_a {
                let certs = vec![ee_ta.cert_der(), env.root_a.cert_der()];
                let prot = cose_build::protected_es256(&certs);
                let wrapped = cose_build::countersign_message(&cose_build::cbor_bstr(&sig_a), &prot);
                let g = env.spec("good");
                // (tag, spec, covered bytes, id, label the entry is filed under)
                let variants: Vec<(&str, Option<(Spec, Vec<u8>, String)>, String)> = vec![
                    ("ta-none", None, label_a.clone()),
                    ("ta-good", Some((g.clone(), sig_a.clone(), "rR".into())), label_a.clone()),
                    ("ta-good-sha512-acc0", Some((Spec { md: "sha512", acc: 0, ..g.clone() }, sig_a.clone(), "rR".into())), label_a.clone()),
                    ("ta-wrongmsg", Some((g.clone(), other_msg(31).0, other_msg(31).1)), label_a.clone()),
                    ("ta-hdrwrap", Some((g.clone(), wrapped.clone(), "cS".into())), label_a.clone()),
                    ("ta-flipsig", Some((Spec { mutn: Mutn::FlipSig, ..g.clone() }, sig_a.clone(), "rR".into())), label_a.clone()),
                    ("ta-flipcontent", Some((Spec { mutn: Mutn::FlipContent, ..g.clone() }, sig_a.clone(), "rR".into())), label_a.clone()),
                    ("ta-untrusted-tsa", Some((env.spec("untrusted"), sig_a.clone(), "rR".into())), label_a.clone()),
                    ("ta-garbage", Some((Spec { mutn: Mutn::Garbage, ..g.clone() }, sig_a.clone(), "rR".into())), label_a.clone()),
                    ("ta-unknown-label", Some((g.clone(), sig_a.clone(), "rR".into())), "urn:c2pa:00000000-0000-4000-8000-000000000000".to_string()),
                ];
                for (tag, tokspec, label) in variants {
                    if pki::now() >= ee_ta.not_after - 2 {
                        run.notes.push(format!("{tag}: short-lived certificate expired before the second manifest was built; skipped"));
                        continue;
                    }
                    let made = match &tokspec {
                        None => None,
                        Some((spec, covered, id)) => match make_token(&pki, spec, covered, id, None, rng) {
                            Some(x) => Some(x),
                            None => {
                                run.notes.push(format!("{tag}: token generation failed"));
                                continue;
                            }
                        },
                    };
                    let now0 = pki::now();
                    let built = guarded({
                        let (env, ee, asset_a, label, tok) = (env.clone(), ee_valid.clone(), asset_a.clone(), label.clone(), made.as_ref().map(|m| m.0.clone()));
                        move || build_with_ts_assertion(&env, &ee, &asset_a, tok.as_deref().map(|t| (label.as_str(), t)))
                    });
                    match built {
                        Ok(Ok(asset)) if pki::now() < ee_ta.not_after => {
                            // an entry under an unknown label is not a token for this claim
                            let facts: Vec<TokFacts> = if tag == "ta-unknown-label" { vec![] } else { made.iter().map(|m| m.1.clone()).collect() };
                            let xt = if facts.is_empty() { "-".to_string() } else { facts.iter().map(|f| f.enc()).collect::<Vec<_>>().join(";") };
                            ta_arts.push(TaArt { asset, xt, facts, ee: ee_ta.clone(), now0, tag: tag.to_string() });
                        }
                        Ok(Ok(_)) => run.notes.push(format!("{tag}: certificate expired while building; skipped")),
                        other => run.notes.push(format!("{tag}: building the second manifest failed: {:?}", other.map(|r| r.map(|_| ()).err()))),
                    }
                }
            } else {
                run.notes.push("ta: no active label for the first manifest".into());
            }
        }
        other => run.notes.push(format!("ta: signing the first manifest failed: {:?}", other.map(|r| r.map(|_| ()).err()))),
    }
    run.obligations.insert("time-stamp assertion cases present".into(), ta_arts.iter().any(|a| a.tag == "ta-good") && ta_arts.iter().any(|a| a.tag == "ta-wrongmsg"));

    // the same COSE-level artefacts for the hook level are built inside vc_case (they need the
    // certificate to be valid only for ground truth, not for signing), so do those first too
    for (tag, plan, _) in &short_plans {
        if *tag == "short-good-sdk" {
            continue;
        }
        // validated immediately (certificate still valid) …
        vc_case(run, &env, &ee_short, plan, false, false, true, true, &format!("{tag}-early"), rng);
    }

    // --- vts: tokens straight into verify_time_stamp
    let mut k = 100u64;
    let mut vts_tokens: Vec<(Vec<u8>, TokFacts, Vec<u8>, String, String)> = vec![];
    let variants: Vec<(&str, Spec)> = {
        let g = env.spec("good");
        let mut v = vec![
            ("good", g.clone()),
            ("good-acc0", Spec { acc: 0, ..g.clone() }),
            ("untrusted-tsa", env.spec("untrusted")),
            ("expired-tsa", env.spec("expired")),
            ("future-tsa", env.spec("future")),
            ("flip-sig", Spec { mutn: Mutn::FlipSig, ..g.clone() }),
            ("flip-content", Spec { mutn: Mutn::FlipContent, ..g.clone() }),
            ("flip-sid", Spec { mutn: Mutn::FlipSid, ..g.clone() }),
            ("garbage", Spec { mutn: Mutn::Garbage, ..g.clone() }),
            ("truncate", Spec { mutn: Mutn::Truncate, ..g.clone() }),
            ("no-certs", Spec { with_certs: false, ..g.clone() }),
            ("sha1", Spec { md: "sha1", ..g.clone() }),
            ("sha224", Spec { md: "sha224", ..g.clone() }),
            ("sha384", Spec { md: "sha384", ..g.clone() }),
            ("sha512", Spec { md: "sha512", ..g.clone() }),
            ("untrusted-flip-sig", Spec { mutn: Mutn::FlipSig, ..env.spec("untrusted") }),
            ("expired-flip-content", Spec { mutn: Mutn::FlipContent, ..env.spec("expired") }),
        ];
        if thorough {
            for md in ["sha1", "sha384", "sha512"] {
                v.push(("md-untrusted", Spec { md, ..env.spec("untrusted") }));
                v.push(("md-flipsig", Spec { md, mutn: Mutn::FlipSig, ..g.clone() }));
            }
        }
        v
    };
    let rounds = if thorough { 4 } else { 1 };
    for _ in 0..rounds {
        for (tag, spec) in &variants {
            k += 1;
            let (mb, mid) = other_msg(k);
            if let Some((tok, f)) = make_token(&pki, spec, &mb, &mid, None, rng) {
                vts_tokens.push((tok, f, mb, mid, tag.to_string()));
            } else {
                run.notes.push(format!("vts {tag}: token generation failed"));
            }
        }
        // imprint re-targeting: stamped for message a, digest rewritten to message b
        k += 2;
        let (ab, aid) = other_msg(k);
        let (bb, bid) = other_msg(k + 1);
        let s = Spec { mutn: Mutn::SwapImprint, ..env.spec("good") };
        if let Some((tok, f)) = make_token(&pki, &s, &ab, &aid, Some((&bb, &bid)), rng) {
            vts_tokens.push((tok.clone(), f.clone(), bb.clone(), bid.clone(), "swap-imprint".into()));
            vts_tokens.push((tok, f, ab, aid, "swap-imprint-orig".into()));
        }
    }
    // edge of the TSA certificate's validity: certificates ending / starting a few seconds from now
    let te = pki::now();
    let edge_na = pki.issue(&root_a, "tsa-edge-na", "v3_tsa", te - day, te + 3);
    let edge_nb = pki.issue(&root_a, "tsa-edge-nb", "v3_tsa", te + 3, te + 30 * day);
    let edge_until = te + if thorough { 8 } else { 6 };
    let mut seen: std::collections::BTreeSet<(String, i64, i64)> = Default::default();
    while pki::now() <= edge_until {
        for (name, cred) in [("edge-na", &edge_na), ("edge-nb", &edge_nb)] {
            for acc in [0, 1] {
                let spec = Spec { tsa: cred.clone(), chain: root_a.clone(), root_trusted: true, md: "sha256", acc, with_certs: true, mutn: Mutn::None, sig: None };
                k += 1;
                let (mb, mid) = other_msg(k);
                if let Some((tok, f)) = make_token(&pki, &spec, &mb, &mid, None, rng) {
                    if seen.insert((name.to_string(), acc, f.eff)) {
                        vts_tokens.push((tok, f, mb, mid, format!("{name}-acc{acc}")));
                    }
                }
            }
        }
        std::thread::sleep(std::time::Duration::from_millis(120));
    }
    // --- TSA key type x SignerInfo digest matrix, every pair as issued and with a corrupted signature
    run.obligations.insert("validator support table matches c2pa_raw_crypto".into(), support_table_matches());
    let key_kinds: Vec<(&'static str, &'static str, Vec<&'static str>)> = vec![
        ("ec", "ec-p256", vec!["-algorithm", "EC", "-pkeyopt", "ec_paramgen_curve:P-256"]),
        ("ec", "ec-p384", vec!["-algorithm", "EC", "-pkeyopt", "ec_paramgen_curve:P-384"]),
        ("rsa", "rsa2048", vec!["-algorithm", "RSA", "-pkeyopt", "rsa_keygen_bits:2048"]),
        ("rsa-pss", "rsapss2048", vec!["-algorithm", "RSA-PSS", "-pkeyopt", "rsa_keygen_bits:2048"]),
        ("ed25519", "ed25519", vec!["-algorithm", "ED25519"]),
        ("ed448", "ed448", vec!["-algorithm", "ED448"]),
    ];
    let mut matrix: Vec<(Vec<u8>, TokFacts, Vec<u8>, String, String)> = vec![];
    let mut unsupported_pairs = 0usize;
    let mut refused: Vec<String> = vec![];
    for (kind, kname, keyargs) in &key_kinds {
        let Some(cred) = pki.issue_key(&root_a, &format!("tsa-{kname}"), "v3_tsa", t0 - day, t0 + 30 * day, keyargs) else {
            run.notes.push(format!("matrix: openssl could not issue a {kname} TSA certificate"));
            continue;
        };
        for md in ["sha1", "sha224", "sha256", "sha384", "sha512", "md5"] {
            let base = Spec { tsa: cred.clone(), chain: root_a.clone(), root_trusted: true, md: "sha256", acc: 1, with_certs: true, mutn: Mutn::None, sig: Some((kind, md)) };
            k += 1;
            let (mb, mid) = other_msg(k);
            let Some((tok, mut f)) = make_token(&pki, &base, &mb, &mid, None, rng) else {
                // (openssl's PKCS#7 signer refuses Ed25519 / Ed448 / RSASSA-PSS keys and ECDSA with MD5)
                refused.push(format!("{kname}/{md}"));
                continue;
            };
            // Does the SDK's validator for a supported pair verify what openssl wrote (padding / curve /
            // pre-hash conventions)? Observed on the token as issued; it only refines the *model's* fact
            // `sigOk`, the oracle below does not use it.
            if f.alg_supported && f.digest_known {
                let mut l = StatusTracker::default();
                if verify_time_stamp(&tok, &mb, &env.ctp(), &mut l, false).is_err() {
                    f.sig_ok = false;
                    run.count(&format!("matrix:validator-rejects-openssl-encoding:{kname}/{md}"));
                }
            }
            if !f.alg_supported {
                unsupported_pairs += 1;
            }
            matrix.push((tok, f.clone(), mb.clone(), mid.clone(), format!("matrix:{kname}/{md}")));
            let bad = Spec { mutn: Mutn::FlipSig, ..base.clone() };
            if let Some((tok2, f2)) = make_token(&pki, &bad, &mb, &mid, None, rng) {
                matrix.push((tok2, f2, mb, mid, format!("matrix:{kname}/{md}+flipsig")));
            }
        }
    }
    if !refused.is_empty() {
        run.notes.push(format!("matrix: openssl ts cannot sign with {}", refused.join(" ")));
    }
    run.obligations.insert("matrix covers pairs without a validator".into(), unsupported_pairs >= 6);
    run.obligations.insert("matrix has a validator-less pair that reaches the signature check (ecdsa-with-SHA1)".into(), matrix.iter().any(|m| !m.1.alg_supported && m.1.digest_known && m.1.sig_ok));
    for (tok, f, mb, mid, tag) in &matrix {
        vts_case(run, &env, tok, f, mb, mid, false, tag);
    }

    for (tok, f, mb, mid, tag) in &vts_tokens {
        for vt in [false, true] {
            vts_case(run, &env, tok, f, mb, mid, vt, tag);
            // the same token against another message
            let (ob, oid) = other_msg(7);
            vts_case(run, &env, tok, f, &ob, &oid, vt, &format!("{tag}/other-data"));
        }
        // full TimeStampResp form of the same token
        if f.shape == 'P' {
            vts_case(run, &env, &resp_of_token(tok), f, mb, mid, true, &format!("{tag}/resp"));
        }
    }

    // --- vc: harness-built COSE_Sign1 into verify_cose
    let g = env.spec("good");
    let plans: Vec<(&str, HdrPlan)> = vec![
        ("none", HdrPlan::Absent),
        ("good", HdrPlan::Toks(true, vec![(g.clone(), Cover::Right)])),
        ("good-acc0-sha384", HdrPlan::Toks(true, vec![(Spec { acc: 0, md: "sha384", ..g.clone() }, Cover::Right)])),
        ("wrongmsg", HdrPlan::Toks(true, vec![(g.clone(), Cover::Other(3))])),
        ("otherwrap", HdrPlan::Toks(true, vec![(g.clone(), Cover::OtherWrap)])),
        ("rawsig", HdrPlan::Toks(true, vec![(g.clone(), Cover::RawSig)])),
        ("swap", HdrPlan::Toks(true, vec![(g.clone(), Cover::SwapToRight(4))])),
        ("flipsig", HdrPlan::Toks(true, vec![(Spec { mutn: Mutn::FlipSig, ..g.clone() }, Cover::Right)])),
        ("flipcontent", HdrPlan::Toks(true, vec![(Spec { mutn: Mutn::FlipContent, ..g.clone() }, Cover::Right)])),
        ("flipsid", HdrPlan::Toks(true, vec![(Spec { mutn: Mutn::FlipSid, ..g.clone() }, Cover::Right)])),
        ("garbage", HdrPlan::Toks(true, vec![(Spec { mutn: Mutn::Garbage, ..g.clone() }, Cover::Right)])),
        ("nocerts", HdrPlan::Toks(true, vec![(Spec { with_certs: false, ..g.clone() }, Cover::Right)])),
        ("untrusted-tsa", HdrPlan::Toks(true, vec![(env.spec("untrusted"), Cover::Right)])),
        ("expired-tsa", HdrPlan::Toks(true, vec![(env.spec("expired"), Cover::Right)])),
        ("future-tsa", HdrPlan::Toks(true, vec![(env.spec("future"), Cover::Right)])),
        ("two-good", HdrPlan::Toks(true, vec![(g.clone(), Cover::Right), (g.clone(), Cover::Right)])),
        ("zero", HdrPlan::Toks(true, vec![])),
        ("raw-hdr", HdrPlan::Raw(true)),
        ("v1-good", HdrPlan::Toks(false, vec![(g.clone(), Cover::Right)])),
        ("v1-otherwrap", HdrPlan::Toks(false, vec![(g.clone(), Cover::OtherWrap)])),
        ("v1-raw-hdr", HdrPlan::Raw(false)),
        // both kinds present: the first entry in header order is the one that counts
        ("two:v2good+v1raw", HdrPlan::Two(Box::new(HdrPlan::Toks(true, vec![(g.clone(), Cover::Right)])), Box::new(HdrPlan::Raw(false)))),
        ("two:v1raw+v2good", HdrPlan::Two(Box::new(HdrPlan::Raw(false)), Box::new(HdrPlan::Toks(true, vec![(g.clone(), Cover::Right)])))),
        ("two:v1good+v2wrong", HdrPlan::Two(Box::new(HdrPlan::Toks(false, vec![(g.clone(), Cover::Right)])), Box::new(HdrPlan::Toks(true, vec![(g.clone(), Cover::Other(5))])))),
        ("two:v2wrong+v1good", HdrPlan::Two(Box::new(HdrPlan::Toks(true, vec![(g.clone(), Cover::Other(6))])), Box::new(HdrPlan::Toks(false, vec![(g.clone(), Cover::Right)])))),
        ("two:v1wrong+v2good", HdrPlan::Two(Box::new(HdrPlan::Toks(false, vec![(g.clone(), Cover::Other(7))])), Box::new(HdrPlan::Toks(true, vec![(g.clone(), Cover::Right)])))),
    ];
    for (tag, plan) in &plans {
        for (ename, ee) in [("valid", &ee_valid), ("expired", &ee_expired), ("future", &ee_future)] {
            for (trust, tt) in [(true, true), (true, false), (false, true)] {
                if !thorough && ename != "valid" && !(trust && tt) && !matches!(*tag, "none" | "good" | "untrusted-tsa") {
                    continue;
                }
                vc_case(run, &env, ee, plan, false, false, trust, tt, &format!("{tag}/{ename}"), rng);
            }
        }
    }
    // corrupted COSE signature (time-stamp still binds the corrupted bytes), external time-stamp
    for (ename, ee) in [("valid", &ee_valid), ("expired", &ee_expired)] {
        vc_case(run, &env, ee, &plans[1].1, true, false, true, true, &format!("good+badsig/{ename}"), rng);
        vc_case(run, &env, ee, &plans[0].1, false, true, true, true, &format!("ext/{ename}"), rng);
        vc_case(run, &env, ee, &plans[3].1, false, true, true, true, &format!("ext+wrongmsg-hdr/{ename}"), rng);
        vc_case(run, &env, ee, &plans[1].1, false, true, true, true, &format!("ext+good-hdr/{ename}"), rng);
    }
    // a token made for another signature over the same claim
    transplant_case(run, &env, &ee_valid, false, rng);
    transplant_case(run, &env, &ee_valid, true, rng);

    // --- e2e with long-lived certificates
    let e2e_plans: Vec<(&str, HdrPlan, bool)> = vec![
        ("none", HdrPlan::Absent, false),
        ("good", plans[1].1.clone(), false),
        ("good-sdk", plans[1].1.clone(), true),
        ("wrongmsg", plans[3].1.clone(), false),
        ("wrongmsg-sdk", plans[3].1.clone(), true),
        ("swap", plans[6].1.clone(), false),
        ("flipsig", plans[7].1.clone(), false),
        ("flipsid", plans[9].1.clone(), false),
        ("garbage", plans[10].1.clone(), false),
        ("untrusted-tsa", plans[12].1.clone(), false),
        ("untrusted-tsa-sdk", plans[12].1.clone(), true),
        ("expired-tsa", plans[13].1.clone(), false),
        ("two-good", plans[15].1.clone(), false),
        ("raw-hdr", plans[17].1.clone(), false),
        ("v1-good", plans[18].1.clone(), false),
    ];
    let mut long_signed: Vec<Signed> = vec![];
    for (tag, plan, sdk) in &e2e_plans {
        for (ename, ee) in [("valid", &ee_valid), ("expired", &ee_expired), ("future", &ee_future)] {
            if *sdk && ename != "valid" {
                continue; // the SDK refuses to sign with a certificate that is not valid now
            }
            if !thorough && ename == "future" && !matches!(*tag, "none" | "good") {
                continue;
            }
            let full = format!("{tag}/{ename}");
            match guarded({
                let (env, ee, plan, src, seed, sdk, full) = (env.clone(), ee.clone(), plan.clone(), src.clone(), rng.next(), *sdk, full.clone());
                move || sign_e2e(&env, &ee, &plan, sdk, &src, seed, &full)
            }) {
                Ok(Ok(s)) => long_signed.push(s),
                other => run.notes.push(format!("e2e {full}: signing failed: {:?}", other.map(|r| r.map(|_| ()).err()))),
            }
        }
    }
    for s in &long_signed {
        for (trust, tt) in [(true, true), (true, false), (false, true)] {
            if !thorough && !(trust && tt) && !s.tag.starts_with("good") && !s.tag.starts_with("untrusted") {
                continue;
            }
            read_e2e(run, &env, s, trust, tt);
        }
    }

    // --- after expiry of the short-lived certificate
    while pki::now() <= ee_short.not_after.max(ee_ta.not_after) + 1 {
        std::thread::sleep(std::time::Duration::from_millis(200));
    }
    for s in &short_signed {
        for (trust, tt) in [(true, true), (true, false)] {
            read_e2e(run, &env, s, trust, tt);
        }
    }
    for a in &ta_arts {
        read_ta(run, &env, a, true, true);
        // the store pass checks assertion tokens with the trust part whatever this setting says
        if thorough || a.tag == "ta-untrusted-tsa" || a.tag == "ta-good" {
            read_ta(run, &env, a, true, false);
        }
    }
    for (tag, plan, _) in &short_plans {
        if *tag == "short-good-sdk" {
            continue;
        }
        // … tokens made now are later than the certificate's end
        vc_case(run, &env, &ee_short, plan, false, false, true, true, &format!("{tag}-late"), rng);
    }
    run.obligations.insert("short-lived certificate cases present".into(), !short_signed.is_empty());

    let _ = std::fs::remove_dir_all(&dir);
}
