//! C10 — untrusted input never crashes, hangs or exhausts memory.
//!
//! Model-level requests (see lean/C2paModel/Model/C10.lean), answered by the real allocation
//! guards through the hooks `verif_hooks::c10` / `c35`:
//!   C10 tovec pos=<n> len=<n> want=<n>     -> ok <alloc> <read> | err:<kind>
//!   C10 bvw max=<n> writes=<n,n,…|->       -> ok <len> | err <len at refusal>
//!   C10 badd count=<n> k=<n>               -> <count after k add attempts>
//!   C10 svec elem=<n> n=<n> fill=<0|1>     -> ok <bytes reserved> <len> | err:<kind>   (safe_vec::<T>)
//!   C10 stores max=<n> s=<p:size|b:size>,… -> ok <reservations> <sizes> | err <reservations>
//!        a real manifest store with one manifest box per entry (plain, or brotli-compressed and
//!        padded to decompress to exactly `size`) through Store::from_jumbf_with_context with the
//!        decompression limit set to `max`; reservations = allocations of exactly `max` bytes
//!   C10 asserts n=<n>                      -> ok <assertions loaded> | err:<kind>
//!        a real manifest whose assertion store has n boxes, through Store::from_jumbf_with_context
//!   C10 bdef n=<n>                         -> <assertions held by Builder::with_definition>
//!   C10 cadd count=<n> k=<n>               -> ok <count> | err:<kind>   (k Claim::add_assertion on a claim holding count)
//!   C10 e2e id=<n> … outcome=<class>       -> <class>   (echoed: there is no model of the SDK's
//!                                             parsers; the line carries the oracle's verdict so
//!                                             that the evidence counts the explored inputs)
//!
//! The search engine: structure-aware mutants of every supported format (seed corpus = fixtures,
//! freshly signed assets, compressed manifests, archives, sidecars) are pushed through
//! `Reader::with_stream`, `Builder::add_ingredient_from_stream` and `Builder::with_archive`
//! under the right hint, wrong hints and an unknown hint. Cases run in **forked workers** with
//! `RLIMIT_AS`, a per-case CPU budget (`RLIMIT_CPU`) and a wall-clock backstop enforced by the
//! parent, `catch_unwind` inside, and a counting global allocator that records the peak live heap
//! of each case. Structured generators (besides the random mutator): COSE_Sign1 / DER (`cosemut`),
//! brotli streams, ID3v2 (`id3_mutants`), zip directories (`zip_overlap`), byte-level JUMBF
//! editing with all box sizes rebuilt (`jb`), a lying HTTP transport (`LyingServer`).
//!
//! Outcomes per case: `ok` / `err` (fine), `panic:<entry>:<handler>` (caught unwind),
//! `crash:<entry>:<handler>` (signal: abort, stack overflow, segfault), `hang:…` (budget
//! exceeded), `oom:…` (allocation failure under the address-space budget),
//! `alloc-excess:…` (peak heap far beyond input size and configured limits).

use std::{
    alloc::{GlobalAlloc, Layout, System},
    io::Cursor,
    os::raw::c_void,
    sync::atomic::{AtomicUsize, Ordering},
    time::{Duration, Instant},
};

use c2pa::{Builder, Context, Reader};
use vh::common::{fixtures, guarded, main_with, scratch, Rng, Run};
use vh::sign::{definition, sign_asset, unsigned_sources};

// ---------------------------------------------------------------------------------------------
// counting allocator

struct Counting;
static LIVE: AtomicUsize = AtomicUsize::new(0);
static PEAK: AtomicUsize = AtomicUsize::new(0);
static MAXREQ: AtomicUsize = AtomicUsize::new(0);
/// allocations of exactly `WATCH` bytes are counted in `WATCHED` (0 = off)
static WATCH: AtomicUsize = AtomicUsize::new(0);
static WATCHED: AtomicUsize = AtomicUsize::new(0);

unsafe impl GlobalAlloc for Counting {
    unsafe fn alloc(&self, l: Layout) -> *mut u8 {
        let p = System.alloc(l);
        if !p.is_null() {
            let live = LIVE.fetch_add(l.size(), Ordering::Relaxed) + l.size();
            PEAK.fetch_max(live, Ordering::Relaxed);
            MAXREQ.fetch_max(l.size(), Ordering::Relaxed);
            if l.size() == WATCH.load(Ordering::Relaxed) {
                WATCHED.fetch_add(1, Ordering::Relaxed);
            }
        }
        p
    }

    // (zeroed requests go to calloc like they do without this wrapper: a huge zeroed request
    // that is never touched must not be turned into a huge memset by the harness)
    unsafe fn alloc_zeroed(&self, l: Layout) -> *mut u8 {
        let p = System.alloc_zeroed(l);
        if !p.is_null() {
            let live = LIVE.fetch_add(l.size(), Ordering::Relaxed) + l.size();
            PEAK.fetch_max(live, Ordering::Relaxed);
            MAXREQ.fetch_max(l.size(), Ordering::Relaxed);
            if l.size() == WATCH.load(Ordering::Relaxed) {
                WATCHED.fetch_add(1, Ordering::Relaxed);
            }
        }
        p
    }

    unsafe fn dealloc(&self, p: *mut u8, l: Layout) {
        System.dealloc(p, l);
        LIVE.fetch_sub(l.size(), Ordering::Relaxed);
    }

    unsafe fn realloc(&self, p: *mut u8, l: Layout, new_size: usize) -> *mut u8 {
        let q = System.realloc(p, l, new_size);
        if !q.is_null() {
            if new_size >= l.size() {
                let live = LIVE.fetch_add(new_size - l.size(), Ordering::Relaxed) + (new_size - l.size());
                PEAK.fetch_max(live, Ordering::Relaxed);
            } else {
                LIVE.fetch_sub(l.size() - new_size, Ordering::Relaxed);
            }
            MAXREQ.fetch_max(new_size, Ordering::Relaxed);
            if new_size == WATCH.load(Ordering::Relaxed) {
                WATCHED.fetch_add(1, Ordering::Relaxed);
            }
        }
        q
    }
}

#[global_allocator]
static A: Counting = Counting;

fn main() {
    // a failed allocation aborts through a non-unwinding panic; symbolising its backtrace costs
    // seconds of CPU in the worker and would turn an `oom` into a `hang` under load
    std::env::set_var("RUST_BACKTRACE", "0");
    let args: Vec<String> = std::env::args().collect();
    if args.len() >= 4 && args[1] == "time" {
        // c10 time <hint> <file>: run the three entry points once on a saved input (in process)
        let data = std::fs::read(&args[3]).expect("read input");
        let hint: &'static str = HINTS.iter().chain(REMOTE_HINTS.iter()).find(|h| **h == args[2]).copied().unwrap_or("xyz/unknown");
        let c = Case { seed: usize::MAX, what: "file".into(), hint, data, archive: true };
        let t0 = Instant::now();
        let r = exec_case(&c);
        println!("{} bytes hint {}: read {} ingredient {} archive {} peak {} bytes, {} ms (wall {} ms) {}", c.data.len(), hint, r.read, r.ingredient, r.archive, r.peak, r.ms, t0.elapsed().as_millis(), r.detail);
        return;
    }
    main_with("C10", run);
}

// ---------------------------------------------------------------------------------------------
// model-level cases: the allocation guards

fn guard_cases(run: &mut Run, rng: &mut Rng) {
    use c2pa::verif_hooks::{c10 as h10, c35 as h35};
    let thorough = run.thorough();
    // read_to_vec: allocation only after the range check
    let n = if thorough { 4000 } else { 600 };
    for i in 0..n {
        let len = match i % 4 {
            0 => rng.below(64),
            1 => rng.below(5000),
            _ => rng.below(70_000),
        };
        let pos = if rng.chance(1, 8) { len + rng.below(10) } else { rng.below(len + 1) };
        let want = match rng.below(10) {
            0 => u64::MAX,
            1 => u64::MAX - pos,
            2 => (u64::MAX - pos).saturating_add(1),
            3 => (len.saturating_sub(pos)) + 1,
            4 => len.saturating_sub(pos),
            5 => 1u64 << (32 + rng.below(31)),
            6 => i64::MAX as u64 + rng.below(3),
            _ => rng.below(len + 2),
        };
        let data = vec![0xabu8; len as usize];
        let mut cur = Cursor::new(data);
        cur.set_position(pos);
        LIVE.load(Ordering::Relaxed);
        MAXREQ.store(0, Ordering::Relaxed);
        let res = guarded(std::panic::AssertUnwindSafe(|| h35::read_to_vec(&mut cur, want)));
        let maxreq = MAXREQ.load(Ordering::Relaxed) as u64;
        let imp = match &res {
            Ok(Ok(v)) => format!("ok {} {}", v.capacity(), v.len()),
            Ok(Err(e)) => format!("err:{}", err_class(e)),
            Err(_) => "panic".to_string(),
        };
        let idx = run.case(format!("C10 tovec pos={pos} len={len} want={want}"), imp);
        run.count("guard_tovec");
        match res {
            Err(p) => run.fail(idx, "panic:read_to_vec", format!("read_to_vec(pos {pos}, len {len}, want {want}) panicked: {p}")),
            Ok(r) => {
                // property oracle, independent of the model: nothing larger than the remaining
                // stream (plus small bookkeeping) was requested from the allocator
                let remaining = len.saturating_sub(pos);
                if maxreq > remaining.max(4096) + 4096 {
                    run.fail(idx, "alloc-beyond-remaining:read_to_vec", format!("read_to_vec(pos {pos}, len {len}, want {want}) requested {maxreq} bytes with {remaining} left in the stream"));
                }
                if let Ok(v) = &r {
                    if pos.checked_add(want).map(|e| e > len).unwrap_or(true) || v.len() as u64 != want {
                        run.fail(idx, "read-past-end-accepted:read_to_vec", format!("read_to_vec(pos {pos}, len {len}, want {want}) returned Ok with {} bytes", v.len()));
                    }
                    run.nontrivial(format!("tovec {pos} {len} {want}"));
                }
            }
        }
    }
    // BoundedVecWriter under arbitrary chunk sequences
    let n = if thorough { 3000 } else { 500 };
    for _ in 0..n {
        let max = match rng.below(4) {
            0 => rng.below(8),
            1 => rng.below(300),
            _ => rng.below(20_000),
        } as usize;
        let k = rng.below(12) as usize;
        let writes: Vec<usize> = (0..k)
            .map(|_| match rng.below(5) {
                0 => 0,
                1 => max.saturating_sub(rng.below(3) as usize),
                2 => max + 1 + rng.below(5) as usize,
                _ => rng.below(max as u64 / 2 + 2) as usize,
            })
            .collect();
        let res = guarded(std::panic::AssertUnwindSafe(|| -> Result<(bool, usize, usize), String> {
            let mut w = h10::BoundedWriter::new(max).map_err(|e| err_class(&e))?;
            let mut refused = false;
            let mut held = 0usize;
            for n in &writes {
                match w.write(&vec![0x11u8; *n]) {
                    Ok(m) => held += m,
                    Err(_) => {
                        refused = true;
                        break;
                    }
                }
            }
            let v = w.into_inner();
            Ok((refused, v.len(), held))
        }));
        let ws = if writes.is_empty() { "-".to_string() } else { writes.iter().map(|x| x.to_string()).collect::<Vec<_>>().join(",") };
        let imp = match &res {
            Ok(Ok((false, len, _))) => format!("ok {len}"),
            Ok(Ok((true, len, _))) => format!("err {len}"),
            Ok(Err(e)) => format!("err:{e}"),
            Err(_) => "panic".into(),
        };
        let idx = run.case(format!("C10 bvw max={max} writes={ws}"), imp);
        run.count("guard_bvw");
        match res {
            Err(p) => run.fail(idx, "panic:bounded_writer", format!("BoundedVecWriter max {max} writes {ws}: {p}")),
            Ok(Ok((refused, len, _))) => {
                let total: usize = writes.iter().sum();
                if len > max {
                    run.fail(idx, "bounded-writer-over-limit", format!("BoundedVecWriter(max {max}) holds {len} bytes after writes {ws}"));
                }
                if !refused && total > max {
                    run.fail(idx, "bounded-writer-over-limit", format!("BoundedVecWriter(max {max}) accepted {total} bytes"));
                }
                run.nontrivial(format!("bvw {max} {refused} {}", writes.len()));
            }
            _ => {}
        }
    }
    // safe_vec with absurd counts: an error, never an abort
    for cnt in [0u64, 1, 4096, 1 << 40, (i64::MAX as u64), (i64::MAX as u64) + 1, u64::MAX] {
        let res = guarded(std::panic::AssertUnwindSafe(|| h10::safe_vec_u8(cnt).map(|v| v.capacity())));
        run.count("guard_safe_vec");
        if let Err(p) = res {
            let idx = run.reqs.len().saturating_sub(1);
            run.fail(idx, "panic:safe_vec", format!("safe_vec({cnt}) panicked: {p}"));
        }
    }
    // the builder's assertion limit (one long run; MAX_ASSERTIONS adds take a moment)
    let max = h10::MAX_ASSERTIONS;
    run.obligations.insert("max_assertions_is_100000".into(), max == 100_000);
    let start = if thorough { 0 } else { max - 40 };
    let attempts = if thorough { max + 25 } else { 65 };
    let res = guarded(std::panic::AssertUnwindSafe(|| -> c2pa::Result<usize> {
        let mut b = Builder::from_context(Context::new()).with_definition(definition("c10", "image/jpeg").as_str())?;
        // the definition comes with one assertion (c2pa.actions); bring the count to `start`
        let have = b.definition.assertions.len();
        if start > have {
            let proto = b.definition.assertions[0].clone();
            b.definition.assertions.extend(std::iter::repeat(proto).take(start - have));
        }
        for i in 0..attempts {
            let _ = b.add_assertion(format!("org.verif.a{i}"), &serde_json::json!({"i": i}));
        }
        Ok(b.definition.assertions.len())
    }));
    let begin = start.max(1);
    let imp = match &res {
        Ok(Ok(n)) => n.to_string(),
        Ok(Err(e)) => format!("err:{}", err_class(e)),
        Err(_) => "panic".into(),
    };
    let idx = run.case(format!("C10 badd count={begin} k={attempts}"), imp);
    match res {
        Ok(Ok(n)) if n <= max => run.nontrivial("badd".into()),
        Ok(Ok(n)) => run.fail(idx, "assertion-limit-exceeded", format!("builder holds {n} assertions (limit {max})")),
        other => run.fail(idx, "panic:add_assertion", format!("{:?}", other.map(|r| r.map_err(|e| err_class(&e))))),
    }
}

// ---------------------------------------------------------------------------------------------
// byte-level JUMBF editing (independent of the SDK's box code)

mod jb {
    pub fn be32(d: &[u8], i: usize) -> usize {
        u32::from_be_bytes([d[i], d[i + 1], d[i + 2], d[i + 3]]) as usize
    }

    pub fn boxed(ty: &[u8; 4], parts: &[&[u8]]) -> Vec<u8> {
        let n: usize = 8 + parts.iter().map(|p| p.len()).sum::<usize>();
        let mut v = Vec::with_capacity(n);
        v.extend_from_slice(&(n as u32).to_be_bytes());
        v.extend_from_slice(ty);
        for p in parts {
            v.extend_from_slice(p);
        }
        v
    }

    /// the boxes that tile `d` exactly: (start, size)
    pub fn kids(d: &[u8]) -> Option<Vec<(usize, usize)>> {
        let mut v = vec![];
        let mut i = 0;
        while i < d.len() {
            if i + 8 > d.len() {
                return None;
            }
            let sz = be32(d, i);
            if sz < 8 || i + sz > d.len() {
                return None;
            }
            v.push((i, sz));
            i += sz;
        }
        Some(v)
    }

    /// a `jumb` box -> (its `jumd` box, the boxes that follow)
    pub fn split(jumb: &[u8]) -> Option<(Vec<u8>, Vec<Vec<u8>>)> {
        if jumb.len() < 16 || &jumb[4..8] != b"jumb" || be32(jumb, 0) != jumb.len() {
            return None;
        }
        let body = &jumb[8..];
        let k = kids(body)?;
        let all: Vec<Vec<u8>> = k.iter().map(|(s, l)| body[*s..*s + *l].to_vec()).collect();
        if all.is_empty() || &all[0][4..8] != b"jumd" || all[0].len() < 25 {
            return None;
        }
        Some((all[0].clone(), all[1..].to_vec()))
    }

    pub fn join(jumd: &[u8], kids: &[Vec<u8>]) -> Vec<u8> {
        let mut parts: Vec<&[u8]> = vec![jumd];
        parts.extend(kids.iter().map(|k| k.as_slice()));
        boxed(b"jumb", &parts)
    }

    /// first four bytes of a description box's type UUID: "c2pa", "c2ma", "c2as", "c2cl", …
    pub fn kind(jumd: &[u8]) -> [u8; 4] {
        [jumd[8], jumd[9], jumd[10], jumd[11]]
    }

    /// (offset of the label inside the jumd box, length) when the label toggle is set
    pub fn label_span(jumd: &[u8]) -> Option<(usize, usize)> {
        if jumd[24] & 2 == 0 {
            return None;
        }
        let n = jumd[25..].iter().position(|b| *b == 0)?;
        Some((25, n))
    }

    pub fn jumd(kind: &[u8; 4], label: &str) -> Vec<u8> {
        let mut p = kind.to_vec();
        p.extend_from_slice(&[0x00, 0x11, 0x00, 0x10, 0x80, 0x00, 0x00, 0xaa, 0x00, 0x38, 0x9b, 0x71]);
        p.push(3);
        p.extend_from_slice(label.as_bytes());
        p.push(0);
        boxed(b"jumd", &[&p])
    }
}

/// A manifest store signed now: the bytes `Builder::save_to_stream` returns.
fn fresh_store() -> c2pa::Result<Vec<u8>> {
    fresh_store_with(false)
}

fn fresh_store_with(compress: bool) -> c2pa::Result<Vec<u8>> {
    let signer = c2pa::EphemeralSigner::new("verif.test")?;
    let st = if compress { r#"{"core":{"prefer_compress_manifests":true},"verify":{"remote_manifest_fetch":false,"ocsp_fetch":false}}"# } else { offline() };
    let ctx = Context::new().with_settings(st)?.with_signer(signer);
    let mut b = Builder::from_context(ctx).with_definition(definition("c10 store", "image/png").as_str())?;
    let src = std::fs::read(fixtures().join("libpng-test.png"))?;
    b.save_to_stream("image/png", &mut Cursor::new(src), &mut Cursor::new(Vec::new()))
}

/// index of the assertion store among the boxes of a manifest
fn assertion_store_at(kids: &[Vec<u8>]) -> Option<usize> {
    kids.iter().position(|k| jb::split(k).map(|(d, _)| &jb::kind(&d) == b"c2as").unwrap_or(false))
}

/// The manifest with an assertion store of exactly `n` boxes (its own, then copies of its smallest).
fn with_assertion_count(manifest: &[u8], n: usize) -> Option<Vec<u8>> {
    let (jumd, mut kids) = jb::split(manifest)?;
    let at = assertion_store_at(&kids)?;
    let (ajumd, mut asserts) = jb::split(&kids[at])?;
    let proto = asserts.iter().min_by_key(|a| a.len())?.clone();
    asserts.truncate(n);
    while asserts.len() < n {
        asserts.push(proto.clone());
    }
    kids[at] = jb::join(&ajumd, &asserts);
    Some(jb::join(&jumd, &kids))
}

/// The manifest grown to exactly `total` bytes by a padding (`free`) box at the end of its first
/// assertion box (the loader reads data box 0 of an assertion and ignores the rest).
fn padded_to(manifest: &[u8], total: usize) -> Option<Vec<u8>> {
    if total == manifest.len() {
        return Some(manifest.to_vec());
    }
    if total < manifest.len() + 8 {
        return None;
    }
    let (jumd, mut kids) = jb::split(manifest)?;
    let at = assertion_store_at(&kids)?;
    let (ajumd, mut asserts) = jb::split(&kids[at])?;
    let pad = jb::boxed(b"free", &[&vec![0u8; total - manifest.len() - 8]]);
    let first = asserts.first()?.clone();
    asserts[0] = jb::boxed(b"jumb", &[&first[8..], &pad]);
    kids[at] = jb::join(&ajumd, &asserts);
    let out = jb::join(&jumd, &kids);
    (out.len() == total).then_some(out)
}

/// The manifest with the CBOR payload of its first assertion replaced by a byte string of
/// `n` zeros (valid CBOR, kept by the loader: the claim holds the assertion's data).
fn with_big_assertion(manifest: &[u8], n: usize) -> Option<Vec<u8>> {
    let (jumd, mut kids) = jb::split(manifest)?;
    let at = assertion_store_at(&kids)?;
    let (ajumd, mut asserts) = jb::split(&kids[at])?;
    let (a0jumd, _) = jb::split(asserts.first()?)?;
    let mut payload = vec![0x5au8];
    payload.extend((n as u32).to_be_bytes());
    payload.resize(5 + n, 0);
    asserts[0] = jb::join(&a0jumd, &[jb::boxed(b"cbor", &[&payload])]);
    kids[at] = jb::join(&ajumd, &asserts);
    Some(jb::join(&jumd, &kids))
}

fn crc32(d: &[u8]) -> u32 {
    let mut c = 0xffff_ffffu32;
    for b in d {
        c ^= *b as u32;
        for _ in 0..8 {
            c = if c & 1 != 0 { (c >> 1) ^ 0xedb8_8320 } else { c >> 1 };
        }
    }
    !c
}

/// A zip archive (stored entries only) with `manifest.json` and `n` directory entries
/// `resources/r<i>` that all name the **same** stored bytes (`size` bytes): what the archive
/// expands to is `n * size` although the file holds `size` once.
fn zip_overlap(manifest_json: &[u8], n: usize, size: usize) -> Vec<u8> {
    fn local(name: &[u8], data: &[u8]) -> Vec<u8> {
        let mut v = vec![];
        v.extend(0x0403_4b50u32.to_le_bytes());
        v.extend(20u16.to_le_bytes());
        v.extend(0u16.to_le_bytes());
        v.extend(0u16.to_le_bytes());
        v.extend(0u32.to_le_bytes()); // time, date
        v.extend(crc32(data).to_le_bytes());
        v.extend((data.len() as u32).to_le_bytes());
        v.extend((data.len() as u32).to_le_bytes());
        v.extend((name.len() as u16).to_le_bytes());
        v.extend(0u16.to_le_bytes());
        v.extend(name);
        v.extend(data);
        v
    }
    fn central(name: &[u8], crc: u32, len: usize, off: usize) -> Vec<u8> {
        let mut v = vec![];
        v.extend(0x0201_4b50u32.to_le_bytes());
        v.extend(20u16.to_le_bytes());
        v.extend(20u16.to_le_bytes());
        v.extend(0u16.to_le_bytes());
        v.extend(0u16.to_le_bytes());
        v.extend(0u32.to_le_bytes());
        v.extend(crc.to_le_bytes());
        v.extend((len as u32).to_le_bytes());
        v.extend((len as u32).to_le_bytes());
        v.extend((name.len() as u16).to_le_bytes());
        v.extend([0u8; 8]); // extra len, comment len, disk, internal attrs
        v.extend(0u32.to_le_bytes());
        v.extend((off as u32).to_le_bytes());
        v.extend(name);
        v
    }
    let blob = vec![0x41u8; size];
    let mut out = local(b"manifest.json", manifest_json);
    let blob_at = out.len();
    out.extend(local(b"resources/r0", &blob));
    let cd_at = out.len();
    let mut cd = central(b"manifest.json", crc32(manifest_json), manifest_json.len(), 0);
    let crc = crc32(&blob);
    for i in 0..n {
        cd.extend(central(format!("resources/r{i}").as_bytes(), crc, size, blob_at));
    }
    out.extend(&cd);
    out.extend(0x0605_4b50u32.to_le_bytes());
    out.extend([0u8; 4]);
    out.extend(((n + 1) as u16).to_le_bytes());
    out.extend(((n + 1) as u16).to_le_bytes());
    out.extend((cd.len() as u32).to_le_bytes());
    out.extend((cd_at as u32).to_le_bytes());
    out.extend(0u16.to_le_bytes());
    out
}

/// the raw store with the brotli stream of its (last) compressed manifest replaced
fn with_brob_payload(store: &[u8], payload: &[u8]) -> Option<Vec<u8>> {
    let (top, mut manifests) = jb::split(store)?;
    let mi = manifests.iter().rposition(|m| jb::split(m).map(|(d, k)| &jb::kind(&d) == b"c2cm" && k.len() == 1 && &k[0][4..8] == b"brob").unwrap_or(false))?;
    let (mj, _) = jb::split(&manifests[mi])?;
    manifests[mi] = jb::join(&mj, &[jb::boxed(b"brob", &[payload])]);
    Some(jb::join(&top, &manifests))
}

fn brob_payload(store: &[u8]) -> Option<Vec<u8>> {
    let (_, manifests) = jb::split(store)?;
    manifests.iter().rev().find_map(|m| {
        let (d, k) = jb::split(m)?;
        (&jb::kind(&d) == b"c2cm" && k.len() == 1 && &k[0][4..8] == b"brob").then(|| k[0][8..].to_vec())
    })
}

/// same manifest under another label (same length: the last two characters are replaced)
fn relabelled(manifest: &[u8], i: usize) -> Option<Vec<u8>> {
    let (mut jumd, kids) = jb::split(manifest)?;
    let (off, n) = jb::label_span(&jumd)?;
    if n < 2 {
        return None;
    }
    jumd[off + n - 2] = b'q';
    jumd[off + n - 1] = b"0123456789abcdefghijklmnopqrstuvwxyz"[i % 36];
    Some(jb::join(&jumd, &kids))
}

/// the compressed form the SDK writes: a `c2cm` super box with the manifest's label and one `brob` box
fn compressed(manifest: &[u8]) -> Option<Vec<u8>> {
    let (jumd, _) = jb::split(manifest)?;
    let (off, n) = jb::label_span(&jumd)?;
    let label = String::from_utf8_lossy(&jumd[off..off + n]).to_string();
    let mut out = Vec::new();
    let params = brotli::enc::BrotliEncoderParams { quality: 5, ..Default::default() };
    brotli::BrotliCompress(&mut Cursor::new(manifest), &mut out, &params).ok()?;
    Some(jb::join(&jb::jumd(b"c2cm", &label), &[jb::boxed(b"brob", &[&out])]))
}

// ---------------------------------------------------------------------------------------------
// structure-aware COSE_Sign1 / DER mutation of the signature box

mod cosemut {
    use coset::cbor::value::Value as Cv;
    use vh::common::Rng;

    pub fn dec(b: &[u8]) -> Option<Cv> {
        coset::cbor::de::from_reader::<Cv, _>(b).ok()
    }

    pub fn enc(v: &Cv) -> Vec<u8> {
        let mut out = Vec::new();
        let _ = coset::cbor::ser::into_writer(v, &mut out);
        out
    }

    fn int(i: i64) -> Cv {
        Cv::Integer(i.into())
    }
    fn text(t: &str) -> Cv {
        Cv::Text(t.to_string())
    }
    fn nest(v: Cv, depth: usize) -> Cv {
        (0..depth).fold(v, |acc, _| Cv::Array(vec![acc]))
    }

    // ---- DER ----
    #[derive(Clone, Debug)]
    pub struct Tlv {
        pub tag: Vec<u8>,
        pub kids: Option<Vec<Tlv>>,
        pub prim: Vec<u8>,
        /// length octets written instead of the correct ones
        pub len_override: Option<Vec<u8>>,
    }

    fn der_one(b: &[u8], depth: usize) -> Option<(Tlv, usize)> {
        if b.len() < 2 || depth > 64 {
            return None;
        }
        let mut i = 1;
        if b[0] & 0x1f == 0x1f {
            while i < b.len() && b[i] & 0x80 != 0 {
                i += 1;
            }
            i += 1;
        }
        if i >= b.len() {
            return None;
        }
        let tag = b[..i].to_vec();
        let l0 = b[i];
        i += 1;
        let len = if l0 < 0x80 {
            l0 as usize
        } else {
            let n = (l0 & 0x7f) as usize;
            if n == 0 || n > 4 || i + n > b.len() {
                return None;
            }
            let mut l = 0usize;
            for k in 0..n {
                l = (l << 8) | b[i + k] as usize;
            }
            i += n;
            l
        };
        if i + len > b.len() {
            return None;
        }
        let content = &b[i..i + len];
        let kids = if tag[0] & 0x20 != 0 {
            let mut v = vec![];
            let mut j = 0;
            let mut ok = true;
            while j < content.len() {
                match der_one(&content[j..], depth + 1) {
                    Some((t, n)) => {
                        v.push(t);
                        j += n;
                    }
                    None => {
                        ok = false;
                        break;
                    }
                }
            }
            ok.then_some(v)
        } else {
            None
        };
        Some((Tlv { tag, prim: if kids.is_some() { vec![] } else { content.to_vec() }, kids, len_override: None }, i + len))
    }

    pub fn der_parse(b: &[u8]) -> Option<Tlv> {
        der_one(b, 0).map(|(t, _)| t)
    }

    fn der_len(n: usize) -> Vec<u8> {
        if n < 0x80 {
            vec![n as u8]
        } else {
            let bytes: Vec<u8> = n.to_be_bytes().iter().copied().skip_while(|b| *b == 0).collect();
            let mut v = vec![0x80 | bytes.len() as u8];
            v.extend(bytes);
            v
        }
    }

    /// number of length octets at the start of `b`
    fn der_len_len(b: &[u8]) -> usize {
        match b.first() {
            Some(l) if *l >= 0x80 => 1 + (*l & 0x7f) as usize,
            _ => 1,
        }
    }

    pub fn der_enc(t: &Tlv) -> Vec<u8> {
        let content: Vec<u8> = match &t.kids {
            Some(k) => k.iter().flat_map(der_enc).collect(),
            None => t.prim.clone(),
        };
        let mut out = t.tag.clone();
        out.extend(t.len_override.clone().unwrap_or_else(|| der_len(content.len())));
        out.extend(content);
        out
    }

    fn count(t: &Tlv) -> usize {
        1 + t.kids.as_ref().map(|k| k.iter().map(count).sum()).unwrap_or(0)
    }

    fn nth<'a>(t: &'a mut Tlv, n: &mut usize) -> Option<&'a mut Tlv> {
        if *n == 0 {
            return Some(t);
        }
        *n -= 1;
        if let Some(k) = t.kids.as_mut() {
            for c in k.iter_mut() {
                if let Some(x) = nth(c, n) {
                    return Some(x);
                }
            }
        }
        None
    }

    /// one structure-aware mutation of a DER value; the encoding of the ancestors stays consistent
    pub fn der_mutant(der: &[u8], rng: &mut Rng) -> Option<(Vec<u8>, String)> {
        let mut root = der_parse(der)?;
        let total = count(&root);
        let mut idx = rng.below(total as u64) as usize;
        let at = idx;
        let node = nth(&mut root, &mut idx)?;
        let content_len = match &node.kids {
            Some(k) => k.iter().map(|c| der_enc(c).len()).sum(),
            None => node.prim.len(),
        };
        let kind = rng.below(18);
        let what = match kind {
            0 => {
                node.kids = node.kids.as_ref().map(|_| vec![]);
                node.prim.clear();
                "empty"
            }
            1 => {
                node.len_override = Some(vec![0x80]);
                "indefinite-length"
            }
            2 => {
                node.len_override = Some(vec![0x84, 0xff, 0xff, 0xff, 0xff]);
                "length-4g"
            }
            3 => {
                node.len_override = Some(vec![0x88, 0x7f, 0xff, 0xff, 0xff, 0xff, 0xff, 0xff, 0xff]);
                "length-2^63"
            }
            4 => {
                node.len_override = Some(vec![0x89, 1, 0, 0, 0, 0, 0, 0, 0, 0]);
                "length-9-octets"
            }
            5 => {
                node.len_override = Some(der_len(content_len + 1 + rng.below(300) as usize));
                "length-longer"
            }
            6 => {
                node.len_override = Some(der_len(content_len.saturating_sub(1 + rng.below(4) as usize)));
                "length-shorter"
            }
            7 => {
                let mut l = vec![0x84];
                l.extend((content_len as u32).to_be_bytes());
                node.len_override = Some(l);
                "length-non-minimal"
            }
            8 => {
                node.tag = vec![*rng.pick(&[0x02u8, 0x03, 0x04, 0x05, 0x06, 0x0c, 0x13, 0x17, 0x18, 0x30, 0x31, 0xa0, 0xa3, 0x80, 0x01, 0x0a, 0x00])];
                if node.tag[0] & 0x20 == 0 && node.kids.is_some() {
                    node.prim = node.kids.take().map(|k| k.iter().flat_map(der_enc).collect()).unwrap_or_default();
                }
                "retag"
            }
            9 => {
                node.tag = vec![node.tag[0] | 0x1f, 0xff, 0xff, 0xff, 0xff, 0x7f];
                "high-tag-number"
            }
            10 if node.kids.is_none() => {
                if !node.prim.is_empty() {
                    node.prim[0] = *rng.pick(&[0x80u8, 0xff, 0x00, 0x08, 0x7f]);
                }
                "first-content-byte"
            }
            11 if node.kids.is_none() => {
                let n = node.prim.len();
                node.prim.truncate(rng.below(n as u64 + 1) as usize);
                "truncate-content"
            }
            12 if node.kids.is_none() => {
                let k = *rng.pick(&[1usize, 16, 300, 70_000]);
                node.prim.extend(std::iter::repeat(0xffu8).take(k));
                "extend-content"
            }
            13 if node.kids.is_some() => {
                if let Some(k) = node.kids.as_mut() {
                    if !k.is_empty() {
                        let i = rng.below(k.len() as u64) as usize;
                        k.remove(i);
                    }
                }
                "drop-child"
            }
            14 if node.kids.is_some() => {
                if let Some(k) = node.kids.as_mut() {
                    if !k.is_empty() {
                        let i = rng.below(k.len() as u64) as usize;
                        let c = k[i].clone();
                        let times = *rng.pick(&[1usize, 2, 200]);
                        for _ in 0..times {
                            k.insert(i, c.clone());
                        }
                    }
                }
                "duplicate-child"
            }
            15 => {
                // nest inside `depth` SEQUENCEs (encoded iteratively: the harness itself must not recurse)
                let depth = *rng.pick(&[3usize, 70, 600, 20_000]);
                let mut cur = der_enc(node);
                for _ in 0..depth {
                    let mut w = vec![0x30];
                    w.extend(der_len(cur.len()));
                    w.extend(cur);
                    cur = w;
                }
                // strip the outermost header again: it is re-emitted by the encoder
                let hdr = 1 + der_len(cur.len() - 1 - der_len_len(&cur[1..])).len();
                *node = Tlv { tag: vec![0x30], kids: None, prim: cur[hdr..].to_vec(), len_override: None };
                "deep-nest"
            }
            16 if node.kids.is_some() => {
                if let Some(k) = node.kids.as_mut() {
                    k.reverse();
                }
                "reverse-children"
            }
            _ => {
                // swap this node for random bytes of the same size
                let n = content_len.max(1);
                node.kids = None;
                node.prim = rng.bytes(n);
                "random-content"
            }
        };
        Some((der_enc(&root), format!("der-{what}#{at}")))
    }

    // ---- COSE ----
    pub struct Parts {
        pub tag: Option<u64>,
        pub prot: Vec<(Cv, Cv)>,
        pub unprot: Vec<(Cv, Cv)>,
        pub payload: Cv,
        pub sig: Cv,
    }

    pub fn parts(cose: &[u8]) -> Option<Parts> {
        let v = dec(cose)?;
        let (tag, arr) = match v {
            Cv::Tag(t, inner) => (Some(t), *inner),
            other => (None, other),
        };
        let Cv::Array(a) = arr else { return None };
        if a.len() != 4 {
            return None;
        }
        let prot = match &a[0] {
            Cv::Bytes(b) if b.is_empty() => vec![],
            Cv::Bytes(b) => match dec(b)? {
                Cv::Map(m) => m,
                _ => return None,
            },
            _ => return None,
        };
        let Cv::Map(unprot) = a[1].clone() else { return None };
        Some(Parts { tag, prot, unprot, payload: a[2].clone(), sig: a[3].clone() })
    }

    pub fn build(p: &Parts) -> Cv {
        let arr = Cv::Array(vec![Cv::Bytes(if p.prot.is_empty() { vec![] } else { enc(&Cv::Map(p.prot.clone())) }), Cv::Map(p.unprot.clone()), p.payload.clone(), p.sig.clone()]);
        match p.tag {
            Some(t) => Cv::Tag(t, Box::new(arr)),
            None => arr,
        }
    }

    fn is_key(k: &Cv, n: i64, t: &str) -> bool {
        matches!(k, Cv::Integer(i) if i128::from(*i) == n as i128) || matches!(k, Cv::Text(s) if s == t)
    }

    fn get<'a>(m: &'a [(Cv, Cv)], n: i64, t: &str) -> Option<&'a Cv> {
        m.iter().find(|(k, _)| is_key(k, n, t)).map(|(_, v)| v)
    }

    /// set / replace / remove (`None`) an entry; a new entry uses the integer key when `n != 0`
    fn set(m: &mut Vec<(Cv, Cv)>, n: i64, t: &str, v: Option<Cv>) {
        let pos = m.iter().position(|(k, _)| is_key(k, n, t));
        match (pos, v) {
            (Some(i), Some(v)) => m[i].1 = v,
            (Some(i), None) => {
                m.remove(i);
            }
            (None, Some(v)) => m.push((if n != 0 { int(n) } else { text(t) }, v)),
            (None, None) => {}
        }
    }

    pub fn certs_of(p: &Parts) -> (bool, Vec<Vec<u8>>) {
        let (in_prot, v) = match get(&p.prot, 33, "x5chain") {
            Some(v) => (true, Some(v)),
            None => (false, get(&p.unprot, 33, "x5chain")),
        };
        let certs = match v {
            Some(Cv::Bytes(b)) => vec![b.clone()],
            Some(Cv::Array(a)) => a.iter().filter_map(|c| if let Cv::Bytes(b) = c { Some(b.clone()) } else { None }).collect(),
            _ => vec![],
        };
        (in_prot, certs)
    }

    fn bytes_list(v: &[Vec<u8>]) -> Cv {
        Cv::Array(v.iter().cloned().map(Cv::Bytes).collect())
    }

    /// DER blobs of the time-stamp tokens / OCSP responses in the unprotected header: (header key, inner key, index, bytes)
    fn der_blobs(p: &Parts) -> Vec<(String, String, usize, Vec<u8>)> {
        let mut out = vec![];
        for (hk, ik, vk) in [("sigTst", "tstTokens", Some("val")), ("sigTst2", "tstTokens", Some("val")), ("rVals", "ocspVals", None)] {
            if let Some(Cv::Map(m)) = get(&p.unprot, 0, hk) {
                if let Some(Cv::Array(a)) = get(m, 0, ik) {
                    for (i, e) in a.iter().enumerate() {
                        match (vk, e) {
                            (Some(vk), Cv::Map(em)) => {
                                if let Some(Cv::Bytes(b)) = get(em, 0, vk) {
                                    out.push((hk.to_string(), ik.to_string(), i, b.clone()));
                                }
                            }
                            (None, Cv::Bytes(b)) => out.push((hk.to_string(), ik.to_string(), i, b.clone())),
                            _ => {}
                        }
                    }
                }
            }
        }
        out
    }

    fn put_der_blob(p: &mut Parts, hk: &str, ik: &str, i: usize, b: Vec<u8>) {
        if let Some((_, Cv::Map(m))) = p.unprot.iter_mut().find(|(k, _)| is_key(k, 0, hk)) {
            if let Some((_, Cv::Array(a))) = m.iter_mut().find(|(k, _)| is_key(k, 0, ik)) {
                match a.get_mut(i) {
                    Some(Cv::Map(em)) => set(em, 0, "val", Some(Cv::Bytes(b))),
                    Some(e @ Cv::Bytes(_)) => *e = Cv::Bytes(b),
                    _ => {}
                }
            }
        }
    }

    /// The deterministic list of header-shape mutants of one COSE_Sign1 plus `extra` random
    /// DER mutants of its certificates / tokens. Each entry: (description, mutant structure).
    pub fn mutants(cose: &[u8], rng: &mut Rng, extra: usize) -> Vec<(String, Cv)> {
        let Some(base) = parts(cose) else { return vec![] };
        let (in_prot, certs) = certs_of(&base);
        let c0 = certs.first().cloned().unwrap_or_else(|| vec![0x30, 0x00]);
        let mut out: Vec<(String, Cv)> = vec![];
        let fresh = || parts(cose).expect("parsed before");

        // x5chain shapes
        let chain_vals: Vec<(&str, Cv)> = vec![
            ("empty-array", Cv::Array(vec![])),
            ("empty-bstr", Cv::Bytes(vec![])),
            ("int", int(0)),
            ("text", text("x5chain")),
            ("null", Cv::Null),
            ("bool", Cv::Bool(true)),
            ("float", Cv::Float(1.5)),
            ("empty-map", Cv::Map(vec![])),
            ("array-of-empty-bstr", Cv::Array(vec![Cv::Bytes(vec![])])),
            ("nested-array", Cv::Array(vec![bytes_list(&certs)])),
            ("int-then-cert", Cv::Array(vec![int(1), Cv::Bytes(c0.clone())])),
            ("cert-then-text", Cv::Array(vec![Cv::Bytes(c0.clone()), text("x")])),
            ("array-of-int", Cv::Array(vec![int(1)])),
            ("array-of-null", Cv::Array(vec![Cv::Null, Cv::Null])),
            ("10000-empty-bstr", Cv::Array(vec![Cv::Bytes(vec![]); 10_000])),
            ("leaf-x60", Cv::Array(vec![Cv::Bytes(c0.clone()); 60])),
            ("single-bstr", Cv::Bytes(c0.clone())),
            ("single-in-array", Cv::Array(vec![Cv::Bytes(c0.clone())])),
            ("leaf-truncated", Cv::Array(vec![Cv::Bytes(c0[..c0.len() / 2].to_vec())])),
            ("leaf-one-byte", Cv::Array(vec![Cv::Bytes(vec![0x30])])),
            ("tagged-bstr", Cv::Tag(24, Box::new(Cv::Bytes(c0.clone())))),
            ("deep-nest-300", nest(Cv::Bytes(c0.clone()), 300)),
            ("reversed", bytes_list(&certs.iter().rev().cloned().collect::<Vec<_>>())),
            ("no-leaf", bytes_list(&certs.iter().skip(1).cloned().collect::<Vec<_>>())),
        ];
        for (name, v) in chain_vals {
            for place in ["same", "other", "both"] {
                let mut p = fresh();
                let (a, b) = if in_prot { (&mut p.prot, &mut p.unprot) } else { (&mut p.unprot, &mut p.prot) };
                match place {
                    "same" => set(a, 33, "x5chain", Some(v.clone())),
                    "other" => {
                        set(a, 33, "x5chain", None);
                        set(b, 33, "x5chain", Some(v.clone()));
                    }
                    _ => set(b, 33, "x5chain", Some(v.clone())),
                }
                out.push((format!("x5chain={name}@{place}"), build(&p)));
            }
        }
        {
            let mut p = fresh();
            set(&mut p.prot, 33, "x5chain", None);
            set(&mut p.unprot, 33, "x5chain", None);
            out.push(("x5chain-removed".into(), build(&p)));
            // the legacy text key
            let mut p = fresh();
            set(&mut p.prot, 33, "x5chain", None);
            p.unprot.push((text("x5chain"), Cv::Array(vec![])));
            out.push(("x5chain-text-key=empty-array".into(), build(&p)));
        }
        // alg
        for (name, v) in [
            ("removed", None),
            ("text", Some(text("ES256"))),
            ("i64max", Some(int(i64::MAX))),
            ("i64min", Some(int(i64::MIN))),
            ("zero", Some(int(0))),
            ("array", Some(Cv::Array(vec![]))),
            ("bstr", Some(Cv::Bytes(vec![1]))),
            ("null", Some(Cv::Null)),
            ("es256", Some(int(-7))),
            ("eddsa", Some(int(-8))),
            ("es384", Some(int(-35))),
            ("es512", Some(int(-36))),
            ("ps256", Some(int(-37))),
            ("ps512", Some(int(-39))),
            ("rs256", Some(int(-257))),
        ] {
            let mut p = fresh();
            set(&mut p.prot, 1, "alg", v);
            out.push((format!("alg={name}"), build(&p)));
        }
        // the protected header container
        let prot_map = Cv::Map(base.prot.clone());
        let mut garbage = enc(&prot_map);
        garbage.extend_from_slice(&[0xff, 0x00, 0x9f]);
        let mut dup = base.prot.clone();
        dup.extend(base.prot.clone());
        let many: Vec<(Cv, Cv)> = (0..3000).map(|i| (int(1000 + i), int(i))).collect();
        for (name, v) in [
            ("empty-bstr", Cv::Bytes(vec![])),
            ("bstr-of-array", Cv::Bytes(enc(&Cv::Array(vec![])))),
            ("bstr-of-int", Cv::Bytes(enc(&int(1)))),
            ("bstr-with-trailing-garbage", Cv::Bytes(garbage)),
            ("map-not-bstr", prot_map.clone()),
            ("duplicate-keys", Cv::Bytes(enc(&Cv::Map(dup)))),
            ("bstr-of-break", Cv::Bytes(vec![0xff])),
            ("bstr-of-truncated-map", Cv::Bytes(vec![0xbf, 0x01])),
            ("3000-entries", Cv::Bytes(enc(&Cv::Map(many)))),
            ("null", Cv::Null),
            ("bstr-of-nested", Cv::Bytes(enc(&nest(int(1), 200)))),
        ] {
            let mut a = match build(&fresh()) {
                Cv::Tag(_, inner) => *inner,
                other => other,
            };
            if let Cv::Array(items) = &mut a {
                items[0] = v;
            }
            out.push((format!("protected={name}"), Cv::Tag(18, Box::new(a))));
        }
        // unprotected header entries
        let tok = |v: Cv| Cv::Map(vec![(text("tstTokens"), v)]);
        let ocsp = |v: Cv| Cv::Map(vec![(text("ocspVals"), v)]);
        let noise = rng.bytes(120);
        let shapes: Vec<(&str, Cv)> = vec![
            ("int", int(5)),
            ("empty-array", Cv::Array(vec![])),
            ("empty-map", Cv::Map(vec![])),
            ("null", Cv::Null),
            ("text", text("x")),
            ("bstr", Cv::Bytes(vec![0x30, 0x00])),
            ("tokens-empty", tok(Cv::Array(vec![]))),
            ("tokens-int", tok(int(5))),
            ("tokens-map", tok(Cv::Map(vec![]))),
            ("tokens-of-empty-map", tok(Cv::Array(vec![Cv::Map(vec![])]))),
            ("tokens-of-int", tok(Cv::Array(vec![int(1)]))),
            ("token-val-empty", tok(Cv::Array(vec![Cv::Map(vec![(text("val"), Cv::Bytes(vec![]))])]))),
            ("token-val-int", tok(Cv::Array(vec![Cv::Map(vec![(text("val"), int(1))])]))),
            ("token-val-noise", tok(Cv::Array(vec![Cv::Map(vec![(text("val"), Cv::Bytes(noise.clone()))])]))),
            ("token-val-seq", tok(Cv::Array(vec![Cv::Map(vec![(text("val"), Cv::Bytes(vec![0x30, 0x03, 0x02, 0x01, 0x00]))])]))),
            ("tokens-x2000", tok(Cv::Array(vec![Cv::Map(vec![(text("val"), Cv::Bytes(vec![0x30, 0x00]))]); 2000]))),
            ("ocsp-empty", ocsp(Cv::Array(vec![]))),
            ("ocsp-int", ocsp(int(5))),
            ("ocsp-of-empty-bstr", ocsp(Cv::Array(vec![Cv::Bytes(vec![])]))),
            ("ocsp-of-int", ocsp(Cv::Array(vec![int(1)]))),
            ("ocsp-noise", ocsp(Cv::Array(vec![Cv::Bytes(noise.clone())]))),
            ("ocsp-seq", ocsp(Cv::Array(vec![Cv::Bytes(vec![0x30, 0x03, 0x0a, 0x01, 0x00])]))),
            ("deep-nest", nest(int(1), 250)),
        ];
        for key in ["sigTst", "sigTst2", "rVals", "pad", "pad2"] {
            for (name, v) in &shapes {
                let mut p = fresh();
                set(&mut p.unprot, 0, key, Some(v.clone()));
                out.push((format!("{key}={name}"), build(&p)));
            }
            let mut p = fresh();
            set(&mut p.unprot, 0, key, None);
            out.push((format!("{key}-removed"), build(&p)));
        }
        for (name, v) in [("huge", Cv::Bytes(vec![0u8; 3_000_000])), ("nonzero", Cv::Bytes(vec![1u8; 40])), ("one", Cv::Bytes(vec![0]))] {
            let mut p = fresh();
            set(&mut p.unprot, 0, "pad", Some(v));
            out.push((format!("pad={name}"), build(&p)));
        }
        // unknown / critical header parameters
        for (name, k, v) in [("crit", int(2), Cv::Array(vec![int(99)])), ("crit-empty", int(2), Cv::Array(vec![])), ("crit-int", int(2), int(1)), ("content-type", int(3), Cv::Array(vec![])), ("kid", int(4), int(1)), ("iv", int(5), Cv::Bytes(vec![])), ("counter-signature", int(7), Cv::Array(vec![]))] {
            let mut p = fresh();
            p.prot.push((k.clone(), v.clone()));
            out.push((format!("protected+{name}"), build(&p)));
            let mut p = fresh();
            p.unprot.push((k, v));
            out.push((format!("unprotected+{name}"), build(&p)));
        }
        // payload / signature / arity / tags / top level
        for (name, v) in [("empty-bstr", Cv::Bytes(vec![])), ("bstr", Cv::Bytes(b"payload".to_vec())), ("int", int(1)), ("array", Cv::Array(vec![])), ("big", Cv::Bytes(vec![7u8; 200_000]))] {
            let mut p = fresh();
            p.payload = v;
            out.push((format!("payload={name}"), build(&p)));
        }
        for (name, v) in [("empty", Cv::Bytes(vec![])), ("null", Cv::Null), ("int", int(1)), ("one-byte", Cv::Bytes(vec![0])), ("text", text("sig")), ("10000", Cv::Bytes(vec![0x5a; 10_000])), ("array", Cv::Array(vec![]))] {
            let mut p = fresh();
            p.sig = v;
            out.push((format!("signature={name}"), build(&p)));
        }
        if let Cv::Bytes(sig) = &base.sig {
            for k in [1usize, 2, 31, 32, 33, 63, 65, 66, 96, 131, 132, 133] {
                let mut p = fresh();
                p.sig = Cv::Bytes(sig.iter().copied().cycle().take(k).collect());
                out.push((format!("signature-len={k}"), build(&p)));
            }
        }
        let arr = |p: &Parts| match build(p) {
            Cv::Tag(_, inner) => *inner,
            other => other,
        };
        let a4 = arr(&fresh());
        if let Cv::Array(items) = &a4 {
            for (name, v) in [
                ("arity-3", Cv::Array(items[..3].to_vec())),
                ("arity-5", Cv::Array(items.iter().cloned().chain([Cv::Null]).collect())),
                ("arity-0", Cv::Array(vec![])),
                ("arity-1", Cv::Array(items[..1].to_vec())),
                ("top-map", Cv::Map(vec![])),
                ("top-int", int(18)),
                ("top-bstr", Cv::Bytes(enc(&a4))),
                ("top-null", Cv::Null),
            ] {
                out.push((name.to_string(), Cv::Tag(18, Box::new(v.clone()))));
                out.push((format!("{name}-untagged"), v));
            }
        }
        for (name, v) in [
            ("untagged", a4.clone()),
            ("tag-98", Cv::Tag(98, Box::new(a4.clone()))),
            ("tag-17", Cv::Tag(17, Box::new(a4.clone()))),
            ("tag-18-18", Cv::Tag(18, Box::new(Cv::Tag(18, Box::new(a4.clone()))))),
            ("tag-24-bstr", Cv::Tag(24, Box::new(Cv::Bytes(enc(&a4))))),
            ("tag-55799-18", Cv::Tag(55799, Box::new(Cv::Tag(18, Box::new(a4.clone()))))),
            ("tag-x300", (0..300).fold(a4.clone(), |acc, _| Cv::Tag(18, Box::new(acc)))),
        ] {
            out.push((name.to_string(), v));
        }
        // DER mutants of the certificates and of the time-stamp / OCSP blobs
        let blobs = der_blobs(&base);
        for _ in 0..extra {
            let pick_blob = !blobs.is_empty() && rng.chance(1, 3);
            if pick_blob {
                let (hk, ik, i, b) = rng.pick(&blobs).clone();
                if let Some((m, what)) = der_mutant(&b, rng) {
                    let mut p = fresh();
                    put_der_blob(&mut p, &hk, &ik, i, m);
                    out.push((format!("{hk}[{i}]:{what}"), build(&p)));
                }
            } else if !certs.is_empty() {
                let ci = rng.below(certs.len() as u64) as usize;
                if let Some((m, what)) = der_mutant(&certs[ci], rng) {
                    let mut cs = certs.clone();
                    cs[ci] = m;
                    let mut p = fresh();
                    let v = if cs.len() == 1 && rng.chance(1, 2) { Cv::Bytes(cs[0].clone()) } else { bytes_list(&cs) };
                    if in_prot {
                        set(&mut p.prot, 33, "x5chain", Some(v));
                    } else {
                        set(&mut p.unprot, 33, "x5chain", Some(v));
                    }
                    out.push((format!("cert[{ci}]:{what}"), build(&p)));
                }
            }
        }
        out
    }

    /// Encode `v` in exactly `target` bytes by growing / shrinking the unprotected `pad` entry
    /// (what the SDK itself does to fit a signature into its reserved box).
    pub fn fit(v: &Cv, target: usize) -> Option<Vec<u8>> {
        let (tag, arr) = match v {
            Cv::Tag(t, inner) => (Some(*t), (**inner).clone()),
            other => (None, other.clone()),
        };
        let Cv::Array(mut items) = arr else { return None };
        if items.len() < 2 {
            return None;
        }
        let Cv::Map(mut un) = items[1].clone() else { return None };
        let wrap = |items: &Vec<Cv>| match tag {
            Some(t) => Cv::Tag(t, Box::new(Cv::Array(items.clone()))),
            None => Cv::Array(items.clone()),
        };
        for _ in 0..6 {
            items[1] = Cv::Map(un.clone());
            let cur = enc(&wrap(&items)).len();
            if cur == target {
                return Some(enc(&wrap(&items)));
            }
            let pos = un.iter().position(|(k, _)| matches!(k, Cv::Text(s) if s == "pad"));
            match pos {
                Some(i) => {
                    let Cv::Bytes(p) = &un[i].1 else { return None };
                    let want = (p.len() as i64) + target as i64 - cur as i64;
                    if want < 0 {
                        return None;
                    }
                    un[i].1 = Cv::Bytes(vec![0u8; want as usize]);
                }
                None => {
                    if target < cur + 6 {
                        return None;
                    }
                    un.push((Cv::Text("pad".into()), Cv::Bytes(vec![0u8; target - cur - 5])));
                }
            }
        }
        None
    }
}

/// (manifest index, box index inside the manifest, COSE bytes) of every signature box of a store
fn signature_boxes(store: &[u8]) -> Vec<(usize, usize, Vec<u8>)> {
    let mut out = vec![];
    if let Some((_, manifests)) = jb::split(store) {
        for (mi, m) in manifests.iter().enumerate() {
            if let Some((_, kids)) = jb::split(m) {
                for (ki, k) in kids.iter().enumerate() {
                    if let Some((d, inner)) = jb::split(k) {
                        if &jb::kind(&d) == b"c2cs" && inner.len() == 1 && inner[0].len() > 8 && &inner[0][4..8] == b"cbor" {
                            out.push((mi, ki, inner[0][8..].to_vec()));
                        }
                    }
                }
            }
        }
    }
    out
}

/// the store with one signature replaced (all enclosing box sizes rebuilt)
fn with_signature(store: &[u8], mi: usize, ki: usize, cose: &[u8]) -> Option<Vec<u8>> {
    let (top, mut manifests) = jb::split(store)?;
    let (mj, mut kids) = jb::split(manifests.get(mi)?)?;
    let (sj, _) = jb::split(kids.get(ki)?)?;
    kids[ki] = jb::join(&sj, &[jb::boxed(b"cbor", &[cose])]);
    manifests[mi] = jb::join(&mj, &kids);
    Some(jb::join(&top, &manifests))
}

fn find_sub(hay: &[u8], needle: &[u8]) -> Option<usize> {
    if needle.is_empty() || needle.len() > hay.len() {
        return None;
    }
    hay.windows(needle.len()).position(|w| w == needle)
}

/// Structure-aware ID3v2 mutants (tag header, frame headers, GEOB frame fields).
fn id3_mutants(d: &[u8]) -> Vec<(String, Vec<u8>)> {
    let mut out = vec![];
    if d.len() < 20 || &d[..3] != b"ID3" {
        return out;
    }
    let syncsafe = |b: &[u8]| ((b[0] as usize & 0x7f) << 21) | ((b[1] as usize & 0x7f) << 14) | ((b[2] as usize & 0x7f) << 7) | (b[3] as usize & 0x7f);
    let put_syncsafe = |v: usize| [((v >> 21) & 0x7f) as u8, ((v >> 14) & 0x7f) as u8, ((v >> 7) & 0x7f) as u8, (v & 0x7f) as u8];
    let major = d[3];
    let tag_size = syncsafe(&d[6..10]);
    let mut with = |what: String, f: &dyn Fn(&mut Vec<u8>)| {
        let mut m = d.to_vec();
        f(&mut m);
        out.push((what, m));
    };
    // tag header
    for v in [0usize, 1, 9, 10, 11, tag_size.saturating_sub(1), tag_size + 1, tag_size / 2, d.len(), d.len() + 1, 0x0fff_ffff] {
        with(format!("id3-tag-size={v}"), &|m| m[6..10].copy_from_slice(&put_syncsafe(v)));
    }
    for raw in [[0xffu8, 0xff, 0xff, 0xff], [0x80, 0, 0, 0], [0, 0, 0, 0x80], [0x7f, 0xff, 0x7f, 0xff]] {
        with(format!("id3-tag-size-raw={:02x}{:02x}{:02x}{:02x}", raw[0], raw[1], raw[2], raw[3]), &|m| m[6..10].copy_from_slice(&raw));
    }
    for v in [0u8, 1, 2, 3, 4, 5, 0x7f, 0xff] {
        with(format!("id3-major={v}"), &|m| m[3] = v);
        with(format!("id3-revision={v}"), &|m| m[4] = v);
    }
    for bit in 0..8 {
        with(format!("id3-flag-bit{bit}"), &|m| m[5] ^= 1 << bit);
    }
    with("id3-flags=ff".into(), &|m| m[5] = 0xff);
    // extended header announced, with sizes that do not fit
    for ext in [[0u8, 0, 0, 0], [0, 0, 0, 1], [0x7f, 0x7f, 0x7f, 0x7f], [0xff, 0xff, 0xff, 0xff], [0, 0, 0, 6]] {
        with(format!("id3-ext-header={:02x}{:02x}{:02x}{:02x}", ext[0], ext[1], ext[2], ext[3]), &|m| {
            m[5] |= 0x40;
            m.splice(10..10, ext.iter().copied().chain([0u8, 0, 0, 0, 0, 0]));
        });
    }
    // frames
    let end = (10 + tag_size).min(d.len());
    let mut i = 10;
    let mut k = 0;
    while i + 10 <= end && k < 10 {
        let id = &d[i..i + 4];
        if id.iter().all(|b| *b == 0) {
            break;
        }
        let fsize = if major >= 4 { syncsafe(&d[i + 4..i + 8]) } else { u32::from_be_bytes([d[i + 4], d[i + 5], d[i + 6], d[i + 7]]) as usize };
        let rest = end - (i + 10);
        let name = String::from_utf8_lossy(id).to_string();
        for v in [0usize, 1, 2, fsize.saturating_sub(1), fsize + 1, rest, rest + 1, rest.saturating_sub(1), 0x0fff_ffff] {
            with(format!("id3-frame{k}({name})-size={v}"), &|m| {
                let b = if major >= 4 { put_syncsafe(v) } else { (v as u32).to_be_bytes() };
                m[i + 4..i + 8].copy_from_slice(&b);
            });
        }
        with(format!("id3-frame{k}({name})-size-raw=ffffffff"), &|m| m[i + 4..i + 8].copy_from_slice(&[0xff; 4]));
        for fl in [[0xffu8, 0xff], [0x00, 0x80], [0x00, 0x40], [0x00, 0x08], [0x00, 0x04], [0x00, 0x02], [0x00, 0x01], [0x00, 0x0f], [0x80, 0x00], [0x00, 0xc0]] {
            with(format!("id3-frame{k}({name})-flags={:02x}{:02x}", fl[0], fl[1]), &|m| m[i + 8..i + 10].copy_from_slice(&fl));
        }
        for idv in [[0u8; 4], [0xff; 4], *b"geob", *b"GEO\0", *b"TIT2", *b"APIC", *b"PRIV", *b"XXXX"] {
            with(format!("id3-frame{k}({name})-id={:02x}{:02x}{:02x}{:02x}", idv[0], idv[1], idv[2], idv[3]), &|m| m[i..i + 4].copy_from_slice(&idv));
        }
        if id == b"GEOB" && fsize > 8 && i + 10 + 8 <= d.len() {
            for enc in 0u8..6 {
                with(format!("id3-geob{k}-encoding={enc}"), &|m| m[i + 10] = enc);
            }
            with(format!("id3-geob{k}-no-terminators"), &|m| {
                let to = (i + 10 + 200).min(m.len()).min(i + 10 + fsize);
                for b in m[i + 11..to].iter_mut() {
                    if *b == 0 {
                        *b = b'A';
                    }
                }
            });
            with(format!("id3-geob{k}-utf16-odd"), &|m| {
                m[i + 10] = 1;
                m[i + 11] = 0xff;
                m[i + 12] = 0xfe;
            });
            with(format!("id3-geob{k}-duplicated"), &|m| {
                let to = (i + 10 + fsize).min(m.len());
                let copy = m[i..to].to_vec();
                m.splice(to..to, copy);
            });
            with(format!("id3-geob{k}-truncated-after-header"), &|m| m.truncate(i + 11));
        }
        if fsize == 0 || i + 10 + fsize > end {
            break;
        }
        i += 10 + fsize;
        k += 1;
    }
    out
}

// ---------------------------------------------------------------------------------------------
// small synthetic containers built from scratch

/// "Plausible inner headers": the byte strings the handlers look for inside a carrier
/// (box / chunk / segment / frame). Every prefix of them is used as a payload.
fn inner_blobs() -> Vec<(&'static str, Vec<u8>)> {
    let c2pa_jumd = jb::jumd(b"c2pa", "c2pa");
    let manifest = jb::join(&jb::jumd(b"c2ma", "urn:c2pa:6f1d2c3a-5b7e-4c1d-9a2b-3c4d5e6f7a8b"), &[jb::join(&jb::jumd(b"c2as", "c2pa.assertions"), &[])]);
    // content of a `jumb` box: description box first
    let mut jumb_content = c2pa_jumd.clone();
    jumb_content.extend(&manifest);
    let jumb_box = jb::boxed(b"jumb", &[&jumb_content]);
    // BMFF `uuid` box content for C2PA
    let mut bmff_uuid = vec![0xd8u8, 0xfe, 0xc3, 0xd6, 0x1b, 0x0e, 0x48, 0x3c, 0x92, 0x97, 0x58, 0x28, 0x87, 0x7e, 0xc4, 0x81];
    bmff_uuid.extend([0u8, 0, 0, 0]);
    bmff_uuid.extend(b"manifest\0");
    bmff_uuid.extend(0u64.to_be_bytes());
    bmff_uuid.extend(&jumb_box);
    // JPEG APP11 payload: CI "JP", instance, sequence number, then the box
    let mut app11 = b"JP".to_vec();
    app11.extend([0u8, 1, 0, 0, 0, 1]);
    app11.extend(&jumb_box);
    // ID3 GEOB frame content
    let mut geob = vec![0u8];
    geob.extend(b"application/x-c2pa-manifest-store\0c2pa\0c2pa manifest store\0");
    geob.extend(&jumb_box);
    // JXL `brob` content: wrapped type then a brotli stream
    let mut brob = b"jumb".to_vec();
    let mut comp = Vec::new();
    let params = brotli::enc::BrotliEncoderParams { quality: 5, ..Default::default() };
    let _ = brotli::BrotliCompress(&mut Cursor::new(&jumb_content), &mut comp, &params);
    brob.extend(comp);
    let mut xmp = br#"<?xpacket begin="" id="W5M0MpCehiHzreSzNTczkc9d"?><x:xmpmeta xmlns:x="adobe:ns:meta/"><rdf:RDF xmlns:rdf="http://www.w3.org/1999/02/22-rdf-syntax-ns#"><rdf:Description rdf:about="" xmlns:dcterms="http://purl.org/dc/terms/" dcterms:provenance="self#jumbf=c2pa/x"/></rdf:RDF></x:xmpmeta>"#.to_vec();
    xmp.truncate(120);
    let mut app1 = b"http://ns.adobe.com/xap/1.0/\0".to_vec();
    app1.extend(&xmp);
    vec![("jumb-content", jumb_content), ("jumb-box", jumb_box), ("bmff-c2pa-uuid", bmff_uuid), ("app11-jp", app11), ("geob", geob), ("brob-jumb", brob), ("xmp", xmp), ("app1-xmp", app1)]
}

/// A minimal container of `fmt` with one carrier of kind `carrier` holding exactly `payload`.
fn synth_container(fmt: &str, carrier: &str, payload: &[u8]) -> Option<Vec<u8>> {
    let bx = |t: &[u8; 4], parts: &[&[u8]]| jb::boxed(t, parts);
    Some(match fmt {
        "image/jxl" => {
            let mut v = vec![0, 0, 0, 0x0c, b'J', b'X', b'L', b' ', 0x0d, 0x0a, 0x87, 0x0a];
            v.extend(bx(b"ftyp", &[b"jxl \0\0\0\0jxl "]));
            let t: [u8; 4] = carrier.as_bytes().try_into().ok()?;
            v.extend(bx(&t, &[payload]));
            v.extend(bx(b"jxlc", &[&[0xff, 0x0a, 0, 0]]));
            v
        }
        "video/mp4" | "image/heic" | "image/avif" => {
            let brand: &[u8] = match fmt {
                "image/heic" => b"heic\0\0\0\0mif1heic",
                "image/avif" => b"avif\0\0\0\0mif1avif",
                _ => b"isom\0\0\x02\0isomiso2mp41",
            };
            let mut v = bx(b"ftyp", &[brand]);
            let t: [u8; 4] = carrier.as_bytes().try_into().ok()?;
            v.extend(bx(&t, &[payload]));
            v.extend(bx(b"mdat", &[&[0u8; 8]]));
            v
        }
        "image/png" => {
            let chunk = |t: &[u8], d: &[u8]| {
                let mut v = (d.len() as u32).to_be_bytes().to_vec();
                v.extend(t);
                v.extend(d);
                let mut crc_in = t.to_vec();
                crc_in.extend(d);
                v.extend(crc32(&crc_in).to_be_bytes());
                v
            };
            let mut v = b"\x89PNG\r\n\x1a\n".to_vec();
            v.extend(chunk(b"IHDR", &[0, 0, 0, 1, 0, 0, 0, 1, 8, 0, 0, 0, 0]));
            v.extend(chunk(carrier.as_bytes(), payload));
            v.extend(chunk(b"IDAT", &[0x78, 0x9c, 0x63, 0x00, 0x00, 0x00, 0x01, 0x00, 0x01]));
            v.extend(chunk(b"IEND", &[]));
            v
        }
        "image/jpeg" => {
            if payload.len() > 65_533 {
                return None;
            }
            let marker = u8::from_str_radix(carrier, 16).ok()?;
            let mut v = vec![0xff, 0xd8, 0xff, marker];
            v.extend(((payload.len() + 2) as u16).to_be_bytes());
            v.extend(payload);
            v.extend([0xff, 0xd9]);
            v
        }
        "image/webp" | "audio/wav" | "video/avi" => {
            let form: &[u8; 4] = match fmt {
                "image/webp" => b"WEBP",
                "audio/wav" => b"WAVE",
                _ => b"AVI ",
            };
            let mut body = form.to_vec();
            body.extend(carrier.as_bytes());
            body.extend((payload.len() as u32).to_le_bytes());
            body.extend(payload);
            if payload.len() % 2 == 1 {
                body.push(0);
            }
            let mut v = b"RIFF".to_vec();
            v.extend((body.len() as u32).to_le_bytes());
            v.extend(body);
            v
        }
        "image/gif" => {
            let mut v = b"GIF89a".to_vec();
            v.extend([1, 0, 1, 0, 0, 0, 0]);
            v.extend([0x21, 0xff, 0x0b]);
            v.extend(carrier.as_bytes().iter().take(11));
            for c in payload.chunks(255) {
                v.push(c.len() as u8);
                v.extend(c);
            }
            v.push(0);
            v.extend([0x2c, 0, 0, 0, 0, 1, 0, 1, 0, 0, 2, 2, 0x44, 1, 0, 0x3b]);
            v
        }
        "image/tiff" => {
            let tag = u16::from_str_radix(carrier, 16).ok()?;
            let mut v = b"II*\0".to_vec();
            v.extend(8u32.to_le_bytes());
            v.extend(1u16.to_le_bytes());
            v.extend(tag.to_le_bytes());
            v.extend(7u16.to_le_bytes());
            v.extend((payload.len() as u32).to_le_bytes());
            if payload.len() <= 4 {
                let mut inl = payload.to_vec();
                inl.resize(4, 0);
                v.extend(inl);
            } else {
                v.extend(26u32.to_le_bytes());
            }
            v.extend(0u32.to_le_bytes());
            if payload.len() > 4 {
                v.extend(payload);
            }
            v
        }
        "audio/mpeg" | "audio/flac" => {
            let mut frame = carrier.as_bytes().to_vec();
            frame.extend((payload.len() as u32).to_be_bytes());
            frame.extend([0, 0]);
            frame.extend(payload);
            let n = frame.len();
            let mut v = b"ID3\x03\0\0".to_vec();
            v.extend([((n >> 21) & 0x7f) as u8, ((n >> 14) & 0x7f) as u8, ((n >> 7) & 0x7f) as u8, (n & 0x7f) as u8]);
            v.extend(frame);
            if fmt == "audio/flac" {
                v.extend(b"fLaC\x80\0\0\x22");
                v.extend([0u8; 34]);
            } else {
                v.extend([0xff, 0xfb, 0x90, 0x00]);
                v.extend([0u8; 64]);
            }
            v
        }
        "image/svg+xml" => {
            const B64: &[u8; 64] = b"ABCDEFGHIJKLMNOPQRSTUVWXYZabcdefghijklmnopqrstuvwxyz0123456789+/";
            let mut b = String::new();
            for c in payload.chunks(3) {
                let n = (c[0] as u32) << 16 | (*c.get(1).unwrap_or(&0) as u32) << 8 | *c.get(2).unwrap_or(&0) as u32;
                for k in 0..4 {
                    if k <= c.len() {
                        b.push(B64[((n >> (18 - 6 * k)) & 63) as usize] as char);
                    } else {
                        b.push('=');
                    }
                }
            }
            format!("<svg xmlns=\"http://www.w3.org/2000/svg\" xmlns:c2pa=\"http://c2pa.org/manifest\"><metadata><{carrier}>{b}</{carrier}></metadata></svg>").into_bytes()
        }
        "application/c2pa" => payload.to_vec(),
        _ => return None,
    })
}

/// (format, carriers) of the synthetic containers
const SYNTH: [(&str, &[&str]); 15] = [
    ("image/jxl", &["jumb", "brob", "xml ", "Exif", "uuid"]),
    ("video/mp4", &["uuid", "moov", "meta", "free", "moof"]),
    ("image/heic", &["uuid", "meta"]),
    ("image/avif", &["uuid", "meta"]),
    ("image/png", &["caBX", "iTXt"]),
    ("image/jpeg", &["eb", "e1", "e2"]),
    ("image/webp", &["C2PA", "XMP ", "VP8X", "EXIF"]),
    ("audio/wav", &["C2PA", "LIST", "fmt "]),
    ("video/avi", &["C2PA", "LIST"]),
    ("image/gif", &["C2PA_GIF\x01\0\0", "XMP DataXMP"]),
    ("image/tiff", &["cd41", "02bc", "014a"]),
    ("audio/mpeg", &["GEOB", "PRIV", "TIT2"]),
    ("audio/flac", &["GEOB"]),
    ("image/svg+xml", &["c2pa:manifest"]),
    ("application/c2pa", &["-"]),
];

// ---------------------------------------------------------------------------------------------
// structure-aware label / URI mutation (same length, in place: works inside every container)

/// (offset, length) of every JUMBF description-box label in `d`
fn jumd_labels(d: &[u8]) -> Vec<(usize, usize)> {
    let mut out = vec![];
    let mut i = 4;
    while i + 22 <= d.len() {
        if &d[i..i + 4] == b"jumd" {
            let size = be32(d, i - 4) as usize;
            if (25..=2000).contains(&size) && i - 4 + size <= d.len() && d[i + 20] & 2 != 0 {
                let from = i + 21;
                let end = i - 4 + size;
                if let Some(n) = d[from..end].iter().position(|b| *b == 0) {
                    if n >= 1 && d[from..from + n].iter().all(|b| (0x20..0x7f).contains(b)) {
                        out.push((from, n));
                    }
                }
            }
        }
        i += 1;
    }
    out
}

/// Same-length hostile spellings of a label: multi-byte UTF-8 characters (2, 3, 4 bytes) at the
/// start / middle / end of every `.`-, `/`- and `__`-separated component, dots, version and
/// instance suffixes of the wrong shape, upper case, invalid UTF-8.
fn label_rewrites(label: &[u8]) -> Vec<(String, Vec<u8>)> {
    let n = label.len();
    let mut out: Vec<(String, Vec<u8>)> = vec![];
    // component ranges
    let mut comps = vec![];
    let mut s = 0;
    let mut i = 0;
    while i <= n {
        let sep = if i == n {
            1
        } else if label[i] == b'.' || label[i] == b'/' {
            1
        } else if i + 1 < n && label[i] == b'_' && label[i + 1] == b'_' {
            2
        } else {
            0
        };
        if sep > 0 {
            if i > s {
                comps.push((s, i));
            }
            s = i + sep;
            i += sep;
        } else {
            i += 1;
        }
    }
    let chars: [(&str, &[u8]); 3] = [("2b", "é".as_bytes()), ("3b", "€".as_bytes()), ("4b", "😀".as_bytes())];
    for (ci, (a, b)) in comps.iter().enumerate() {
        let len = b - a;
        for (w, ch) in chars {
            if ch.len() > len {
                continue;
            }
            for (pos, at) in [("start", *a), ("middle", a + (len - ch.len()) / 2), ("end", b - ch.len())] {
                let mut m = label.to_vec();
                m[at..at + ch.len()].copy_from_slice(ch);
                out.push((format!("comp{ci}-{pos}-{w}"), m));
            }
        }
    }
    let mut tail = |name: &str, t: &[u8]| {
        if t.len() <= n {
            let mut m = label.to_vec();
            m[n - t.len()..].copy_from_slice(t);
            out.push((format!("tail={name}"), m));
        }
    };
    for (name, t) in [
        ("dot", &b"."[..]), ("dot-v", b".v"), ("dot-v1", b".v1"), ("dot-vx", b".vx"), ("dot-v-2b", ".v\u{e9}".as_bytes()), ("dot-2b", ".\u{e9}".as_bytes()), ("dot-4b", ".\u{1f600}".as_bytes()),
        ("dot-v-huge", b".v99999999999999999999"), ("uu", b"__"), ("uu-x", b"__x"), ("uu-1", b"__1"), ("uu-2b", "__\u{e9}".as_bytes()), ("uu-huge", b"__99999999999999999999"),
        ("bad-utf8", &[0xff]), ("lone-continuation", &[0x80]), ("truncated-4b", &[0xf0, 0x9f]), ("slash", b"/"), ("nul-x", &[0, b'x']),
    ] {
        tail(name, t);
    }
    let mut head = |name: &str, t: &[u8]| {
        if t.len() <= n {
            let mut m = label.to_vec();
            m[..t.len()].copy_from_slice(t);
            out.push((format!("head={name}"), m));
        }
    };
    for (name, t) in [("dot", &b"."[..]), ("uu", b"__"), ("2b", "\u{e9}".as_bytes()), ("4b", "\u{1f600}".as_bytes()), ("slash", b"/"), ("v1", b"v1."), ("bad-utf8", &[0xc3])] {
        head(name, t);
    }
    out.push(("upper".into(), label.to_ascii_uppercase()));
    out.push(("all-dots".into(), vec![b'.'; n]));
    out.push(("all-2b".into(), "\u{e9}".as_bytes().iter().copied().cycle().take(n - n % 2).chain(std::iter::repeat(b'x').take(n % 2)).collect()));
    out.retain(|(_, m)| m.len() == n && m != label);
    out
}

/// (description, mutant) for one seed: each distinct label rewritten in its description box(es)
/// and in the URIs that name it (`/label` elsewhere in the data) — consistently, label only, URIs only.
fn label_mutants(d: &[u8], keep: &mut dyn FnMut(usize, bool) -> bool) -> Vec<(String, Vec<u8>)> {
    let mut out = vec![];
    let all = jumd_labels(d);
    let mut seen: Vec<&[u8]> = vec![];
    let mut j = 0usize;
    for (off, n) in &all {
        let label = &d[*off..*off + *n];
        if seen.contains(&label) {
            continue;
        }
        seen.push(label);
        let boxes: Vec<usize> = all.iter().filter(|(o, l)| l == n && &d[*o..*o + *l] == label).map(|(o, _)| *o).collect();
        let mut uris = vec![];
        let mut p = 1;
        while p + n <= d.len() {
            if d[p - 1] == b'/' && &d[p..p + n] == label && !boxes.contains(&p) {
                uris.push(p);
            }
            p += 1;
        }
        let name = String::from_utf8_lossy(label).to_string();
        for (what, m) in label_rewrites(label) {
            for (mode, in_box, in_uri) in [("both", true, true), ("box", true, false), ("uri", false, true)] {
                if in_uri && !in_box && uris.is_empty() {
                    continue;
                }
                j += 1;
                if !keep(j, mode == "both" && what.contains("start-2b")) {
                    continue;
                }
                let mut x = d.to_vec();
                if in_box {
                    for o in &boxes {
                        x[*o..*o + n].copy_from_slice(&m);
                    }
                }
                if in_uri {
                    for o in &uris {
                        x[*o..*o + n].copy_from_slice(&m);
                    }
                }
                out.push((format!("label:{name}:{what}@{mode}"), x));
            }
        }
    }
    out
}

fn limit_cases(run: &mut Run, rng: &mut Rng) {
    use c2pa::{status_tracker::StatusTracker, verif_hooks::{c10 as h10, c18 as h18, c20 as h20}};
    let thorough = run.thorough();
    let max_a = h10::MAX_ASSERTIONS;

    // --- safe_vec::<T>: bytes reserved = n * size_of::<T>() or the refusal (no abort, no wrap)
    fn svec<T: Clone>(n: u64, fill: Option<T>) -> Result<c2pa::Result<(usize, usize)>, String> {
        guarded(std::panic::AssertUnwindSafe(|| c2pa::verif_hooks::c10::safe_vec_of::<T>(n, fill).map(|v| (v.capacity() * std::mem::size_of::<T>(), v.len()))))
    }
    let mut counts: Vec<u64> = vec![0, 1, 3, 4096, 100_000];
    for el in [1u64, 4, 8] {
        let lim = (i64::MAX as u64) / el;
        counts.extend_from_slice(&[lim, lim + 1, lim + 2, (lim + 1).saturating_mul(2).saturating_sub(1), u64::MAX / el, (u64::MAX / el).saturating_add(1), u64::MAX]);
    }
    for _ in 0..if thorough { 300 } else { 40 } {
        counts.push(if rng.chance(1, 2) { rng.below(1 << 18) } else { (1u64 << 61) + rng.below(u64::MAX - (1 << 61)) });
    }
    for n in counts {
        for (el, fill) in [(1u64, false), (1, true), (4, true), (8, true), (8, false)] {
            // in between "small" and "capacity overflow" the answer is the allocator's: not compared
            let bytes = n as u128 * el as u128;
            if bytes > (16 << 20) && bytes <= i64::MAX as u128 {
                continue;
            }
            let res = match (el, fill) {
                (1, false) => svec::<u8>(n, None),
                (1, true) => svec::<u8>(n, Some(7)),
                (4, _) => svec::<u32>(n, Some(7)),
                (8, true) => svec::<u64>(n, Some(7)),
                _ => svec::<u64>(n, None),
            };
            let imp = match &res {
                Ok(Ok((b, l))) => format!("ok {b} {l}"),
                Ok(Err(e)) => format!("err:{}", err_class(e)),
                Err(_) => "panic".into(),
            };
            let idx = run.case(format!("C10 svec elem={el} n={n} fill={}", fill as u8), imp);
            run.count("guard_safe_vec_t");
            match res {
                Err(p) => run.fail(idx, "panic:safe_vec", format!("safe_vec::<{el}-byte>({n}) panicked: {p}")),
                Ok(Ok((b, l))) => {
                    if b as u128 != bytes || (fill && l as u64 != n) {
                        run.fail(idx, "safe-vec-wrong-size", format!("safe_vec::<{el}-byte>({n}, fill {fill}) reserved {b} bytes, length {l}"));
                    }
                    run.nontrivial(format!("svec {el} {n} {fill}"));
                }
                Ok(Err(_)) => {}
            }
        }
    }

    // --- a real manifest store, edited at the byte level
    let store = match guarded(fresh_store) {
        Ok(Ok(s)) => s,
        other => {
            run.notes.push(format!("fresh manifest store not produced: {:?}", other.map(|r| r.map(|v| v.len()).map_err(|e| err_class(&e)))));
            run.obligations.insert("limit_cases_ran".into(), false);
            return;
        }
    };
    let Some((top_jumd, manifests)) = jb::split(&store) else {
        run.obligations.insert("limit_cases_ran".into(), false);
        return;
    };
    let Some(base) = manifests.last().cloned() else {
        run.obligations.insert("limit_cases_ran".into(), false);
        return;
    };
    run.obligations.insert("limit_cases_ran".into(), true);

    // --- the reader's assertion loop: n assertion boxes in a real manifest
    // (an assertion store without any box is a JUMBF parse error before the loop: not asked)
    let mut ns = vec![1usize, 2, 9, 500, max_a - 1, max_a, max_a + 1];
    if thorough {
        ns.extend_from_slice(&[max_a + 2, max_a + 5000, 2 * max_a, 60_000]);
    }
    for n in ns {
        let Some(m) = with_assertion_count(&base, n) else { continue };
        let bytes = jb::join(&top_jumd, &[m]);
        let base_live = LIVE.load(Ordering::Relaxed);
        PEAK.store(base_live, Ordering::Relaxed);
        let t0 = Instant::now();
        let res = guarded(std::panic::AssertUnwindSafe(|| -> c2pa::Result<usize> {
            let ctx = Context::new().with_settings(offline())?;
            let st = h18::from_jumbf_with_context(&bytes, &mut StatusTracker::default(), &ctx)?;
            Ok(st.provenance_claim().map(|c| c.claim_assertion_store().len()).unwrap_or(usize::MAX))
        }));
        let peak = PEAK.load(Ordering::Relaxed).saturating_sub(base_live);
        let imp = match &res {
            Ok(Ok(k)) => format!("ok {k}"),
            Ok(Err(e)) => format!("err:{}", err_class(e)),
            Err(_) => "panic".into(),
        };
        let idx = run.case(format!("C10 asserts n={n}"), imp);
        run.count("limit_asserts");
        match res {
            Err(p) => run.fail(idx, "panic:from_jumbf", format!("store with {n} assertion boxes: {p}")),
            Ok(Ok(k)) if k > max_a || n > max_a => run.fail(idx, "assertion-limit-exceeded:reader", format!("a manifest with {n} assertion boxes was loaded with {k} assertions (limit {max_a})")),
            Ok(_) => run.nontrivial(format!("asserts {n}")),
        }
        if peak > 40 * bytes.len() + (8 << 20) {
            run.fail(idx, "alloc-excess:from_jumbf", format!("store of {} bytes with {n} assertion boxes: peak heap {peak} bytes", bytes.len()));
        }
        run.notes.push(format!("asserts n={n}: {} bytes, peak {peak}, {} ms", bytes.len(), t0.elapsed().as_millis()));
    }

    // --- the store loop: one limit-sized reservation per compressed manifest, refusal above the limit
    let mb = 3usize;
    let max = mb << 20;
    let s0 = base.len();
    let mut plans: Vec<Vec<(bool, usize)>> = vec![
        vec![(false, s0)],
        vec![(true, s0)],
        vec![(true, max - 1)],
        vec![(true, max)],
        vec![(true, max + 1)],
        vec![(true, max), (false, s0), (true, max)],
        vec![(true, s0), (true, max + 1), (true, s0)],
        vec![(true, max), (true, max), (true, max), (true, max)],
        vec![(false, s0), (false, s0 + 64), (true, 2 * max)],
    ];
    for _ in 0..if thorough { 40 } else { 6 } {
        let k = 1 + rng.below(5) as usize;
        plans.push(
            (0..k)
                .map(|_| match rng.below(7) {
                    0 => (false, s0),
                    1 => (false, s0 + 8 + rng.below(5000) as usize),
                    2 => (true, s0),
                    3 => (true, max - rng.below(3) as usize),
                    4 if rng.chance(1, 3) => (true, max + 1 + rng.below(3) as usize),
                    5 => (true, s0 + 8 + rng.below((max - s0 - 8) as u64) as usize),
                    _ => (true, max),
                })
                .collect(),
        );
    }
    for plan in plans {
        let mut boxes = vec![];
        let mut ok = true;
        for (i, (brob, size)) in plan.iter().enumerate() {
            let m = relabelled(&base, i).and_then(|m| padded_to(&m, *size));
            let m = match (m, brob) {
                (Some(m), true) => compressed(&m),
                (m, _) => m,
            };
            match m {
                Some(m) => boxes.push(m),
                None => ok = false,
            }
        }
        if !ok {
            run.count("limit_stores_skipped");
            continue;
        }
        let bytes = jb::join(&top_jumd, &boxes);
        let spec = plan.iter().map(|(b, s)| format!("{}:{s}", if *b { "b" } else { "p" })).collect::<Vec<_>>().join(",");
        let base_live = LIVE.load(Ordering::Relaxed);
        PEAK.store(base_live, Ordering::Relaxed);
        WATCHED.store(0, Ordering::Relaxed);
        WATCH.store(max, Ordering::Relaxed);
        let res = guarded(std::panic::AssertUnwindSafe(|| -> c2pa::Result<usize> {
            let ctx = Context::new().with_settings(format!(r#"{{"core":{{"max_decompressed_manifest_size_in_mb":{mb}}},"verify":{{"remote_manifest_fetch":false,"ocsp_fetch":false}}}}"#).as_str())?;
            let st = h18::from_jumbf_with_context(&bytes, &mut StatusTracker::default(), &ctx)?;
            Ok(st.claims().len())
        }));
        WATCH.store(0, Ordering::Relaxed);
        let reservations = WATCHED.load(Ordering::Relaxed);
        let peak = PEAK.load(Ordering::Relaxed).saturating_sub(base_live);
        let imp = match &res {
            Ok(Ok(k)) => format!("ok {reservations} {k}"),
            Ok(Err(_)) => format!("err {reservations}"),
            Err(_) => "panic".into(),
        };
        let idx = run.case(format!("C10 stores max={max} s={spec}"), imp);
        run.count("limit_stores");
        let brobs = plan.iter().filter(|(b, _)| *b).count();
        let over = plan.iter().any(|(b, s)| *b && *s > max);
        let held: usize = plan.iter().map(|(_, s)| (*s).min(max)).sum();
        match &res {
            Err(p) => run.fail(idx, "panic:from_jumbf", format!("store {spec}: {p}")),
            Ok(Ok(_)) if over => run.fail(idx, "bomb-accepted:store", format!("a compressed manifest that decompresses to more than the limit {max} was loaded ({spec})")),
            Ok(Err(e)) if !over => run.fail(idx, "within-limit-refused:store", format!("every compressed manifest of {spec} decompresses to at most the limit {max}, yet the load failed: {}", err_class(e))),
            Ok(_) => run.nontrivial(format!("stores {spec}")),
        }
        if reservations > brobs {
            run.fail(idx, "reservation-per-manifest-exceeded", format!("{reservations} reservations of {max} bytes for {brobs} compressed manifests ({spec})"));
        }
        // heap oracle: the parsed manifests (a few copies of what they hold) + one sink
        if peak > 6 * held + 3 * bytes.len() + max + (8 << 20) {
            run.fail(idx, "alloc-excess:from_jumbf", format!("store {spec} ({} bytes): peak heap {peak} bytes", bytes.len()));
        }
        run.notes.push(format!("stores {spec}: {} bytes in, {reservations} reservations, peak {peak}", bytes.len()));
    }

    // --- Builder::with_definition keeps whatever the definition holds (no limit on this path)
    let mut ns = vec![1usize, 50, max_a, max_a + 1];
    if thorough {
        ns.push(max_a + 777);
    }
    let def_with = |n: usize| -> String {
        let assertions: Vec<serde_json::Value> = (0..n).map(|i| serde_json::json!({"label": format!("org.verif.a{i}"), "data": {"i": i}})).collect();
        serde_json::json!({"title": "c10", "format": "image/png", "claim_generator_info": [{"name": "verif-harness", "version": "0.1"}], "assertions": assertions}).to_string()
    };
    for n in ns {
        let def = def_with(n);
        let res = guarded(std::panic::AssertUnwindSafe(|| -> c2pa::Result<usize> { Ok(Builder::from_context(Context::new()).with_definition(def.as_str())?.definition.assertions.len()) }));
        let imp = match &res {
            Ok(Ok(k)) => k.to_string(),
            Ok(Err(e)) => format!("err:{}", err_class(e)),
            Err(_) => "panic".into(),
        };
        let idx = run.case(format!("C10 bdef n={n}"), imp);
        run.count("limit_bdef");
        match res {
            Err(p) => run.fail(idx, "panic:with_definition", format!("definition with {n} assertions: {p}")),
            Ok(_) => run.nontrivial(format!("bdef {n}")),
        }
    }

    // --- Claim::add_assertion: the limit that bounds what a signature covers. A claim is brought
    // to `count` assertions with the loader's push (cheap; `add_assertion` is quadratic in the
    // count), then `k` real adds follow.
    let mut plans = vec![(0usize, 0usize), (0, 1), (0, 6), (0, 300), (max_a - 2, 1), (max_a - 2, 2), (max_a - 2, 3), (max_a - 1, 1), (max_a - 1, 2), (max_a, 1)];
    if thorough {
        plans.extend_from_slice(&[(max_a - 5, 9), (5000, 40), (max_a, 3), (max_a - 1, 5)]);
    }
    for (count, k) in plans {
        let t0 = Instant::now();
        let res = guarded(std::panic::AssertUnwindSafe(|| -> c2pa::Result<usize> {
            let mut claim = h20::Claim::new_with_user_guid("verif", "urn:c2pa:6f1d2c3a-5b7e-4c1d-9a2b-3c4d5e6f7a8b", 2)?;
            if count > 0 {
                h20::claim_add_user_assertion(&mut claim, "org.verif.base", "{\"i\":0}")?;
                let proto = claim.claim_assertion_store()[0].clone();
                for _ in 1..count {
                    h10::claim_put_assertion_store(&mut claim, proto.clone());
                }
            }
            for i in 0..k {
                h20::claim_add_user_assertion(&mut claim, &format!("org.verif.c{i}"), "{\"i\":1}")?;
            }
            Ok(claim.claim_assertion_store().len())
        }));
        let imp = match &res {
            Ok(Ok(c)) => format!("ok {c}"),
            Ok(Err(e)) => format!("err:{}", err_class(e)),
            Err(_) => "panic".into(),
        };
        let idx = run.case(format!("C10 cadd count={count} k={k}"), imp);
        run.count("limit_cadd");
        match res {
            Err(p) => run.fail(idx, "panic:claim_add_assertion", format!("{count} + {k} adds: {p}")),
            Ok(Ok(c)) if c > max_a => run.fail(idx, "assertion-limit-exceeded:claim", format!("a claim holds {c} assertions (limit {max_a})")),
            Ok(_) => run.nontrivial(format!("cadd {count} {k}")),
        }
        if count > 1000 {
            run.notes.push(format!("cadd count={count} k={k}: {} ms", t0.elapsed().as_millis()));
        }
    }
}

fn err_class(e: &c2pa::Error) -> String {
    let d = format!("{e:?}");
    d.chars().take_while(|c| c.is_ascii_alphanumeric()).collect()
}

// ---------------------------------------------------------------------------------------------
// seeds and mutations

#[derive(Clone)]
struct Seed {
    name: String,
    fmt: &'static str,
    data: Vec<u8>,
    archive: bool,
}

fn offline() -> &'static str {
    r#"{"verify":{"remote_manifest_fetch":false,"ocsp_fetch":false}}"#
}

fn seeds(run: &mut Run) -> Vec<Seed> {
    let thorough = run.thorough();
    let cap = if thorough { 2_600_000 } else { 1_200_000 };
    let mut out = vec![];
    let mut add = |name: String, fmt: &'static str, data: Vec<u8>, archive: bool| {
        if !data.is_empty() && data.len() <= cap {
            out.push(Seed { name, fmt, data, archive });
        }
    };
    for (fmt, name) in unsigned_sources() {
        if let Ok(src) = std::fs::read(fixtures().join(name)) {
            if src.len() > cap {
                continue;
            }
            add(format!("unsigned:{name}"), fmt, src.clone(), false);
            if let Ok(Ok(s)) = guarded(|| sign_asset(fmt, &src, Some(offline()))) {
                add(format!("signed:{name}"), fmt, s, false);
            }
        }
    }
    // formats whose fixtures are large: a prefix keeps the container header, the metadata and
    // the place where a manifest goes
    for (fmt, name) in unsigned_sources() {
        if let Ok(src) = std::fs::read(fixtures().join(name)) {
            if src.len() > cap {
                let pre = src[..150_000.min(src.len())].to_vec();
                if let Ok(Ok(s)) = guarded(|| sign_asset(fmt, &pre, Some(offline()))) {
                    add(format!("signed-prefix:{name}"), fmt, s, false);
                }
                add(format!("prefix:{name}"), fmt, pre, false);
            }
        }
    }
    // compressed manifest (brotli box) in JPEG and PNG
    for (fmt, name) in [("image/jpeg", "IMG_0003.jpg"), ("image/png", "libpng-test.png")] {
        if let Ok(src) = std::fs::read(fixtures().join(name)) {
            let st = r#"{"core":{"prefer_compress_manifests":true},"verify":{"remote_manifest_fetch":false,"ocsp_fetch":false}}"#;
            if let Ok(Ok(s)) = guarded(|| sign_asset(fmt, &src, Some(st))) {
                add(format!("compressed:{name}"), fmt, s, false);
            }
        }
    }
    // fixtures that carry manifests of several shapes
    for (name, fmt) in [
        ("CA.jpg", "image/jpeg"),
        ("CACA.jpg", "image/jpeg"),
        ("XCA.jpg", "image/jpeg"),
        ("E-sig-CA.jpg", "image/jpeg"),
        ("ocsp.jpg", "image/jpeg"),
        ("cloud_manifest.c2pa", "application/c2pa"),
        ("boxhash.jpg", "image/jpeg"),
        ("legacy.mp4", "video/mp4"),
        ("video1.mp4", "video/mp4"),
        ("dashinit.mp4", "video/mp4"),
        ("dash1.m4s", "video/mp4"),
        ("sample1.svg", "image/svg+xml"),
        ("sample1.mp3", "audio/mpeg"),
        ("id3v23_compression_underflow.mp3", "audio/mpeg"),
        ("sample1.wav", "audio/wav"),
        ("sample1.gif", "image/gif"),
        ("sample1.webp", "image/webp"),
        ("sample1.avif", "image/avif"),
        ("sample1.heic", "image/heic"),
        ("sample1.flac", "audio/flac"),
        ("sample1.jxl", "image/jxl"),
        ("TUSCANY.TIF", "image/tiff"),
        ("basic.pdf", "application/pdf"),
        ("express-signed.pdf", "application/pdf"),
    ] {
        if let Ok(d) = std::fs::read(fixtures().join(name)) {
            add(format!("fixture:{name}"), fmt, d, false);
        }
    }
    // hand-made PNG with an XMP iTXt chunk and a caBX chunk slot (chunk CRCs are not checked by the handler)
    {
        fn chunk(t: &[u8; 4], data: &[u8]) -> Vec<u8> {
            let mut v = (data.len() as u32).to_be_bytes().to_vec();
            v.extend_from_slice(t);
            v.extend_from_slice(data);
            v.extend_from_slice(&[0, 0, 0, 0]);
            v
        }
        let mut png = b"\x89PNG\r\n\x1a\n".to_vec();
        png.extend(chunk(b"IHDR", &[0, 0, 0, 1, 0, 0, 0, 1, 8, 0, 0, 0, 0]));
        let mut itxt = b"XML:com.adobe.xmp\0\0\0\0\0".to_vec();
        itxt.extend_from_slice(br#"<?xpacket begin="" id="W5M0MpCehiHzreSzNTczkc9d"?><x:xmpmeta xmlns:x="adobe:ns:meta/"><rdf:RDF xmlns:rdf="http://www.w3.org/1999/02/22-rdf-syntax-ns#"><rdf:Description rdf:about="" xmlns:dcterms="http://purl.org/dc/terms/" dcterms:provenance="self#jumbf=c2pa/x"/></rdf:RDF></x:xmpmeta><?xpacket end="w"?>"#);
        png.extend(chunk(b"iTXt", &itxt));
        png.extend(chunk(b"IDAT", &[0x78, 0x9c, 0x63, 0x00, 0x00, 0x00, 0x01, 0x00, 0x01]));
        png.extend(chunk(b"IEND", &[]));
        add("crafted:png-xmp".to_string(), "image/png", png, false);
    }
    // raw manifest stores (sidecar form) of fixtures with different signature shapes: ES256 chains,
    // time-stamp tokens (sigTst / sigTst2), OCSP staples (rVals), legacy headers, nested ingredients
    for name in ["CA.jpg", "C.jpg", "ocsp.jpg", "CACA.jpg", "adobe-20220124-E-clm-CAICAI.jpg", "ocsp_with_assertion.jpg"] {
        if let Ok(d) = std::fs::read(fixtures().join(name)) {
            if let Ok(Ok(st)) = guarded(|| c2pa::jumbf_io::load_jumbf_from_memory("image/jpeg", &d)) {
                add(format!("store:{name}"), "application/c2pa", st, false);
            }
        }
    }
    if let Ok(Ok(st)) = guarded(fresh_store) {
        add("store:fresh-ed25519".to_string(), "application/c2pa", st, false);
    }
    if let Ok(Ok(st)) = guarded(|| fresh_store_with(true)) {
        add("store:fresh-compressed".to_string(), "application/c2pa", st, false);
    }
    // legacy zip archives
    for name in ["old_format_archive.zip", "bad_path_archive.zip"] {
        if let Ok(d) = std::fs::read(fixtures().join(name)) {
            add(format!("archive:{name}"), "application/c2pa", d, true);
        }
    }
    // builder archives (zip and c2pa working store)
    for (tag, st) in [("zip", r#"{"builder":{"generate_c2pa_archive":false}}"#), ("c2pa", r#"{"builder":{"generate_c2pa_archive":true}}"#)] {
        let made = guarded(std::panic::AssertUnwindSafe(|| -> c2pa::Result<Vec<u8>> {
            let ctx = Context::new().with_settings(st)?;
            let mut b = Builder::from_context(ctx).with_definition(definition("c10 archive", "image/jpeg").as_str())?;
            if let Ok(ing) = std::fs::read(fixtures().join("CA.jpg")) {
                b.add_ingredient_from_stream(serde_json::json!({"title": "ing", "relationship": "componentOf"}).to_string(), "image/jpeg", &mut Cursor::new(ing))?;
            }
            let mut out = Cursor::new(Vec::new());
            b.to_archive(&mut out)?;
            Ok(out.into_inner())
        }));
        match made {
            Ok(Ok(a)) => add(format!("archive:{tag}"), "application/c2pa", a, true),
            other => run.notes.push(format!("archive seed {tag} not produced: {:?}", other.map(|r| r.map(|v| v.len()).map_err(|e| err_class(&e))))),
        }
    }
    out
}

const HINTS: [&str; 22] = [
    "image/jpeg", "image/png", "image/webp", "image/tiff", "image/svg+xml", "image/gif", "audio/mpeg", "audio/wav", "video/mp4",
    "image/avif", "image/heic", "audio/flac", "image/jxl", "application/c2pa", "application/pdf", "video/quicktime", "audio/mp4",
    "image/x-adobe-dng", "video/avi", "application/x-c2pa-manifest-store", "c2pa", "xyz/unknown",
];

fn be32(d: &[u8], i: usize) -> u32 {
    u32::from_be_bytes([d[i], d[i + 1], d[i + 2], d[i + 3]])
}
fn le32(d: &[u8], i: usize) -> u32 {
    u32::from_le_bytes([d[i], d[i + 1], d[i + 2], d[i + 3]])
}
fn is_tag(b: &[u8]) -> bool {
    b.iter().all(|c| c.is_ascii_alphanumeric() || *c == b' ' || *c == b'_')
}

/// Offsets that look like length fields: (offset, width, big-endian, span start, span length).
fn length_fields(d: &[u8]) -> Vec<(usize, usize, bool, usize, usize, usize, u64)> {
    let mut out = vec![];
    let n = d.len();
    let mut i = 0;
    while i + 8 <= n {
        // BMFF / JUMBF box: u32be size, 4-char type            (span = the box)
        let v = be32(d, i) as usize;
        if is_tag(&d[i + 4..i + 8]) && ((v >= 8 && i + v <= n) || v == 1 || v == 0) {
            out.push((i, 4, true, i, if v >= 8 { v } else { 8 }, 0, 8));
        }
        // PNG chunk: u32be length, type, data, crc               (span = the chunk)
        if is_tag(&d[i + 4..i + 8]) && d[i + 4].is_ascii_alphabetic() && i + 12 + v <= n && v < n {
            out.push((i, 4, true, i, 12 + v, 4, 0));
        }
        // RIFF chunk: 4-char type, u32le length                  (span = the chunk)
        let w = le32(d, i + 4) as usize;
        if is_tag(&d[i..i + 4]) && d[i].is_ascii_alphabetic() && i + 8 + w <= n {
            out.push((i + 4, 4, false, i, 8 + w, 0, 0));
        }
        // JPEG segment: 0xFF marker, u16be length
        if d[i] == 0xff && d[i + 1] >= 0xc0 && d[i + 1] != 0xff && d[i + 1] != 0xd8 && d[i + 1] != 0xd9 {
            let l = u16::from_be_bytes([d[i + 2], d[i + 3]]) as usize;
            if l >= 2 && i + 2 + l <= n {
                out.push((i + 2, 2, true, i, 2 + l, 0, 2));
            }
        }
        i += 1;
        if out.len() > 40_000 {
            break;
        }
    }
    out
}

fn put(d: &mut [u8], off: usize, width: usize, be: bool, v: u64) {
    for k in 0..width {
        let shift = if be { 8 * (width - 1 - k) } else { 8 * k };
        d[off + k] = (v >> shift) as u8;
    }
}

fn manifest_region(d: &[u8]) -> (usize, usize) {
    let a = d.windows(4).position(|w| w == b"jumb").map(|p| p.saturating_sub(4)).unwrap_or(0);
    let b = d.windows(4).rposition(|w| w == b"cbor" || w == b"jumd").map(|p| (p + 4096).min(d.len())).unwrap_or(d.len());
    if b > a {
        (a, b)
    } else {
        (0, d.len())
    }
}

/// Resize a box/chunk *consistently*: the length field gets `v` and the payload is cut (or
/// zero-extended) at its end so that the framing that follows stays where the length says.
fn resize(d: &[u8], f: &(usize, usize, bool, usize, usize, usize, u64), v: u64) -> Option<Vec<u8>> {
    let (off, w, be, s, l, trailer, minv) = *f;
    if s + l > d.len() || off + w > d.len() {
        return None;
    }
    let cur = if w == 4 { if be { be32(d, off) as u64 } else { le32(d, off) as u64 } } else { u16::from_be_bytes([d[off], d[off + 1]]) as u64 };
    let max = if w == 4 { u32::MAX as u64 } else { u16::MAX as u64 };
    if v < minv || v > max || v == cur || cur < minv {
        return None;
    }
    let end = s + l - trailer; // end of the payload
    let mut out = d.to_vec();
    if v < cur {
        let k = (cur - v) as usize;
        if k > end.saturating_sub(off + w) {
            return None;
        }
        out.drain(end - k..end);
    } else {
        let k = (v - cur) as usize;
        if k > 1 << 20 {
            return None;
        }
        out.splice(end..end, std::iter::repeat(0u8).take(k));
    }
    put(&mut out, off, w, be, v);
    Some(out)
}

/// Wrap a raw JUMBF super box (`jumb` whose first child is its `jumd`) in `depth` further super
/// boxes carrying the same description box: well-formed nesting of arbitrary depth.
fn jumbf_wrap(d: &[u8], depth: usize) -> Option<Vec<u8>> {
    if d.len() < 24 || &d[4..8] != b"jumb" || &d[12..16] != b"jumd" {
        return None;
    }
    let top = (be32(d, 0) as usize).min(d.len());
    let jl = be32(d, 8) as usize;
    if jl < 8 || 8 + jl > top {
        return None;
    }
    let jumd = d[8..8 + jl].to_vec();
    // sizes from the inside out
    let mut sizes = Vec::with_capacity(depth);
    let mut cur = top;
    for _ in 0..depth {
        cur += 8 + jl;
        if cur > u32::MAX as usize {
            return None;
        }
        sizes.push(cur as u32);
    }
    let mut out = Vec::with_capacity(cur + d.len() - top);
    for sz in sizes.iter().rev() {
        out.extend_from_slice(&sz.to_be_bytes());
        out.extend_from_slice(b"jumb");
        out.extend_from_slice(&jumd);
    }
    out.extend_from_slice(d);
    Some(out)
}

/// One structure-aware mutation; returns the mutant and a short description.
fn mutate(rng: &mut Rng, seed: &[u8], fields: &[(usize, usize, bool, usize, usize, usize, u64)]) -> (Vec<u8>, String) {
    let mut d = seed.to_vec();
    let n = d.len();
    let (ma, mb) = manifest_region(&d);
    let in_manifest = |rng: &mut Rng| -> usize { ma + rng.below((mb - ma).max(1) as u64) as usize };
    let kind = rng.below(16);
    match kind {
        0 => {
            let i = if rng.chance(2, 3) { in_manifest(rng) } else { rng.below(n as u64) as usize }.min(n - 1);
            d[i] ^= 1 << rng.below(8);
            (d, format!("bitflip@{i}"))
        }
        1 => {
            let i = if rng.chance(2, 3) { in_manifest(rng) } else { rng.below(n as u64) as usize }.min(n - 1);
            d[i] = *rng.pick(&[0u8, 1, 0x7f, 0x80, 0xff, 0xfe]);
            (d, format!("byteset@{i}"))
        }
        5 if !fields.is_empty() => {
            let f = *rng.pick(fields);
            let cur = if f.1 == 4 { if f.2 { be32(&d, f.0) as u64 } else { le32(&d, f.0) as u64 } } else { u16::from_be_bytes([d[f.0], d[f.0 + 1]]) as u64 };
            let v = match rng.below(4) {
                0 => f.6 + rng.below(40),
                1 => cur.saturating_sub(1 + rng.below(8)),
                2 => cur + 1 + rng.below(64),
                _ => rng.below(cur + 2),
            };
            match resize(&d, &f, v) {
                Some(r) => (r, format!("resize@{}:{cur}->{v}", f.0)),
                None => {
                    put(&mut d, f.0, f.1, f.2, v);
                    (d, format!("len@{}:{cur}->{v}", f.0))
                }
            }
        }
        2 | 3 | 4 if !fields.is_empty() => {
            let (off, w, be, _, span, _, _) = *rng.pick(fields);
            let cur = if w == 4 { if be { be32(&d, off) as u64 } else { le32(&d, off) as u64 } } else { u16::from_be_bytes([d[off], d[off + 1]]) as u64 };
            let max = if w == 4 { u32::MAX as u64 } else { u16::MAX as u64 };
            let small = rng.below(64);
            let v = *rng.pick(&[small, small, 0, 1, 2, 7, 8, max, max - 1, max / 2, max / 2 + 1, cur.wrapping_sub(1) & max, (cur + 1) & max, (n as u64) & max, (n as u64 + 1) & max, span as u64 & max, cur * 2 & max, 16, 24]);
            put(&mut d, off, w, be, v);
            (d, format!("len@{off}:{cur}->{v}"))
        }
        6 => {
            // truncation at a structural boundary or anywhere
            let cut = if !fields.is_empty() && rng.chance(2, 3) {
                let (_, _, _, s, l, _, _) = *rng.pick(fields);
                let c = *rng.pick(&[s, s + 1, s + 4, s + 7, s + 8, s + l.saturating_sub(1), s + l, s + l + 1]);
                c.min(n)
            } else {
                rng.below(n as u64 + 1) as usize
            };
            d.truncate(cut);
            (d, format!("truncate@{cut}"))
        }
        7 if !fields.is_empty() => {
            // duplicate a box/chunk right after itself
            let (_, _, _, s, l, _, _) = *rng.pick(fields);
            let l = l.min(n - s).min(200_000);
            let copy = d[s..s + l].to_vec();
            let at = s + l;
            d.splice(at..at, copy);
            (d, format!("dup@{s}+{l}"))
        }
        8 if !fields.is_empty() => {
            // delete a box/chunk
            let (_, _, _, s, l, _, _) = *rng.pick(fields);
            let l = l.min(n - s);
            d.drain(s..s + l);
            (d, format!("del@{s}+{l}"))
        }
        9 if jumbf_wrap(seed, 1).is_some() && rng.chance(1, 2) => {
            let depth = *rng.pick(&[2usize, 31, 32, 33, 200, 5000, 50_000]);
            match jumbf_wrap(seed, depth) {
                Some(w) => (w, format!("jumbf-wrap x{depth}")),
                None => (d, "none".into()),
            }
        }
        9 if !fields.is_empty() => {
            // nest a box inside itself k times (size fields kept consistent for 32-bit boxes)
            let cands: Vec<_> = fields.iter().filter(|f| f.1 == 4 && f.2 && f.0 == f.3 && f.4 >= 8 && f.4 < 60_000).collect();
            if cands.is_empty() {
                let i = rng.below(n as u64) as usize;
                d[i] ^= 0x55;
                return (d, format!("xor@{i}"));
            }
            let (_, _, _, s, l, _, _) = **rng.pick(&cands);
            let l = l.min(n - s);
            let depth = *rng.pick(&[2usize, 8, 31, 32, 33, 40, 100, 400, 3000, 40_000]);
            let inner = d[s..s + l].to_vec();
            let hdr: Vec<u8> = inner[4..8].to_vec();
            let mut nested = inner.clone();
            for _ in 0..depth {
                if nested.len() > 3_000_000 {
                    break;
                }
                let mut b = Vec::with_capacity(nested.len() + 8);
                b.extend_from_slice(&((nested.len() + 8) as u32).to_be_bytes());
                b.extend_from_slice(&hdr);
                b.extend_from_slice(&nested);
                nested = b;
            }
            d.splice(s..s + l, nested);
            (d, format!("nest@{s}x{depth}"))
        }
        10 => {
            // CBOR-ish: inflate a count / length head inside the manifest region
            let mut tries = 0;
            loop {
                let i = in_manifest(rng).min(n - 1);
                let b = d[i];
                let major = b >> 5;
                let info = b & 0x1f;
                if (2..=5).contains(&major) {
                    if info < 24 {
                        d[i] = (major << 5) | *rng.pick(&[23u8, 24, 25, 26, 27, 31, (info + 1).min(23)]);
                    } else if info <= 27 {
                        let w = 1usize << (info - 24);
                        for k in 0..w {
                            if i + 1 + k < n {
                                d[i + 1 + k] = 0xff;
                            }
                        }
                    }
                    return (d, format!("cbor-head@{i}"));
                }
                tries += 1;
                if tries > 200 {
                    d[i] = 0x9b;
                    return (d, format!("cbor-force@{i}"));
                }
            }
        }
        11 => {
            // insert a deeply nested CBOR array / map / tag run inside the manifest region
            let i = in_manifest(rng).min(n);
            let depth = *rng.pick(&[64usize, 129, 600, 5000, 100_000]);
            let unit = *rng.pick(&[0x81u8, 0xa1, 0xc1, 0x9f, 0xbf, 0xd8]);
            let run_: Vec<u8> = std::iter::repeat(unit).take(depth).collect();
            if rng.chance(1, 2) && i + depth <= n {
                d[i..i + depth].copy_from_slice(&run_);
                (d, format!("cbor-nest-over@{i}x{depth}"))
            } else {
                d.splice(i..i, run_);
                (d, format!("cbor-nest-ins@{i}x{depth}"))
            }
        }
        12 => {
            // splice random bytes
            let i = rng.below(n as u64) as usize;
            let k = 1 + rng.below(64) as usize;
            let r = rng.bytes(k);
            if rng.chance(1, 2) {
                d.splice(i..i, r);
            } else {
                let e = (i + k).min(n);
                d[i..e].copy_from_slice(&r[..e - i]);
            }
            (d, format!("splice@{i}+{k}"))
        }
        13 => {
            // text formats: deep element nesting / huge attribute (SVG, XMP); harmless elsewhere
            let depth = *rng.pick(&[100usize, 2000, 50_000]);
            let open: String = "<g>".repeat(depth);
            let at = d.windows(4).position(|w| w == b"<svg" || w == b"<x:x" || w == b"<rdf").map(|p| d[p..].iter().position(|c| *c == b'>').map(|q| p + q + 1).unwrap_or(p)).unwrap_or_else(|| rng.below(n as u64) as usize);
            d.splice(at..at, open.into_bytes());
            (d, format!("xml-nest@{at}x{depth}"))
        }
        14 => {
            // swap two regions
            let i = rng.below(n as u64) as usize;
            let j = rng.below(n as u64) as usize;
            let k = (1 + rng.below(256) as usize).min(n - i.max(j));
            for t in 0..k {
                d.swap(i + t, j + t);
            }
            (d, format!("swap@{i},{j}+{k}"))
        }
        _ => {
            // several small edits at once
            let m = 2 + rng.below(6);
            for _ in 0..m {
                let i = if rng.chance(1, 2) { in_manifest(rng) } else { rng.below(n as u64) as usize }.min(n - 1);
                d[i] = rng.next() as u8;
            }
            (d, format!("multi x{m}"))
        }
    }
}

// ---------------------------------------------------------------------------------------------
// forked workers

#[derive(Clone)]
struct Case {
    seed: usize,
    what: String,
    hint: &'static str,
    data: Vec<u8>,
    archive: bool,
}

#[derive(Clone, Debug)]
struct Res {
    /// per entry point: ok | err | panic
    read: String,
    ingredient: String,
    archive: String,
    peak: usize,
    ms: u64,
    detail: String,
}

fn one_entry<T>(f: impl FnOnce() -> c2pa::Result<T>) -> (String, String) {
    match guarded(std::panic::AssertUnwindSafe(f)) {
        Ok(Ok(_)) => ("ok".into(), String::new()),
        Ok(Err(_)) => ("err".into(), String::new()),
        Err(p) => ("panic".into(), p.chars().take(160).collect()),
    }
}

/// A remote server under the attacker's control (the OCSP responder named by the signing
/// certificate of an untrusted asset): answers 200 with the given Content-Length header and a
/// five-byte body.
struct LyingServer {
    content_length: String,
}
static RESOLVER_CALLS: AtomicUsize = AtomicUsize::new(0);

impl c2pa::http::SyncHttpResolver for LyingServer {
    fn http_resolve(&self, _request: c2pa::http::http::Request<Vec<u8>>) -> Result<c2pa::http::http::Response<Box<dyn std::io::Read>>, c2pa::http::HttpResolverError> {
        RESOLVER_CALLS.fetch_add(1, Ordering::Relaxed);
        c2pa::http::http::Response::builder()
            .status(200)
            .header("content-length", self.content_length.as_str())
            .body(Box::new(Cursor::new(vec![0x30u8, 0x03, 0x0a, 0x01, 0x06])) as Box<dyn std::io::Read>)
            .map_err(c2pa::http::HttpResolverError::Http)
    }
}

const REMOTE_HINTS: [&str; 6] = ["remote-ocsp/5", "remote-ocsp/100000", "remote-ocsp/4000000000", "remote-ocsp/1099511627776", "remote-ocsp/9223372036854775808", "remote-ocsp/18446744073709551615"];

fn exec_case(c: &Case) -> Res {
    let base = LIVE.load(Ordering::Relaxed);
    PEAK.store(base, Ordering::Relaxed);
    let t0 = Instant::now();
    let mut detail = String::new();
    if let Some(cl) = c.hint.strip_prefix("remote-ocsp/") {
        // validation with `verify.ocsp_fetch` on and the lying server as the HTTP transport
        RESOLVER_CALLS.store(0, Ordering::Relaxed);
        let (read, d1) = one_entry(|| {
            let ctx = Context::new()
                .with_settings(r#"{"verify":{"remote_manifest_fetch":false,"ocsp_fetch":true}}"#)?
                .with_resolver(LyingServer { content_length: cl.to_string() });
            Reader::from_context(ctx).with_stream("image/jpeg", Cursor::new(c.data.clone()))
        });
        let peak = PEAK.load(Ordering::Relaxed).saturating_sub(base);
        let calls = RESOLVER_CALLS.load(Ordering::Relaxed);
        return Res { read, ingredient: format!("calls{calls}"), archive: "-".into(), peak, ms: t0.elapsed().as_millis() as u64, detail: d1 };
    }
    let (read, d1) = one_entry(|| Reader::from_context(Context::new().with_settings(offline())?).with_stream(c.hint, Cursor::new(c.data.clone())));
    detail.push_str(&d1);
    let (ingredient, d2) = one_entry(|| {
        let mut b = Builder::from_context(Context::new().with_settings(offline())?).with_definition(definition("c10", "image/jpeg").as_str())?;
        b.add_ingredient_from_stream(serde_json::json!({"title": "i", "relationship": "componentOf"}).to_string(), c.hint, &mut Cursor::new(c.data.clone()))?;
        Ok(())
    });
    detail.push_str(&d2);
    let (archive, d3) = if c.what.starts_with("synth:") {
        // the handler's other entry points: object locations, box map, remove, write
        use c2pa::verif_hooks::c07 as h07;
        let store = jb::join(&jb::jumd(b"c2pa", "c2pa"), &[]);
        let mut worst = ("h-err".to_string(), String::new());
        let mut all_ok = true;
        let entries: [(&str, Box<dyn FnOnce() -> c2pa::Result<()> + '_>); 5] = [
            ("read_cai", Box::new(|| h07::read_cai(c.hint, &mut Cursor::new(c.data.clone())).map(|_| ()))),
            ("object_locations", Box::new(|| h07::object_locations(c.hint, &mut Cursor::new(c.data.clone())).map(|_| ()))),
            ("box_map", Box::new(|| h07::box_map(c.hint, &mut Cursor::new(c.data.clone())).unwrap_or(Ok(vec![])).map(|_| ()))),
            ("remove", Box::new(|| h07::remove_cai_store_from_stream(c.hint, &mut Cursor::new(c.data.clone()), &mut Cursor::new(Vec::new())))),
            ("write", Box::new(|| h07::write_cai(c.hint, &mut Cursor::new(c.data.clone()), &mut Cursor::new(Vec::new()), &store))),
        ];
        for (name, f) in entries {
            let (o, d) = one_entry(f);
            if o == "panic" {
                worst = (format!("hpanic-{name}"), d);
                all_ok = false;
                break;
            }
            all_ok &= o == "ok";
        }
        if all_ok {
            worst.0 = "h-ok".into();
        }
        worst
    } else if c.archive {
        one_entry(|| Builder::from_context(Context::new().with_settings(offline())?).with_archive(Cursor::new(c.data.clone())).map(|_| ()))
    } else {
        ("-".into(), String::new())
    };
    detail.push_str(&d3);
    let peak = PEAK.load(Ordering::Relaxed).saturating_sub(base);
    Res { read, ingredient, archive, peak, ms: t0.elapsed().as_millis() as u64, detail }
}

/// What one case may hold at its peak: a small multiple of the input (the entry points copy the
/// input and keep parsed forms of it: measured at most ~8x), a constant for the SDK's fixed
/// tables (trust lists, settings: measured ~2 MiB), and the configured decompression limit
/// (32 MiB, reserved up front) once per `brob` box the input contains.
fn alloc_allowance(data: &[u8]) -> usize {
    // the limit itself (the sink, reserved up front) + the parsed copy of what was decompressed
    let one_limit = if brob_count(data) > 0 { 65 << 20 } else { 0 };
    24 * data.len() + (8 << 20) + one_limit
}

fn brob_count(data: &[u8]) -> usize {
    data.windows(4).filter(|w| w == b"brob").count()
}

/// An ID3v2 tag at the start of the input has a frame header that declares more data than the
/// whole input holds.
fn id3_oversize_frame(d: &[u8]) -> bool {
    if d.len() < 20 || &d[..3] != b"ID3" || d[3] < 3 {
        return false;
    }
    let syncsafe = |b: &[u8]| ((b[0] as usize & 0x7f) << 21) | ((b[1] as usize & 0x7f) << 14) | ((b[2] as usize & 0x7f) << 7) | (b[3] as usize & 0x7f);
    let end = (10 + syncsafe(&d[6..10])).min(d.len());
    let mut i = 10;
    while i + 10 <= end && d[i] != 0 {
        let plain = u32::from_be_bytes([d[i + 4], d[i + 5], d[i + 6], d[i + 7]]) as usize;
        let size = if d[3] >= 4 { syncsafe(&d[i + 4..i + 8]) } else { plain };
        if size > d.len() || (d[3] >= 4 && plain > d.len() && d[i + 4..i + 8].iter().any(|b| b & 0x80 != 0)) {
            return true;
        }
        i += 10 + size;
    }
    false
}

/// The kind of input a resource failure is attributed to (known findings are keyed by it):
/// the two input kinds with a known cause, else the format hint.
fn input_kind(c: &Case) -> String {
    if id3_oversize_frame(&c.data) {
        "id3-oversize-frame".into()
    } else if brob_count(&c.data) >= 2 {
        "multi-brob".into()
    } else {
        c.hint.to_string()
    }
}

enum Outcome {
    Done(Res),
    Hang,
    Crash(String),
}

/// wall-clock backstop per case (blocked / sleeping code); the working budget is CPU time
const CASE_BUDGET: Duration = Duration::from_secs(90);
/// CPU seconds one case may use (enforced with RLIMIT_CPU in the worker: robust against machine load)
const CPU_BUDGET: u64 = 12;
const AS_LIMIT: u64 = 3 << 30;

/// Run `cases[from..]` in a forked child. Returns the outcomes obtained and the index of the
/// first case that was not completed by this child (== cases.len() when all ran).
fn run_batch(cases: &[Case], from: usize, errfile: &std::path::Path) -> (Vec<Outcome>, usize) {
    let mut outs = vec![];
    unsafe {
        let mut fds = [0i32; 2];
        if libc::pipe(fds.as_mut_ptr()) != 0 {
            return (outs, from);
        }
        let pid = libc::fork();
        if pid < 0 {
            return (outs, from);
        }
        if pid == 0 {
            libc::close(fds[0]);
            let lim = libc::rlimit { rlim_cur: AS_LIMIT, rlim_max: AS_LIMIT };
            libc::setrlimit(libc::RLIMIT_AS, &lim);
            let core = libc::rlimit { rlim_cur: 0, rlim_max: 0 };
            libc::setrlimit(libc::RLIMIT_CORE, &core);
            if let Ok(p) = std::ffi::CString::new(errfile.to_string_lossy().as_bytes()) {
                let fd = libc::open(p.as_ptr(), libc::O_WRONLY | libc::O_CREAT | libc::O_TRUNC, 0o600);
                if fd >= 0 {
                    libc::dup2(fd, 2);
                }
            }
            for (k, c) in cases.iter().enumerate().skip(from) {
                // CPU budget for this case: soft RLIMIT_CPU = CPU used so far + budget (SIGXCPU ends the worker)
                let mut ru: libc::rusage = std::mem::zeroed();
                libc::getrusage(libc::RUSAGE_SELF, &mut ru);
                let used = (ru.ru_utime.tv_sec + ru.ru_stime.tv_sec) as u64 + 1;
                let cpu = libc::rlimit { rlim_cur: used + CPU_BUDGET, rlim_max: libc::RLIM_INFINITY };
                libc::setrlimit(libc::RLIMIT_CPU, &cpu);
                let start = format!("S {k}\n");
                libc::write(fds[1], start.as_ptr() as *const c_void, start.len());
                let r = exec_case(c);
                let line = format!("D {k} {} {} {} {} {} {}\n", r.read, r.ingredient, r.archive, r.peak, r.ms, r.detail.replace(['\n', ' '], "_"));
                libc::write(fds[1], line.as_ptr() as *const c_void, line.len());
            }
            libc::_exit(0);
        }
        libc::close(fds[1]);
        let mut buf: Vec<u8> = vec![];
        let mut started: Option<(usize, Instant)> = None;
        let mut next = from;
        let mut verdict: Option<Outcome> = None;
        'outer: loop {
            // complete lines
            while let Some(p) = buf.iter().position(|b| *b == b'\n') {
                let line = String::from_utf8_lossy(&buf[..p]).to_string();
                buf.drain(..=p);
                let t: Vec<&str> = line.split(' ').collect();
                match t.first().copied() {
                    Some("S") => started = Some((t[1].parse().unwrap_or(next), Instant::now())),
                    Some("D") if t.len() >= 7 => {
                        outs.push(Outcome::Done(Res {
                            read: t[2].into(),
                            ingredient: t[3].into(),
                            archive: t[4].into(),
                            peak: t[5].parse().unwrap_or(0),
                            ms: t[6].parse().unwrap_or(0),
                            detail: t.get(7).copied().unwrap_or("").to_string(),
                        }));
                        next += 1;
                        started = None;
                    }
                    _ => {}
                }
            }
            if next >= cases.len() {
                break;
            }
            let remaining = match started {
                Some((_, t0)) => CASE_BUDGET.checked_sub(t0.elapsed()),
                None => Some(CASE_BUDGET),
            };
            let Some(remaining) = remaining else {
                verdict = Some(Outcome::Hang);
                break 'outer;
            };
            let mut pfd = libc::pollfd { fd: fds[0], events: libc::POLLIN, revents: 0 };
            let rc = libc::poll(&mut pfd, 1, remaining.as_millis().max(1) as i32);
            if rc == 0 {
                verdict = Some(Outcome::Hang);
                break;
            }
            let mut tmp = [0u8; 8192];
            let got = libc::read(fds[0], tmp.as_mut_ptr() as *mut c_void, tmp.len());
            if got <= 0 {
                // child is gone
                break;
            }
            buf.extend_from_slice(&tmp[..got as usize]);
        }
        libc::close(fds[0]);
        if matches!(verdict, Some(Outcome::Hang)) {
            libc::kill(pid, libc::SIGKILL);
        }
        let mut status = 0;
        libc::waitpid(pid, &mut status, 0);
        if next < cases.len() {
            let o = match verdict {
                Some(Outcome::Hang) => Outcome::Hang,
                _ if libc::WIFSIGNALED(status) && libc::WTERMSIG(status) == libc::SIGXCPU && !std::fs::read_to_string(errfile).unwrap_or_default().contains("memory allocation of") => Outcome::Hang,
                _ => {
                    let err = std::fs::read_to_string(errfile).unwrap_or_default();
                    let head: String = err.lines().next().unwrap_or("").chars().take(120).collect();
                    let tail: String = format!("{head} … {}", err.chars().rev().take(240).collect::<String>().chars().rev().collect::<String>());
                    let how = if libc::WIFSIGNALED(status) { format!("signal {}", libc::WTERMSIG(status)) } else { format!("exit {}", libc::WEXITSTATUS(status)) };
                    Outcome::Crash(format!("{how}: {}", tail.replace('\n', " | ")))
                }
            };
            outs.push(o);
            next += 1;
        }
        (outs, next)
    }
}

fn run_cases(cases: &[Case], errfile: &std::path::Path) -> Vec<Outcome> {
    let mut all = vec![];
    let mut from = 0;
    while from < cases.len() {
        let (mut outs, next) = run_batch(cases, from, errfile);
        if next == from {
            // fork failed; give up on this case
            outs.push(Outcome::Crash("fork failed".into()));
            all.append(&mut outs);
            from += 1;
        } else {
            all.append(&mut outs);
            from = next;
        }
    }
    all
}

fn handler_of(hint: &str) -> &str {
    hint
}

/// Delta-debug a failing mutant against its seed: revert as many differing byte ranges as possible
/// while the failure (same class) persists. Only for same-length mutants; others are kept as is.
fn minimise(seed: &[u8], case: &Case, class_of: &dyn Fn(&Outcome, &Case) -> Option<String>, class: &str, errfile: &std::path::Path) -> Vec<u8> {
    let mut cur = case.data.clone();
    if cur.len() != seed.len() {
        // shrink by truncation from the end while the failure persists
        let mut step = cur.len() / 2;
        let mut budget = 24;
        while step >= 1 && budget > 0 {
            if cur.len() > step {
                let mut t = cur.clone();
                t.truncate(cur.len() - step);
                let c = Case { data: t.clone(), ..case.clone() };
                let o = run_cases(std::slice::from_ref(&c), errfile);
                budget -= 1;
                if o.first().and_then(|o| class_of(o, &c)).as_deref() == Some(class) {
                    cur = t;
                    continue;
                }
            }
            step /= 2;
        }
        return cur;
    }
    let mut diffs: Vec<usize> = (0..cur.len()).filter(|i| cur[*i] != seed[*i]).collect();
    let mut chunk = diffs.len().div_ceil(2).max(1);
    let mut budget = 40;
    while !diffs.is_empty() && budget > 0 {
        let mut progressed = false;
        let mut k = 0;
        while k < diffs.len() && budget > 0 {
            let part: Vec<usize> = diffs[k..(k + chunk).min(diffs.len())].to_vec();
            let mut t = cur.clone();
            for i in &part {
                t[*i] = seed[*i];
            }
            let c = Case { data: t.clone(), ..case.clone() };
            let o = run_cases(std::slice::from_ref(&c), errfile);
            budget -= 1;
            if o.first().and_then(|o| class_of(o, &c)).as_deref() == Some(class) {
                cur = t;
                diffs.retain(|i| !part.contains(i));
                progressed = true;
            } else {
                k += chunk;
            }
        }
        if chunk == 1 && !progressed {
            break;
        }
        chunk = (chunk / 2).max(1);
    }
    cur
}

pub fn run(run: &mut Run, rng: &mut Rng) {
    run.rule = "model-level (each answered by the real code): read_to_vec / safe_vec::<T> / BoundedVecWriter on random and boundary arguments; Store::from_jumbf_with_context on real stores with manifests padded to decompress to limit-1 / limit / limit+1 bytes (reservations counted by the allocator) and on real manifests with MAX-1 / MAX / MAX+1 assertion boxes; Builder::with_definition / add_assertion and Claim::add_assertion around MAX_ASSERTIONS (non-trivial = the guard let the request through). search: every seed (fixtures, freshly signed assets of every writable format, compressed manifests, raw stores with ES256 / Ed25519 / time-stamped / OCSP-stapled / legacy signatures, archives) under every hint; structured probes: JUMBF nesting to 60000, consistent length sweeps of every box/chunk of small seeds, COSE_Sign1 header-shape mutants (x5chain / alg / protected container / sigTst / sigTst2 / rVals / pad / crit / payload / signature / arity / tags) and DER mutants of certificates, time-stamp tokens and OCSP responses — in raw stores with all box sizes rebuilt and inside the asset of every container at the same length (pad adjusted); brotli-stream truncations and bit flips, bombs at / over / far over the default limit, several limit-sized compressed manifests; ID3v2 tag / frame / GEOB mutants; zip archives whose directory names the same stored bytes many times; an OCSP responder that lies about Content-Length; then random structure-aware mutants (bit flips, length-field edits, truncation at structural boundaries, box duplication / deletion / self-nesting, CBOR head inflation and nesting runs, XML nesting, splices, swaps). Entry points: Reader::with_stream, Builder::add_ingredient_from_stream, Builder::with_archive; each case in a forked worker with RLIMIT_AS 3 GiB, 12 s CPU (RLIMIT_CPU; 90 s wall-clock backstop), catch_unwind, peak-heap accounting (<= 24 x input + 8 MiB, + 65 MiB with a brob box). non-trivial = a case that reached a parser (any outcome) — distinct by (seed, mutation, hint)".to_string();
    let thorough = run.thorough();
    guard_cases(run, rng);
    limit_cases(run, rng);
    // development aid: the obligation makes a check run with the search switched off fail
    let skip = std::env::var("C10_SKIP_SEARCH").is_ok();
    run.obligations.insert("search_ran".into(), !skip);
    if skip {
        return;
    }

    let dir = scratch("c10");
    let errfile = dir.join("child-stderr.txt");
    let corpus = std::path::PathBuf::from("/verif/corpus/C10");
    let seeds = seeds(run);
    run.notes.push(format!("{} seeds: {}", seeds.len(), seeds.iter().map(|s| format!("{}({})", s.name, s.data.len())).collect::<Vec<_>>().join(", ")));
    let fields: Vec<Vec<(usize, usize, bool, usize, usize, usize, u64)>> = seeds.iter().map(|s| length_fields(&s.data)).collect();

    // budget: quick ~2.5k cases, thorough ~100k
    let total = if thorough { 150_000usize } else { 7_000 };

    let class_of = |o: &Outcome, c: &Case| -> Option<String> {
        let h = handler_of(c.hint);
        let kind = input_kind(c);
        match o {
            Outcome::Hang => Some(format!("hang:{kind}")),
            Outcome::Crash(why) => {
                if why.contains("memory allocation of") || why.contains("out of memory") {
                    Some(format!("oom:{kind}"))
                } else if why.contains("overflowed its stack") {
                    Some(format!("stack-overflow:{h}"))
                } else {
                    Some(format!("crash:{h}"))
                }
            }
            Outcome::Done(r) => {
                if r.read == "panic" {
                    Some(format!("panic:read:{h}"))
                } else if r.ingredient == "panic" {
                    Some(format!("panic:ingredient:{h}"))
                } else if r.archive == "panic" {
                    Some("panic:archive".to_string())
                } else if let Some(which) = r.archive.strip_prefix("hpanic-") {
                    Some(format!("panic:{which}:{h}"))
                } else if r.peak > alloc_allowance(&c.data) {
                    Some(format!("alloc-excess:{kind}"))
                } else {
                    None
                }
            }
        }
    };

    let mut done = 0usize;
    let mut max_peak = 0usize;
    let mut max_ms = 0u64;
    let mut slowest = String::new();
    let mut saved: std::collections::BTreeSet<String> = Default::default();
    let mut batch: Vec<Case> = vec![];
    let mut batch_bytes = 0usize;
    let mut n_struct = 0usize;
    let t_struct = Instant::now();
    let mut peaks = std::env::var("C10_DUMP_PEAKS").ok().and_then(|p| std::fs::File::create(p).ok());
    let mut process = |run: &mut Run, batch: &[Case], done: &mut usize, from_search: bool| {
        let outs = run_cases(batch, &errfile);
        for (c, o) in batch.iter().zip(outs.iter()) {
            *done += 1;
            let sname = seeds.get(c.seed).map(|s| s.name.as_str()).unwrap_or("tiny");
            let cls = class_of(o, c);
            let outcome = match (&cls, o) {
                (Some(k), _) => k.clone(),
                (None, Outcome::Done(r)) => format!("{}/{}/{}", r.read, r.ingredient, r.archive),
                _ => "?".into(),
            };
            if let Outcome::Done(r) = o {
                if let Some(f) = peaks.as_mut() {
                    use std::io::Write;
                    let _ = writeln!(f, "{}\t{}\t{}\t{}\t{}", c.data.len(), r.peak, c.hint, sname, c.what);
                }
                max_peak = max_peak.max(r.peak);
                if r.ms > max_ms {
                    max_ms = r.ms;
                    slowest = format!("{sname} {} hint {} ({} bytes)", c.what, c.hint, c.data.len());
                }
                run.count(&format!("read_{}", r.read));
                run.count(&format!("ingredient_{}", r.ingredient));
                if r.archive != "-" {
                    run.count(&format!("archive_{}", r.archive));
                }
            }
            run.count(&format!("mut_{}", c.what.split(['@', ' ', ':', '[', '=', '(']).next().unwrap_or("").trim_end_matches(|ch: char| ch.is_ascii_digit())));
            let idx = run.case(
                format!("C10 e2e id={} seed={} mut={} hint={} len={} outcome={}", *done, sname.replace(' ', "_"), c.what.replace(' ', "_"), c.hint, c.data.len(), outcome.replace(' ', "_")),
                outcome.replace(' ', "_"),
            );
            run.nontrivial(format!("{sname} {} {}", c.what, c.hint));
            if let Some(k) = cls {
                let detail = match o {
                    Outcome::Done(r) => format!("peak heap {} bytes, {} ms; {}", r.peak, r.ms, r.detail),
                    Outcome::Crash(w) => w.clone(),
                    Outcome::Hang => format!("no result within {CPU_BUDGET} s of CPU time (or {} s wall-clock)", CASE_BUDGET.as_secs()),
                };
                // minimise once per class, save the input
                let mut file = String::new();
                // (structured probes are minimal by construction and are regenerated on every run:
                // only inputs found by the random search are minimised and kept in the corpus)
                if from_search && !saved.contains(&k) && saved.len() < 12 {
                    saved.insert(k.clone());
                    let min = match seeds.get(c.seed) {
                        Some(s) => minimise(&s.data, c, &class_of, &k, &errfile),
                        None => c.data.clone(),
                    };
                    let _ = std::fs::create_dir_all(&corpus);
                    let fname = format!("{}-{}.bin", k.replace([':', '/'], "_"), c.hint.replace('/', "_"));
                    if std::fs::write(corpus.join(&fname), &min).is_ok() {
                        file = format!(" [minimised input ({} bytes, hint {}) saved as corpus/C10/{fname}]", min.len(), c.hint);
                    }
                }
                run.fail(idx, &k, format!("seed {sname}, mutation {}, hint {}, {} bytes: {detail}{file}", c.what, c.hint, c.data.len()));
            }
        }
    };
    // The structured cases are run as they are generated: the forked workers inherit this
    // process's address space, so it must stay small (a few hundred MB at most).
    macro_rules! emit {
        ($c:expr) => {{
            let c: Case = $c;
            batch_bytes += c.data.len() + 256;
            n_struct += 1;
            batch.push(c);
            if batch_bytes > (160 << 20) || batch.len() >= 4096 {
                process(run, &batch, &mut done, false);
                batch.clear();
                batch_bytes = 0;
            }
        }};
    }
    // first: every seed unmodified under every hint (and as archive)
    for (si, s) in seeds.iter().enumerate() {
        let hs: Vec<&'static str> = if thorough || s.data.len() <= 300_000 { HINTS.to_vec() } else { vec![s.fmt, "xyz/unknown", "application/c2pa", "image/jpeg", "video/mp4", "image/tiff"] };
        for h in hs {
            emit!(Case { seed: si, what: "seed".into(), hint: h, data: s.data.clone(), archive: s.archive || h == "application/c2pa" });
        }
    }
    // structured probes: raw JUMBF stores nested to fixed depths (around and far beyond the limit)
    for (si, s) in seeds.iter().enumerate() {
        for depth in [1usize, 30, 31, 32, 33, 64, 1000, 20_000, 60_000] {
            if let Some(w) = jumbf_wrap(&s.data, depth) {
                for h in ["application/c2pa", "xyz/unknown"] {
                    emit!(Case { seed: si, what: format!("jumbf-wrap x{depth}"), hint: h, data: w.clone(), archive: true });
                }
            }
        }
    }
    // structured probes: for small seeds every length field is swept through the small values
    // (where "field shorter than its fixed part" bugs live) and the boundary values
    for (si, s) in seeds.iter().enumerate() {
        if s.data.len() > 8192 {
            continue;
        }
        let nf = if thorough { 64 } else { 16 };
        for (off, w, be, _, span, _, _) in fields[si].iter().take(nf) {
            let max = if *w == 4 { u32::MAX as u64 } else { u16::MAX as u64 };
            let mut vals: Vec<u64> = (0..if thorough { 80 } else { 26 }).collect();
            vals.extend_from_slice(&[max, max - 1, max / 2, max / 2 + 1, *span as u64 & max, (*span as u64 + 1) & max, s.data.len() as u64 & max]);
            let f = fields[si].iter().find(|f| f.0 == *off && f.4 == *span).copied();
            for v in vals {
                let mut d = s.data.clone();
                put(&mut d, *off, *w, *be, v);
                emit!(Case { seed: si, what: format!("sweep-len@{off}={v}"), hint: s.fmt, data: d, archive: false });
                if let Some(r) = f.as_ref().and_then(|f| resize(&s.data, f, v)) {
                    emit!(Case { seed: si, what: format!("sweep-resize@{off}={v}"), hint: s.fmt, data: r, archive: false });
                }
            }
        }
    }
    // structure-aware COSE_Sign1 / X.509 / time-stamp / OCSP mutants of the signature box
    // (a) in a raw store, with every enclosing box size rebuilt
    for (si, s) in seeds.iter().enumerate() {
        if !(s.name.starts_with("store:") || s.name == "fixture:cloud_manifest.c2pa") {
            continue;
        }
        let sigs = signature_boxes(&s.data);
        let n = sigs.len();
        for (k, (mi, ki, cose)) in sigs.into_iter().enumerate() {
            let active = k + 1 == n;
            if !active && !thorough {
                continue;
            }
            let extra = if thorough { 300 } else { 25 };
            for (what, v) in cosemut::mutants(&cose, rng, if active { extra } else { extra / 6 }) {
                if let Some(d) = with_signature(&s.data, mi, ki, &cosemut::enc(&v)) {
                    emit!(Case { seed: si, what: format!("cose[{k}]:{what}"), hint: "application/c2pa", data: d, archive: false });
                }
            }
        }
        run.count("cose_store_seeds");
    }
    // (b) inside the asset of every container format: same length (the `pad` header entry takes
    // the difference), replaced in place where the signature bytes are contiguous in the file
    for (si, s) in seeds.iter().enumerate() {
        // (not PDF: lopdf starts a rayon pool in this process, whose threads do not exist in the
        // forked workers — every later PDF case would block)
        if s.archive || s.fmt == "application/c2pa" || s.fmt == "application/pdf" || !(s.name.starts_with("signed") || s.name.starts_with("compressed") || s.name.starts_with("fixture:")) {
            continue;
        }
        let Ok(Ok(store)) = guarded(|| c2pa::jumbf_io::load_jumbf_from_memory(s.fmt, &s.data)) else { continue };
        let Some((_, _, cose)) = signature_boxes(&store).pop() else { continue };
        let Some(at) = find_sub(&s.data, &cose) else {
            run.count("cose_in_asset_not_contiguous");
            continue;
        };
        run.count("cose_in_asset_seeds");
        let all = cosemut::mutants(&cose, rng, if thorough { 120 } else { 12 });
        let step = if thorough { 1 } else { 5 };
        for (j, (what, v)) in all.into_iter().enumerate() {
            if what.starts_with("pad") || (j + si) % step != 0 {
                continue;
            }
            match cosemut::fit(&v, cose.len()) {
                Some(b) => {
                    let mut d = s.data.clone();
                    d[at..at + b.len()].copy_from_slice(&b);
                    emit!(Case { seed: si, what: format!("cose-in-asset:{what}"), hint: s.fmt, data: d, archive: false });
                }
                None => run.count("cose_in_asset_no_fit"),
            }
        }
    }
    // a remote server that lies about Content-Length (OCSP responder of the signing certificate)
    for (si, s) in seeds.iter().enumerate() {
        if s.fmt == "image/jpeg" && s.name.starts_with("fixture:") {
            for h in REMOTE_HINTS {
                emit!(Case { seed: si, what: "remote-ocsp".into(), hint: h, data: s.data.clone(), archive: false });
            }
        }
    }
    // decompression through the public readers at the default limit (32 MiB): at / over the
    // limit, bombs, several limit-sized manifests in one store
    if let Some((si, s)) = seeds.iter().enumerate().find(|(_, s)| s.name == "store:fresh-ed25519") {
        if let Some((top, manifests)) = jb::split(&s.data) {
            if let Some(base) = manifests.last() {
                let lim = 32usize << 20;
                let mut sizes = vec![("brob-at-limit", lim), ("brob-over-limit", lim + 1), ("brob-bomb-x4", 4 * lim)];
                if thorough {
                    sizes.push(("brob-bomb-x12", 12 * lim));
                }
                for (what, size) in sizes {
                    if let Some(m) = padded_to(base, size).and_then(|m| compressed(&m)) {
                        emit!(Case { seed: si, what: what.into(), hint: "application/c2pa", data: jb::join(&top, &[m]), archive: false });
                    }
                }
                for k in if thorough { vec![2usize, 4, 8] } else { vec![2] } {
                    let ms: Vec<Vec<u8>> = (0..k).filter_map(|i| with_big_assertion(base, lim - base.len() - 4096).and_then(|m| relabelled(&m, i)).and_then(|m| compressed(&m))).collect();
                    if ms.len() == k {
                        emit!(Case { seed: si, what: format!("brob-limit-sized x{k}"), hint: "application/c2pa", data: jb::join(&top, &ms), archive: false });
                    }
                }
            }
        }
    }
    // brotli-stream mutants of a compressed manifest (raw store, box sizes rebuilt)
    if let Some((si, s)) = seeds.iter().enumerate().find(|(_, s)| s.name == "store:fresh-compressed") {
        if let Some(p) = brob_payload(&s.data) {
            let mut streams: Vec<(String, Vec<u8>)> = vec![];
            for n in (0..=p.len().min(48)).chain((0..24).map(|_| rng.below(p.len() as u64 + 1) as usize)) {
                streams.push((format!("brotli-truncate={n}"), p[..n].to_vec()));
            }
            for bit in (0..(p.len().min(12) * 8)).chain((0..if thorough { 600 } else { 60 }).map(|_| rng.below(p.len() as u64 * 8) as usize)) {
                let mut m = p.clone();
                m[bit / 8] ^= 1 << (bit % 8);
                streams.push((format!("brotli-bitflip={bit}"), m));
            }
            for b in 0u8..64 {
                streams.push((format!("brotli-one-byte={b:02x}"), vec![b]));
            }
            let mut twice = p.clone();
            twice.extend_from_slice(&p);
            streams.push(("brotli-concatenated".into(), twice));
            for extra in [1usize, 100, 70_000] {
                let mut m = p.clone();
                m.extend(rng.bytes(extra));
                streams.push((format!("brotli-trailing-garbage={extra}"), m));
            }
            streams.push(("brotli-random-1k".into(), rng.bytes(1024)));
            for (what, st) in streams {
                if let Some(d) = with_brob_payload(&s.data, &st) {
                    emit!(Case { seed: si, what, hint: "application/c2pa", data: d, archive: false });
                }
            }
        }
    }
    // ID3v2 structure mutants
    for (si, s) in seeds.iter().enumerate() {
        if s.data.starts_with(b"ID3") {
            let all = id3_mutants(&s.data);
            let step = if thorough || s.data.len() < 60_000 { 1 } else { 2 };
            for (j, (what, d)) in all.into_iter().enumerate() {
                if j % step == 0 {
                    emit!(Case { seed: si, what, hint: s.fmt, data: d, archive: false });
                }
            }
        }
    }
    // a builder archive whose directory names the same stored bytes many times
    {
        let manifest_json = definition("c10 zip", "image/jpeg");
        for (n, size) in if thorough { vec![(3usize, 1000usize), (400, 1 << 20), (4000, 1 << 20)] } else { vec![(3, 1000), (400, 1 << 20)] } {
            emit!(Case { seed: usize::MAX, what: format!("zip-overlap {n}x{size}"), hint: "application/c2pa", data: zip_overlap(manifest_json.as_bytes(), n, size), archive: true });
        }
    }
    // small synthetic containers of every format: one carrier (box / chunk / segment / frame / tag)
    // whose payload is every prefix 0..=64 (and the full form) of the headers the handlers look for
    // inside it — through read, ingredient and the handler's own entry points
    {
        let blobs = inner_blobs();
        for (fmt, carriers) in SYNTH {
            let hint: &'static str = HINTS.iter().find(|h| **h == fmt).copied().unwrap_or("xyz/unknown");
            for carrier in carriers {
                for (bi, (bname, blob)) in blobs.iter().enumerate() {
                    // quick: every blob in the format's first carrier, two blobs elsewhere
                    if !thorough && *carrier != carriers[0] && bi > 1 {
                        continue;
                    }
                    let mut lens: Vec<usize> = (0..=64.min(blob.len())).collect();
                    if blob.len() > 64 {
                        lens.extend([blob.len() - 1, blob.len()]);
                        if thorough {
                            lens.extend(65..blob.len() - 1);
                        }
                    }
                    for l in lens {
                        if let Some(d) = synth_container(fmt, carrier, &blob[..l]) {
                            emit!(Case { seed: usize::MAX, what: format!("synth:{}/{bname}={l}", carrier.trim_end_matches(|c: char| c.is_control())), hint, data: d, archive: false });
                        }
                    }
                }
            }
        }
    }
    // label / URI spellings (JUMBF description-box labels and the URIs naming them), same length,
    // inside the asset of every container and in raw stores
    for (si, s) in seeds.iter().enumerate() {
        let wanted = if thorough {
            s.data.len() <= 1_100_000
        } else {
            ["signed:IMG_0003.jpg", "signed:libpng-test.png", "signed:test.webp", "fixture:CA.jpg", "store:fresh-ed25519", "store:C.jpg", "store:CACA.jpg"].contains(&s.name.as_str())
        };
        if !wanted || s.archive {
            continue;
        }
        let step = if thorough { 1 } else { 4 };
        let mut keep = |j: usize, always: bool| always || (j + si) % step == 0;
        let ms = label_mutants(&s.data, &mut keep);
        if !ms.is_empty() {
            run.count("label_seeds");
        }
        for (what, d) in ms {
            emit!(Case { seed: si, what, hint: s.fmt, data: d, archive: false });
        }
    }
    // tiny inputs under every hint
    for h in HINTS {
        for d in [vec![], vec![0u8], vec![0xff, 0xd8], vec![0u8; 16], b"RIFF\xff\xff\xff\xffWEBP".to_vec(), b"\x00\x00\x00\x01ftyp".to_vec(), b"ID3\x04\x00\x00\x7f\x7f\x7f\x7f".to_vec(), b"II*\x00\xff\xff\xff\xff".to_vec(), b"GIF89a".to_vec(), b"\x89PNG\r\n\x1a\n\xff\xff\xff\xffIHDR".to_vec(), b"fLaC\x7f\xff\xff\xff".to_vec(), b"%PDF-1.7\n".to_vec(), b"<svg".to_vec(), b"PK\x03\x04".to_vec()] {
            emit!(Case { seed: usize::MAX, what: "tiny".into(), hint: h, data: d, archive: true });
        }
    }

    process(run, &batch, &mut done, false);
    batch.clear();
    run.notes.push(format!("structured part: {n_struct} cases in {} s", t_struct.elapsed().as_secs()));

    // replay the saved corpus (earlier findings stay in the run)
    if let Ok(rd) = std::fs::read_dir(&corpus) {
        let mut files: Vec<_> = rd.filter_map(|e| e.ok()).map(|e| e.path()).collect();
        files.sort();
        let mut b = vec![];
        for f in files {
            let name = f.file_name().map(|n| n.to_string_lossy().to_string()).unwrap_or_default();
            let hint = HINTS.iter().find(|h| name.ends_with(&format!("-{}.bin", h.replace('/', "_")))).copied().unwrap_or("xyz/unknown");
            if let Ok(d) = std::fs::read(&f) {
                b.push(Case { seed: usize::MAX, what: format!("corpus:{name}"), hint, data: d, archive: true });
            }
        }
        process(run, &b, &mut done, false);
    }

    // mutants (own time budget, after the structured part)
    let deadline = Instant::now() + if thorough { Duration::from_secs(420) } else { Duration::from_secs(35) };
    let before = done;
    while done - before < total && Instant::now() < deadline {
        let mut batch: Vec<Case> = Vec::with_capacity(96);
        for _ in 0..96 {
            // large seeds are drawn less often (cost per case grows with the size)
            let si = loop {
                let k = rng.below(seeds.len() as u64) as usize;
                let l = seeds[k].data.len();
                let keep = if l < 200_000 { 8 } else if l < 1_200_000 { 2 } else { 1 };
                if rng.below(8) < keep {
                    break k;
                }
            };
            let s = &seeds[si];
            let (m, what) = mutate(rng, &s.data, &fields[si]);
            let hint = match rng.below(10) {
                0 => "xyz/unknown",
                1 | 2 => *rng.pick(&HINTS),
                _ => s.fmt,
            };
            let archive = s.archive || rng.chance(1, 12);
            batch.push(Case { seed: si, what, hint, data: m, archive });
        }
        process(run, &batch, &mut done, true);
    }
    run.notes.push(format!("search: {done} cases; max peak heap of a completed case {max_peak} bytes; slowest completed case {max_ms} ms ({slowest})"));
    let _ = std::fs::remove_dir_all(&dir);
}
