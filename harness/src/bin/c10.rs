//! C10 — untrusted input never crashes, hangs or exhausts memory.
//!
//! Model-level requests (see lean/C2paModel/Model/C10.lean), answered by the real allocation
//! guards through the hooks `verif_hooks::c10` / `c35`:
//!   C10 tovec pos=<n> len=<n> want=<n>     -> ok <alloc> <read> | err:<kind>
//!   C10 bvw max=<n> writes=<n,n,…|->       -> ok <len> | err <len at refusal>
//!   C10 badd count=<n> k=<n>               -> <count after k add attempts>
//!   C10 e2e id=<n> … outcome=<class>       -> <class>   (echoed: there is no model of the SDK's
//!                                             parsers; the line carries the oracle's verdict so
//!                                             that the evidence counts the explored inputs)
//!
//! The search engine: structure-aware mutants of every supported format (seed corpus = fixtures,
//! freshly signed assets, compressed manifests, archives, sidecars) are pushed through
//! `Reader::with_stream`, `Builder::add_ingredient_from_stream` and `Builder::with_archive`
//! under the right hint, wrong hints and an unknown hint. Cases run in **forked workers** with
//! `RLIMIT_AS`, a per-case wall-clock budget enforced by the parent, `catch_unwind` inside, and a
//! counting global allocator that records the peak live heap of each case.
//!
//! Outcomes per case: `ok` / `err` (fine), `panic:<entry>:<handler>` (caught unwind),
//! `crash:<entry>:<handler>` (signal: abort, stack overflow, segfault), `hang:…` (budget
//! exceeded), `oom:…` (allocation failure under the address-space budget),
//! `alloc-excess:…` (peak heap far beyond input size and configured limits).

use std::{
    alloc::{GlobalAlloc, Layout, System},
    io::Cursor,
    os::raw::c_void,
    sync::atomic::{AtomicUsize, Ordering},
    time::{Duration, Instant},
};

use c2pa::{Builder, Context, Reader};
use vh::common::{fixtures, guarded, main_with, scratch, Rng, Run};
use vh::sign::{definition, sign_asset, unsigned_sources};

// ---------------------------------------------------------------------------------------------
// counting allocator

struct Counting;
static LIVE: AtomicUsize = AtomicUsize::new(0);
static PEAK: AtomicUsize = AtomicUsize::new(0);
static MAXREQ: AtomicUsize = AtomicUsize::new(0);

unsafe impl GlobalAlloc for Counting {
    unsafe fn alloc(&self, l: Layout) -> *mut u8 {
        let p = System.alloc(l);
        if !p.is_null() {
            let live = LIVE.fetch_add(l.size(), Ordering::Relaxed) + l.size();
            PEAK.fetch_max(live, Ordering::Relaxed);
            MAXREQ.fetch_max(l.size(), Ordering::Relaxed);
        }
        p
    }

    unsafe fn dealloc(&self, p: *mut u8, l: Layout) {
        System.dealloc(p, l);
        LIVE.fetch_sub(l.size(), Ordering::Relaxed);
    }

    unsafe fn realloc(&self, p: *mut u8, l: Layout, new_size: usize) -> *mut u8 {
        let q = System.realloc(p, l, new_size);
        if !q.is_null() {
            if new_size >= l.size() {
                let live = LIVE.fetch_add(new_size - l.size(), Ordering::Relaxed) + (new_size - l.size());
                PEAK.fetch_max(live, Ordering::Relaxed);
            } else {
                LIVE.fetch_sub(l.size() - new_size, Ordering::Relaxed);
            }
            MAXREQ.fetch_max(new_size, Ordering::Relaxed);
        }
        q
    }
}

#[global_allocator]
static A: Counting = Counting;

fn main() {
    let args: Vec<String> = std::env::args().collect();
    if args.len() >= 4 && args[1] == "time" {
        // c10 time <hint> <file>: run the three entry points once on a saved input (in process)
        let data = std::fs::read(&args[3]).expect("read input");
        let hint: &'static str = HINTS.iter().find(|h| **h == args[2]).copied().unwrap_or("xyz/unknown");
        let c = Case { seed: usize::MAX, what: "file".into(), hint, data, archive: true };
        let t0 = Instant::now();
        let r = exec_case(&c);
        println!("{} bytes hint {}: read {} ingredient {} archive {} peak {} bytes, {} ms (wall {} ms) {}", c.data.len(), hint, r.read, r.ingredient, r.archive, r.peak, r.ms, t0.elapsed().as_millis(), r.detail);
        return;
    }
    main_with("C10", run);
}

// ---------------------------------------------------------------------------------------------
// model-level cases: the allocation guards

fn guard_cases(run: &mut Run, rng: &mut Rng) {
    use c2pa::verif_hooks::{c10 as h10, c35 as h35};
    let thorough = run.thorough();
    // read_to_vec: allocation only after the range check
    let n = if thorough { 4000 } else { 600 };
    for i in 0..n {
        let len = match i % 4 {
            0 => rng.below(64),
            1 => rng.below(5000),
            _ => rng.below(70_000),
        };
        let pos = if rng.chance(1, 8) { len + rng.below(10) } else { rng.below(len + 1) };
        let want = match rng.below(10) {
            0 => u64::MAX,
            1 => u64::MAX - pos,
            2 => (u64::MAX - pos).saturating_add(1),
            3 => (len.saturating_sub(pos)) + 1,
            4 => len.saturating_sub(pos),
            5 => 1u64 << (32 + rng.below(31)),
            6 => i64::MAX as u64 + rng.below(3),
            _ => rng.below(len + 2),
        };
        let data = vec![0xabu8; len as usize];
        let mut cur = Cursor::new(data);
        cur.set_position(pos);
        LIVE.load(Ordering::Relaxed);
        MAXREQ.store(0, Ordering::Relaxed);
        let res = guarded(std::panic::AssertUnwindSafe(|| h35::read_to_vec(&mut cur, want)));
        let maxreq = MAXREQ.load(Ordering::Relaxed) as u64;
        let imp = match &res {
            Ok(Ok(v)) => format!("ok {} {}", v.capacity(), v.len()),
            Ok(Err(e)) => format!("err:{}", err_class(e)),
            Err(_) => "panic".to_string(),
        };
        let idx = run.case(format!("C10 tovec pos={pos} len={len} want={want}"), imp);
        run.count("guard_tovec");
        match res {
            Err(p) => run.fail(idx, "panic:read_to_vec", format!("read_to_vec(pos {pos}, len {len}, want {want}) panicked: {p}")),
            Ok(r) => {
                // property oracle, independent of the model: nothing larger than the remaining
                // stream (plus small bookkeeping) was requested from the allocator
                let remaining = len.saturating_sub(pos);
                if maxreq > remaining.max(4096) + 4096 {
                    run.fail(idx, "alloc-beyond-remaining:read_to_vec", format!("read_to_vec(pos {pos}, len {len}, want {want}) requested {maxreq} bytes with {remaining} left in the stream"));
                }
                if let Ok(v) = &r {
                    if pos.checked_add(want).map(|e| e > len).unwrap_or(true) || v.len() as u64 != want {
                        run.fail(idx, "read-past-end-accepted:read_to_vec", format!("read_to_vec(pos {pos}, len {len}, want {want}) returned Ok with {} bytes", v.len()));
                    }
                    run.nontrivial(format!("tovec {pos} {len} {want}"));
                }
            }
        }
    }
    // BoundedVecWriter under arbitrary chunk sequences
    let n = if thorough { 3000 } else { 500 };
    for _ in 0..n {
        let max = match rng.below(4) {
            0 => rng.below(8),
            1 => rng.below(300),
            _ => rng.below(20_000),
        } as usize;
        let k = rng.below(12) as usize;
        let writes: Vec<usize> = (0..k)
            .map(|_| match rng.below(5) {
                0 => 0,
                1 => max.saturating_sub(rng.below(3) as usize),
                2 => max + 1 + rng.below(5) as usize,
                _ => rng.below(max as u64 / 2 + 2) as usize,
            })
            .collect();
        let res = guarded(std::panic::AssertUnwindSafe(|| -> Result<(bool, usize, usize), String> {
            let mut w = h10::BoundedWriter::new(max).map_err(|e| err_class(&e))?;
            let mut refused = false;
            let mut held = 0usize;
            for n in &writes {
                match w.write(&vec![0x11u8; *n]) {
                    Ok(m) => held += m,
                    Err(_) => {
                        refused = true;
                        break;
                    }
                }
            }
            let v = w.into_inner();
            Ok((refused, v.len(), held))
        }));
        let ws = if writes.is_empty() { "-".to_string() } else { writes.iter().map(|x| x.to_string()).collect::<Vec<_>>().join(",") };
        let imp = match &res {
            Ok(Ok((false, len, _))) => format!("ok {len}"),
            Ok(Ok((true, len, _))) => format!("err {len}"),
            Ok(Err(e)) => format!("err:{e}"),
            Err(_) => "panic".into(),
        };
        let idx = run.case(format!("C10 bvw max={max} writes={ws}"), imp);
        run.count("guard_bvw");
        match res {
            Err(p) => run.fail(idx, "panic:bounded_writer", format!("BoundedVecWriter max {max} writes {ws}: {p}")),
            Ok(Ok((refused, len, _))) => {
                let total: usize = writes.iter().sum();
                if len > max {
                    run.fail(idx, "bounded-writer-over-limit", format!("BoundedVecWriter(max {max}) holds {len} bytes after writes {ws}"));
                }
                if !refused && total > max {
                    run.fail(idx, "bounded-writer-over-limit", format!("BoundedVecWriter(max {max}) accepted {total} bytes"));
                }
                run.nontrivial(format!("bvw {max} {refused} {}", writes.len()));
            }
            _ => {}
        }
    }
    // safe_vec with absurd counts: an error, never an abort
    for cnt in [0u64, 1, 4096, 1 << 40, (i64::MAX as u64), (i64::MAX as u64) + 1, u64::MAX] {
        let res = guarded(std::panic::AssertUnwindSafe(|| h10::safe_vec_u8(cnt).map(|v| v.capacity())));
        run.count("guard_safe_vec");
        if let Err(p) = res {
            let idx = run.reqs.len().saturating_sub(1);
            run.fail(idx, "panic:safe_vec", format!("safe_vec({cnt}) panicked: {p}"));
        }
    }
    // the builder's assertion limit (one long run; MAX_ASSERTIONS adds take a moment)
    let max = h10::MAX_ASSERTIONS;
    run.obligations.insert("max_assertions_is_100000".into(), max == 100_000);
    let store_rs = std::fs::read_to_string("/repo/sdk/src/store.rs").unwrap_or_default();
    run.obligations.insert(
        "reader_checks_assertion_count_before_loop".into(),
        store_rs.find("if num_assertions > MAX_ASSERTIONS").map(|a| store_rs[a..].find("for idx in 0..num_assertions").is_some()).unwrap_or(false),
    );
    let start = if thorough { 0 } else { max - 40 };
    let attempts = if thorough { max + 25 } else { 65 };
    let res = guarded(std::panic::AssertUnwindSafe(|| -> c2pa::Result<usize> {
        let mut b = Builder::from_context(Context::new()).with_definition(definition("c10", "image/jpeg").as_str())?;
        // the definition comes with one assertion (c2pa.actions); bring the count to `start`
        let have = b.definition.assertions.len();
        if start > have {
            let proto = b.definition.assertions[0].clone();
            b.definition.assertions.extend(std::iter::repeat(proto).take(start - have));
        }
        for i in 0..attempts {
            let _ = b.add_assertion(format!("org.verif.a{i}"), &serde_json::json!({"i": i}));
        }
        Ok(b.definition.assertions.len())
    }));
    let begin = start.max(1);
    let imp = match &res {
        Ok(Ok(n)) => n.to_string(),
        Ok(Err(e)) => format!("err:{}", err_class(e)),
        Err(_) => "panic".into(),
    };
    let idx = run.case(format!("C10 badd count={begin} k={attempts}"), imp);
    match res {
        Ok(Ok(n)) if n <= max => run.nontrivial("badd".into()),
        Ok(Ok(n)) => run.fail(idx, "assertion-limit-exceeded", format!("builder holds {n} assertions (limit {max})")),
        other => run.fail(idx, "panic:add_assertion", format!("{:?}", other.map(|r| r.map_err(|e| err_class(&e))))),
    }
}

fn err_class(e: &c2pa::Error) -> String {
    let d = format!("{e:?}");
    d.chars().take_while(|c| c.is_ascii_alphanumeric()).collect()
}

// ---------------------------------------------------------------------------------------------
// seeds and mutations

#[derive(Clone)]
struct Seed {
    name: String,
    fmt: &'static str,
    data: Vec<u8>,
    archive: bool,
}

fn offline() -> &'static str {
    r#"{"verify":{"remote_manifest_fetch":false,"ocsp_fetch":false}}"#
}

fn seeds(run: &mut Run) -> Vec<Seed> {
    let thorough = run.thorough();
    let cap = if thorough { 2_600_000 } else { 1_200_000 };
    let mut out = vec![];
    let mut add = |name: String, fmt: &'static str, data: Vec<u8>, archive: bool| {
        if !data.is_empty() && data.len() <= cap {
            out.push(Seed { name, fmt, data, archive });
        }
    };
    for (fmt, name) in unsigned_sources() {
        if let Ok(src) = std::fs::read(fixtures().join(name)) {
            if src.len() > cap {
                continue;
            }
            add(format!("unsigned:{name}"), fmt, src.clone(), false);
            if let Ok(Ok(s)) = guarded(|| sign_asset(fmt, &src, Some(offline()))) {
                add(format!("signed:{name}"), fmt, s, false);
            }
        }
    }
    // formats whose fixtures are large: a prefix keeps the container header, the metadata and
    // the place where a manifest goes
    for (fmt, name) in unsigned_sources() {
        if let Ok(src) = std::fs::read(fixtures().join(name)) {
            if src.len() > cap {
                let pre = src[..150_000.min(src.len())].to_vec();
                if let Ok(Ok(s)) = guarded(|| sign_asset(fmt, &pre, Some(offline()))) {
                    add(format!("signed-prefix:{name}"), fmt, s, false);
                }
                add(format!("prefix:{name}"), fmt, pre, false);
            }
        }
    }
    // compressed manifest (brotli box) in JPEG and PNG
    for (fmt, name) in [("image/jpeg", "IMG_0003.jpg"), ("image/png", "libpng-test.png")] {
        if let Ok(src) = std::fs::read(fixtures().join(name)) {
            let st = r#"{"core":{"prefer_compress_manifests":true},"verify":{"remote_manifest_fetch":false,"ocsp_fetch":false}}"#;
            if let Ok(Ok(s)) = guarded(|| sign_asset(fmt, &src, Some(st))) {
                add(format!("compressed:{name}"), fmt, s, false);
            }
        }
    }
    // fixtures that carry manifests of several shapes
    for (name, fmt) in [
        ("CA.jpg", "image/jpeg"),
        ("CACA.jpg", "image/jpeg"),
        ("XCA.jpg", "image/jpeg"),
        ("E-sig-CA.jpg", "image/jpeg"),
        ("cloud_manifest.c2pa", "application/c2pa"),
        ("boxhash.jpg", "image/jpeg"),
        ("legacy.mp4", "video/mp4"),
        ("video1.mp4", "video/mp4"),
        ("dashinit.mp4", "video/mp4"),
        ("dash1.m4s", "video/mp4"),
        ("sample1.svg", "image/svg+xml"),
        ("sample1.mp3", "audio/mpeg"),
        ("sample1.wav", "audio/wav"),
        ("sample1.gif", "image/gif"),
        ("sample1.webp", "image/webp"),
        ("sample1.avif", "image/avif"),
        ("sample1.heic", "image/heic"),
        ("sample1.flac", "audio/flac"),
        ("sample1.jxl", "image/jxl"),
        ("TUSCANY.TIF", "image/tiff"),
        ("basic.pdf", "application/pdf"),
        ("express-signed.pdf", "application/pdf"),
    ] {
        if let Ok(d) = std::fs::read(fixtures().join(name)) {
            add(format!("fixture:{name}"), fmt, d, false);
        }
    }
    // hand-made PNG with an XMP iTXt chunk and a caBX chunk slot (chunk CRCs are not checked by the handler)
    {
        fn chunk(t: &[u8; 4], data: &[u8]) -> Vec<u8> {
            let mut v = (data.len() as u32).to_be_bytes().to_vec();
            v.extend_from_slice(t);
            v.extend_from_slice(data);
            v.extend_from_slice(&[0, 0, 0, 0]);
            v
        }
        let mut png = b"\x89PNG\r\n\x1a\n".to_vec();
        png.extend(chunk(b"IHDR", &[0, 0, 0, 1, 0, 0, 0, 1, 8, 0, 0, 0, 0]));
        let mut itxt = b"XML:com.adobe.xmp\0\0\0\0\0".to_vec();
        itxt.extend_from_slice(br#"<?xpacket begin="" id="W5M0MpCehiHzreSzNTczkc9d"?><x:xmpmeta xmlns:x="adobe:ns:meta/"><rdf:RDF xmlns:rdf="http://www.w3.org/1999/02/22-rdf-syntax-ns#"><rdf:Description rdf:about="" xmlns:dcterms="http://purl.org/dc/terms/" dcterms:provenance="self#jumbf=c2pa/x"/></rdf:RDF></x:xmpmeta><?xpacket end="w"?>"#);
        png.extend(chunk(b"iTXt", &itxt));
        png.extend(chunk(b"IDAT", &[0x78, 0x9c, 0x63, 0x00, 0x00, 0x00, 0x01, 0x00, 0x01]));
        png.extend(chunk(b"IEND", &[]));
        add("crafted:png-xmp".to_string(), "image/png", png, false);
    }
    // legacy zip archives
    for name in ["old_format_archive.zip", "bad_path_archive.zip"] {
        if let Ok(d) = std::fs::read(fixtures().join(name)) {
            add(format!("archive:{name}"), "application/c2pa", d, true);
        }
    }
    // builder archives (zip and c2pa working store)
    for (tag, st) in [("zip", r#"{"builder":{"generate_c2pa_archive":false}}"#), ("c2pa", r#"{"builder":{"generate_c2pa_archive":true}}"#)] {
        let made = guarded(std::panic::AssertUnwindSafe(|| -> c2pa::Result<Vec<u8>> {
            let ctx = Context::new().with_settings(st)?;
            let mut b = Builder::from_context(ctx).with_definition(definition("c10 archive", "image/jpeg").as_str())?;
            if let Ok(ing) = std::fs::read(fixtures().join("CA.jpg")) {
                b.add_ingredient_from_stream(serde_json::json!({"title": "ing", "relationship": "componentOf"}).to_string(), "image/jpeg", &mut Cursor::new(ing))?;
            }
            let mut out = Cursor::new(Vec::new());
            b.to_archive(&mut out)?;
            Ok(out.into_inner())
        }));
        match made {
            Ok(Ok(a)) => add(format!("archive:{tag}"), "application/c2pa", a, true),
            other => run.notes.push(format!("archive seed {tag} not produced: {:?}", other.map(|r| r.map(|v| v.len()).map_err(|e| err_class(&e))))),
        }
    }
    out
}

const HINTS: [&str; 22] = [
    "image/jpeg", "image/png", "image/webp", "image/tiff", "image/svg+xml", "image/gif", "audio/mpeg", "audio/wav", "video/mp4",
    "image/avif", "image/heic", "audio/flac", "image/jxl", "application/c2pa", "application/pdf", "video/quicktime", "audio/mp4",
    "image/x-adobe-dng", "video/avi", "application/x-c2pa-manifest-store", "c2pa", "xyz/unknown",
];

fn be32(d: &[u8], i: usize) -> u32 {
    u32::from_be_bytes([d[i], d[i + 1], d[i + 2], d[i + 3]])
}
fn le32(d: &[u8], i: usize) -> u32 {
    u32::from_le_bytes([d[i], d[i + 1], d[i + 2], d[i + 3]])
}
fn is_tag(b: &[u8]) -> bool {
    b.iter().all(|c| c.is_ascii_alphanumeric() || *c == b' ' || *c == b'_')
}

/// Offsets that look like length fields: (offset, width, big-endian, span start, span length).
fn length_fields(d: &[u8]) -> Vec<(usize, usize, bool, usize, usize, usize, u64)> {
    let mut out = vec![];
    let n = d.len();
    let mut i = 0;
    while i + 8 <= n {
        // BMFF / JUMBF box: u32be size, 4-char type            (span = the box)
        let v = be32(d, i) as usize;
        if is_tag(&d[i + 4..i + 8]) && ((v >= 8 && i + v <= n) || v == 1 || v == 0) {
            out.push((i, 4, true, i, if v >= 8 { v } else { 8 }, 0, 8));
        }
        // PNG chunk: u32be length, type, data, crc               (span = the chunk)
        if is_tag(&d[i + 4..i + 8]) && d[i + 4].is_ascii_alphabetic() && i + 12 + v <= n && v < n {
            out.push((i, 4, true, i, 12 + v, 4, 0));
        }
        // RIFF chunk: 4-char type, u32le length                  (span = the chunk)
        let w = le32(d, i + 4) as usize;
        if is_tag(&d[i..i + 4]) && d[i].is_ascii_alphabetic() && i + 8 + w <= n {
            out.push((i + 4, 4, false, i, 8 + w, 0, 0));
        }
        // JPEG segment: 0xFF marker, u16be length
        if d[i] == 0xff && d[i + 1] >= 0xc0 && d[i + 1] != 0xff && d[i + 1] != 0xd8 && d[i + 1] != 0xd9 {
            let l = u16::from_be_bytes([d[i + 2], d[i + 3]]) as usize;
            if l >= 2 && i + 2 + l <= n {
                out.push((i + 2, 2, true, i, 2 + l, 0, 2));
            }
        }
        i += 1;
        if out.len() > 40_000 {
            break;
        }
    }
    out
}

fn put(d: &mut [u8], off: usize, width: usize, be: bool, v: u64) {
    for k in 0..width {
        let shift = if be { 8 * (width - 1 - k) } else { 8 * k };
        d[off + k] = (v >> shift) as u8;
    }
}

fn manifest_region(d: &[u8]) -> (usize, usize) {
    let a = d.windows(4).position(|w| w == b"jumb").map(|p| p.saturating_sub(4)).unwrap_or(0);
    let b = d.windows(4).rposition(|w| w == b"cbor" || w == b"jumd").map(|p| (p + 4096).min(d.len())).unwrap_or(d.len());
    if b > a {
        (a, b)
    } else {
        (0, d.len())
    }
}

/// Resize a box/chunk *consistently*: the length field gets `v` and the payload is cut (or
/// zero-extended) at its end so that the framing that follows stays where the length says.
fn resize(d: &[u8], f: &(usize, usize, bool, usize, usize, usize, u64), v: u64) -> Option<Vec<u8>> {
    let (off, w, be, s, l, trailer, minv) = *f;
    if s + l > d.len() || off + w > d.len() {
        return None;
    }
    let cur = if w == 4 { if be { be32(d, off) as u64 } else { le32(d, off) as u64 } } else { u16::from_be_bytes([d[off], d[off + 1]]) as u64 };
    let max = if w == 4 { u32::MAX as u64 } else { u16::MAX as u64 };
    if v < minv || v > max || v == cur || cur < minv {
        return None;
    }
    let end = s + l - trailer; // end of the payload
    let mut out = d.to_vec();
    if v < cur {
        let k = (cur - v) as usize;
        if k > end.saturating_sub(off + w) {
            return None;
        }
        out.drain(end - k..end);
    } else {
        let k = (v - cur) as usize;
        if k > 1 << 20 {
            return None;
        }
        out.splice(end..end, std::iter::repeat(0u8).take(k));
    }
    put(&mut out, off, w, be, v);
    Some(out)
}

/// Wrap a raw JUMBF super box (`jumb` whose first child is its `jumd`) in `depth` further super
/// boxes carrying the same description box: well-formed nesting of arbitrary depth.
fn jumbf_wrap(d: &[u8], depth: usize) -> Option<Vec<u8>> {
    if d.len() < 24 || &d[4..8] != b"jumb" || &d[12..16] != b"jumd" {
        return None;
    }
    let top = (be32(d, 0) as usize).min(d.len());
    let jl = be32(d, 8) as usize;
    if jl < 8 || 8 + jl > top {
        return None;
    }
    let jumd = d[8..8 + jl].to_vec();
    // sizes from the inside out
    let mut sizes = Vec::with_capacity(depth);
    let mut cur = top;
    for _ in 0..depth {
        cur += 8 + jl;
        if cur > u32::MAX as usize {
            return None;
        }
        sizes.push(cur as u32);
    }
    let mut out = Vec::with_capacity(cur + d.len() - top);
    for sz in sizes.iter().rev() {
        out.extend_from_slice(&sz.to_be_bytes());
        out.extend_from_slice(b"jumb");
        out.extend_from_slice(&jumd);
    }
    out.extend_from_slice(d);
    Some(out)
}

/// One structure-aware mutation; returns the mutant and a short description.
fn mutate(rng: &mut Rng, seed: &[u8], fields: &[(usize, usize, bool, usize, usize, usize, u64)]) -> (Vec<u8>, String) {
    let mut d = seed.to_vec();
    let n = d.len();
    let (ma, mb) = manifest_region(&d);
    let in_manifest = |rng: &mut Rng| -> usize { ma + rng.below((mb - ma).max(1) as u64) as usize };
    let kind = rng.below(16);
    match kind {
        0 => {
            let i = if rng.chance(2, 3) { in_manifest(rng) } else { rng.below(n as u64) as usize }.min(n - 1);
            d[i] ^= 1 << rng.below(8);
            (d, format!("bitflip@{i}"))
        }
        1 => {
            let i = if rng.chance(2, 3) { in_manifest(rng) } else { rng.below(n as u64) as usize }.min(n - 1);
            d[i] = *rng.pick(&[0u8, 1, 0x7f, 0x80, 0xff, 0xfe]);
            (d, format!("byteset@{i}"))
        }
        5 if !fields.is_empty() => {
            let f = *rng.pick(fields);
            let cur = if f.1 == 4 { if f.2 { be32(&d, f.0) as u64 } else { le32(&d, f.0) as u64 } } else { u16::from_be_bytes([d[f.0], d[f.0 + 1]]) as u64 };
            let v = match rng.below(4) {
                0 => f.6 + rng.below(40),
                1 => cur.saturating_sub(1 + rng.below(8)),
                2 => cur + 1 + rng.below(64),
                _ => rng.below(cur + 2),
            };
            match resize(&d, &f, v) {
                Some(r) => (r, format!("resize@{}:{cur}->{v}", f.0)),
                None => {
                    put(&mut d, f.0, f.1, f.2, v);
                    (d, format!("len@{}:{cur}->{v}", f.0))
                }
            }
        }
        2 | 3 | 4 if !fields.is_empty() => {
            let (off, w, be, _, span, _, _) = *rng.pick(fields);
            let cur = if w == 4 { if be { be32(&d, off) as u64 } else { le32(&d, off) as u64 } } else { u16::from_be_bytes([d[off], d[off + 1]]) as u64 };
            let max = if w == 4 { u32::MAX as u64 } else { u16::MAX as u64 };
            let small = rng.below(64);
            let v = *rng.pick(&[small, small, 0, 1, 2, 7, 8, max, max - 1, max / 2, max / 2 + 1, cur.wrapping_sub(1) & max, (cur + 1) & max, (n as u64) & max, (n as u64 + 1) & max, span as u64 & max, cur * 2 & max, 16, 24]);
            put(&mut d, off, w, be, v);
            (d, format!("len@{off}:{cur}->{v}"))
        }
        6 => {
            // truncation at a structural boundary or anywhere
            let cut = if !fields.is_empty() && rng.chance(2, 3) {
                let (_, _, _, s, l, _, _) = *rng.pick(fields);
                let c = *rng.pick(&[s, s + 1, s + 4, s + 7, s + 8, s + l.saturating_sub(1), s + l, s + l + 1]);
                c.min(n)
            } else {
                rng.below(n as u64 + 1) as usize
            };
            d.truncate(cut);
            (d, format!("truncate@{cut}"))
        }
        7 if !fields.is_empty() => {
            // duplicate a box/chunk right after itself
            let (_, _, _, s, l, _, _) = *rng.pick(fields);
            let l = l.min(n - s).min(200_000);
            let copy = d[s..s + l].to_vec();
            let at = s + l;
            d.splice(at..at, copy);
            (d, format!("dup@{s}+{l}"))
        }
        8 if !fields.is_empty() => {
            // delete a box/chunk
            let (_, _, _, s, l, _, _) = *rng.pick(fields);
            let l = l.min(n - s);
            d.drain(s..s + l);
            (d, format!("del@{s}+{l}"))
        }
        9 if jumbf_wrap(seed, 1).is_some() && rng.chance(1, 2) => {
            let depth = *rng.pick(&[2usize, 31, 32, 33, 200, 5000, 50_000]);
            match jumbf_wrap(seed, depth) {
                Some(w) => (w, format!("jumbf-wrap x{depth}")),
                None => (d, "none".into()),
            }
        }
        9 if !fields.is_empty() => {
            // nest a box inside itself k times (size fields kept consistent for 32-bit boxes)
            let cands: Vec<_> = fields.iter().filter(|f| f.1 == 4 && f.2 && f.0 == f.3 && f.4 >= 8 && f.4 < 60_000).collect();
            if cands.is_empty() {
                let i = rng.below(n as u64) as usize;
                d[i] ^= 0x55;
                return (d, format!("xor@{i}"));
            }
            let (_, _, _, s, l, _, _) = **rng.pick(&cands);
            let l = l.min(n - s);
            let depth = *rng.pick(&[2usize, 8, 31, 32, 33, 40, 100, 400, 3000, 40_000]);
            let inner = d[s..s + l].to_vec();
            let hdr: Vec<u8> = inner[4..8].to_vec();
            let mut nested = inner.clone();
            for _ in 0..depth {
                if nested.len() > 3_000_000 {
                    break;
                }
                let mut b = Vec::with_capacity(nested.len() + 8);
                b.extend_from_slice(&((nested.len() + 8) as u32).to_be_bytes());
                b.extend_from_slice(&hdr);
                b.extend_from_slice(&nested);
                nested = b;
            }
            d.splice(s..s + l, nested);
            (d, format!("nest@{s}x{depth}"))
        }
        10 => {
            // CBOR-ish: inflate a count / length head inside the manifest region
            let mut tries = 0;
            loop {
                let i = in_manifest(rng).min(n - 1);
                let b = d[i];
                let major = b >> 5;
                let info = b & 0x1f;
                if (2..=5).contains(&major) {
                    if info < 24 {
                        d[i] = (major << 5) | *rng.pick(&[23u8, 24, 25, 26, 27, 31, (info + 1).min(23)]);
                    } else if info <= 27 {
                        let w = 1usize << (info - 24);
                        for k in 0..w {
                            if i + 1 + k < n {
                                d[i + 1 + k] = 0xff;
                            }
                        }
                    }
                    return (d, format!("cbor-head@{i}"));
                }
                tries += 1;
                if tries > 200 {
                    d[i] = 0x9b;
                    return (d, format!("cbor-force@{i}"));
                }
            }
        }
        11 => {
            // insert a deeply nested CBOR array / map / tag run inside the manifest region
            let i = in_manifest(rng).min(n);
            let depth = *rng.pick(&[64usize, 129, 600, 5000, 100_000]);
            let unit = *rng.pick(&[0x81u8, 0xa1, 0xc1, 0x9f, 0xbf, 0xd8]);
            let run_: Vec<u8> = std::iter::repeat(unit).take(depth).collect();
            if rng.chance(1, 2) && i + depth <= n {
                d[i..i + depth].copy_from_slice(&run_);
                (d, format!("cbor-nest-over@{i}x{depth}"))
            } else {
                d.splice(i..i, run_);
                (d, format!("cbor-nest-ins@{i}x{depth}"))
            }
        }
        12 => {
            // splice random bytes
            let i = rng.below(n as u64) as usize;
            let k = 1 + rng.below(64) as usize;
            let r = rng.bytes(k);
            if rng.chance(1, 2) {
                d.splice(i..i, r);
            } else {
                let e = (i + k).min(n);
                d[i..e].copy_from_slice(&r[..e - i]);
            }
            (d, format!("splice@{i}+{k}"))
        }
        13 => {
            // text formats: deep element nesting / huge attribute (SVG, XMP); harmless elsewhere
            let depth = *rng.pick(&[100usize, 2000, 50_000]);
            let open: String = "<g>".repeat(depth);
            let at = d.windows(4).position(|w| w == b"<svg" || w == b"<x:x" || w == b"<rdf").map(|p| d[p..].iter().position(|c| *c == b'>').map(|q| p + q + 1).unwrap_or(p)).unwrap_or_else(|| rng.below(n as u64) as usize);
            d.splice(at..at, open.into_bytes());
            (d, format!("xml-nest@{at}x{depth}"))
        }
        14 => {
            // swap two regions
            let i = rng.below(n as u64) as usize;
            let j = rng.below(n as u64) as usize;
            let k = (1 + rng.below(256) as usize).min(n - i.max(j));
            for t in 0..k {
                d.swap(i + t, j + t);
            }
            (d, format!("swap@{i},{j}+{k}"))
        }
        _ => {
            // several small edits at once
            let m = 2 + rng.below(6);
            for _ in 0..m {
                let i = if rng.chance(1, 2) { in_manifest(rng) } else { rng.below(n as u64) as usize }.min(n - 1);
                d[i] = rng.next() as u8;
            }
            (d, format!("multi x{m}"))
        }
    }
}

// ---------------------------------------------------------------------------------------------
// forked workers

#[derive(Clone)]
struct Case {
    seed: usize,
    what: String,
    hint: &'static str,
    data: Vec<u8>,
    archive: bool,
}

#[derive(Clone, Debug)]
struct Res {
    /// per entry point: ok | err | panic
    read: String,
    ingredient: String,
    archive: String,
    peak: usize,
    ms: u64,
    detail: String,
}

fn one_entry<T>(f: impl FnOnce() -> c2pa::Result<T>) -> (String, String) {
    match guarded(std::panic::AssertUnwindSafe(f)) {
        Ok(Ok(_)) => ("ok".into(), String::new()),
        Ok(Err(_)) => ("err".into(), String::new()),
        Err(p) => ("panic".into(), p.chars().take(160).collect()),
    }
}

fn exec_case(c: &Case) -> Res {
    let base = LIVE.load(Ordering::Relaxed);
    PEAK.store(base, Ordering::Relaxed);
    let t0 = Instant::now();
    let mut detail = String::new();
    let (read, d1) = one_entry(|| Reader::from_context(Context::new().with_settings(offline())?).with_stream(c.hint, Cursor::new(c.data.clone())));
    detail.push_str(&d1);
    let (ingredient, d2) = one_entry(|| {
        let mut b = Builder::from_context(Context::new().with_settings(offline())?).with_definition(definition("c10", "image/jpeg").as_str())?;
        b.add_ingredient_from_stream(serde_json::json!({"title": "i", "relationship": "componentOf"}).to_string(), c.hint, &mut Cursor::new(c.data.clone()))?;
        Ok(())
    });
    detail.push_str(&d2);
    let (archive, d3) = if c.archive {
        one_entry(|| Builder::from_context(Context::new().with_settings(offline())?).with_archive(Cursor::new(c.data.clone())).map(|_| ()))
    } else {
        ("-".into(), String::new())
    };
    detail.push_str(&d3);
    let peak = PEAK.load(Ordering::Relaxed).saturating_sub(base);
    Res { read, ingredient, archive, peak, ms: t0.elapsed().as_millis() as u64, detail }
}

enum Outcome {
    Done(Res),
    Hang,
    Crash(String),
}

/// wall-clock backstop per case (blocked / sleeping code); the working budget is CPU time
const CASE_BUDGET: Duration = Duration::from_secs(90);
/// CPU seconds one case may use (enforced with RLIMIT_CPU in the worker: robust against machine load)
const CPU_BUDGET: u64 = 6;
const AS_LIMIT: u64 = 3 << 30;

/// Run `cases[from..]` in a forked child. Returns the outcomes obtained and the index of the
/// first case that was not completed by this child (== cases.len() when all ran).
fn run_batch(cases: &[Case], from: usize, errfile: &std::path::Path) -> (Vec<Outcome>, usize) {
    let mut outs = vec![];
    unsafe {
        let mut fds = [0i32; 2];
        if libc::pipe(fds.as_mut_ptr()) != 0 {
            return (outs, from);
        }
        let pid = libc::fork();
        if pid < 0 {
            return (outs, from);
        }
        if pid == 0 {
            libc::close(fds[0]);
            let lim = libc::rlimit { rlim_cur: AS_LIMIT, rlim_max: AS_LIMIT };
            libc::setrlimit(libc::RLIMIT_AS, &lim);
            let core = libc::rlimit { rlim_cur: 0, rlim_max: 0 };
            libc::setrlimit(libc::RLIMIT_CORE, &core);
            if let Ok(p) = std::ffi::CString::new(errfile.to_string_lossy().as_bytes()) {
                let fd = libc::open(p.as_ptr(), libc::O_WRONLY | libc::O_CREAT | libc::O_TRUNC, 0o600);
                if fd >= 0 {
                    libc::dup2(fd, 2);
                }
            }
            for (k, c) in cases.iter().enumerate().skip(from) {
                // CPU budget for this case: soft RLIMIT_CPU = CPU used so far + budget (SIGXCPU ends the worker)
                let mut ru: libc::rusage = std::mem::zeroed();
                libc::getrusage(libc::RUSAGE_SELF, &mut ru);
                let used = (ru.ru_utime.tv_sec + ru.ru_stime.tv_sec) as u64 + 1;
                let cpu = libc::rlimit { rlim_cur: used + CPU_BUDGET, rlim_max: libc::RLIM_INFINITY };
                libc::setrlimit(libc::RLIMIT_CPU, &cpu);
                let start = format!("S {k}\n");
                libc::write(fds[1], start.as_ptr() as *const c_void, start.len());
                let r = exec_case(c);
                let line = format!("D {k} {} {} {} {} {} {}\n", r.read, r.ingredient, r.archive, r.peak, r.ms, r.detail.replace(['\n', ' '], "_"));
                libc::write(fds[1], line.as_ptr() as *const c_void, line.len());
            }
            libc::_exit(0);
        }
        libc::close(fds[1]);
        let mut buf: Vec<u8> = vec![];
        let mut started: Option<(usize, Instant)> = None;
        let mut next = from;
        let mut verdict: Option<Outcome> = None;
        'outer: loop {
            // complete lines
            while let Some(p) = buf.iter().position(|b| *b == b'\n') {
                let line = String::from_utf8_lossy(&buf[..p]).to_string();
                buf.drain(..=p);
                let t: Vec<&str> = line.split(' ').collect();
                match t.first().copied() {
                    Some("S") => started = Some((t[1].parse().unwrap_or(next), Instant::now())),
                    Some("D") if t.len() >= 7 => {
                        outs.push(Outcome::Done(Res {
                            read: t[2].into(),
                            ingredient: t[3].into(),
                            archive: t[4].into(),
                            peak: t[5].parse().unwrap_or(0),
                            ms: t[6].parse().unwrap_or(0),
                            detail: t.get(7).copied().unwrap_or("").to_string(),
                        }));
                        next += 1;
                        started = None;
                    }
                    _ => {}
                }
            }
            if next >= cases.len() {
                break;
            }
            let remaining = match started {
                Some((_, t0)) => CASE_BUDGET.checked_sub(t0.elapsed()),
                None => Some(CASE_BUDGET),
            };
            let Some(remaining) = remaining else {
                verdict = Some(Outcome::Hang);
                break 'outer;
            };
            let mut pfd = libc::pollfd { fd: fds[0], events: libc::POLLIN, revents: 0 };
            let rc = libc::poll(&mut pfd, 1, remaining.as_millis().max(1) as i32);
            if rc == 0 {
                verdict = Some(Outcome::Hang);
                break;
            }
            let mut tmp = [0u8; 8192];
            let got = libc::read(fds[0], tmp.as_mut_ptr() as *mut c_void, tmp.len());
            if got <= 0 {
                // child is gone
                break;
            }
            buf.extend_from_slice(&tmp[..got as usize]);
        }
        libc::close(fds[0]);
        if matches!(verdict, Some(Outcome::Hang)) {
            libc::kill(pid, libc::SIGKILL);
        }
        let mut status = 0;
        libc::waitpid(pid, &mut status, 0);
        if next < cases.len() {
            let o = match verdict {
                Some(Outcome::Hang) => Outcome::Hang,
                _ if libc::WIFSIGNALED(status) && libc::WTERMSIG(status) == libc::SIGXCPU => Outcome::Hang,
                _ => {
                    let err = std::fs::read_to_string(errfile).unwrap_or_default();
                    let tail: String = err.chars().rev().take(300).collect::<String>().chars().rev().collect();
                    let how = if libc::WIFSIGNALED(status) { format!("signal {}", libc::WTERMSIG(status)) } else { format!("exit {}", libc::WEXITSTATUS(status)) };
                    Outcome::Crash(format!("{how}: {}", tail.replace('\n', " | ")))
                }
            };
            outs.push(o);
            next += 1;
        }
        (outs, next)
    }
}

fn run_cases(cases: &[Case], errfile: &std::path::Path) -> Vec<Outcome> {
    let mut all = vec![];
    let mut from = 0;
    while from < cases.len() {
        let (mut outs, next) = run_batch(cases, from, errfile);
        if next == from {
            // fork failed; give up on this case
            outs.push(Outcome::Crash("fork failed".into()));
            all.append(&mut outs);
            from += 1;
        } else {
            all.append(&mut outs);
            from = next;
        }
    }
    all
}

fn handler_of(hint: &str) -> &str {
    hint
}

/// Delta-debug a failing mutant against its seed: revert as many differing byte ranges as possible
/// while the failure (same class) persists. Only for same-length mutants; others are kept as is.
fn minimise(seed: &[u8], case: &Case, class_of: &dyn Fn(&Outcome, &Case) -> Option<String>, class: &str, errfile: &std::path::Path) -> Vec<u8> {
    let mut cur = case.data.clone();
    if cur.len() != seed.len() {
        // shrink by truncation from the end while the failure persists
        let mut step = cur.len() / 2;
        let mut budget = 24;
        while step >= 1 && budget > 0 {
            if cur.len() > step {
                let mut t = cur.clone();
                t.truncate(cur.len() - step);
                let c = Case { data: t.clone(), ..case.clone() };
                let o = run_cases(std::slice::from_ref(&c), errfile);
                budget -= 1;
                if o.first().and_then(|o| class_of(o, &c)).as_deref() == Some(class) {
                    cur = t;
                    continue;
                }
            }
            step /= 2;
        }
        return cur;
    }
    let mut diffs: Vec<usize> = (0..cur.len()).filter(|i| cur[*i] != seed[*i]).collect();
    let mut chunk = diffs.len().div_ceil(2).max(1);
    let mut budget = 40;
    while !diffs.is_empty() && budget > 0 {
        let mut progressed = false;
        let mut k = 0;
        while k < diffs.len() && budget > 0 {
            let part: Vec<usize> = diffs[k..(k + chunk).min(diffs.len())].to_vec();
            let mut t = cur.clone();
            for i in &part {
                t[*i] = seed[*i];
            }
            let c = Case { data: t.clone(), ..case.clone() };
            let o = run_cases(std::slice::from_ref(&c), errfile);
            budget -= 1;
            if o.first().and_then(|o| class_of(o, &c)).as_deref() == Some(class) {
                cur = t;
                diffs.retain(|i| !part.contains(i));
                progressed = true;
            } else {
                k += chunk;
            }
        }
        if chunk == 1 && !progressed {
            break;
        }
        chunk = (chunk / 2).max(1);
    }
    cur
}

pub fn run(run: &mut Run, rng: &mut Rng) {
    run.rule = "model-level: read_to_vec / BoundedVecWriter / builder assertion limit on random and boundary arguments (non-trivial = the guard let the request through). search: structure-aware mutants (bit flips, byte sets, length-field edits to 0/1/max/len±1/span, truncation at structural boundaries, box/chunk duplication and deletion, self-nesting to depth 2..400, CBOR head inflation, CBOR/XML deep-nesting runs, splices, swaps, multi-edits) of every seed (fixtures, freshly signed assets of every writable format, compressed manifests, archives, sidecar) under the right hint, a wrong hint and an unknown hint, through Reader::with_stream, Builder::add_ingredient_from_stream and (archive seeds and a sample of others) Builder::with_archive; each case in a forked worker with RLIMIT_AS 3 GiB, a budget of 6 s CPU time (RLIMIT_CPU; 90 s wall-clock backstop), catch_unwind, peak-heap accounting. non-trivial = a mutant that reached a parser (any outcome) — distinct by (seed, mutation, hint)".to_string();
    let thorough = run.thorough();
    guard_cases(run, rng);

    let dir = scratch("c10");
    let errfile = dir.join("child-stderr.txt");
    let corpus = std::path::PathBuf::from("/verif/corpus/C10");
    let seeds = seeds(run);
    run.notes.push(format!("{} seeds: {}", seeds.len(), seeds.iter().map(|s| format!("{}({})", s.name, s.data.len())).collect::<Vec<_>>().join(", ")));
    let fields: Vec<Vec<(usize, usize, bool, usize, usize, usize, u64)>> = seeds.iter().map(|s| length_fields(&s.data)).collect();

    // budget: quick ~2.5k cases, thorough ~100k
    let total = if thorough { 150_000usize } else { 7_000 };
    let deadline = Instant::now() + if thorough { Duration::from_secs(840) } else { Duration::from_secs(70) };

    let class_of = |o: &Outcome, c: &Case| -> Option<String> {
        let h = handler_of(c.hint);
        match o {
            Outcome::Hang => Some(format!("hang:{h}")),
            Outcome::Crash(why) => {
                if why.contains("memory allocation of") || why.contains("out of memory") {
                    Some(format!("oom:{h}"))
                } else if why.contains("overflowed its stack") {
                    Some(format!("stack-overflow:{h}"))
                } else {
                    Some(format!("crash:{h}"))
                }
            }
            Outcome::Done(r) => {
                if r.read == "panic" {
                    Some(format!("panic:read:{h}"))
                } else if r.ingredient == "panic" {
                    Some(format!("panic:ingredient:{h}"))
                } else if r.archive == "panic" {
                    Some("panic:archive".to_string())
                } else if r.peak > 64 * c.data.len() + (160 << 20) {
                    // three entry points each may hold a copy of the input plus parsed forms; the
                    // decompression limit is 32 MiB per manifest
                    Some(format!("alloc-excess:{h}"))
                } else {
                    None
                }
            }
        }
    };

    let mut done = 0usize;
    let mut max_peak = 0usize;
    let mut max_ms = 0u64;
    let mut slowest = String::new();
    let mut saved: std::collections::BTreeSet<String> = Default::default();
    // first: every seed unmodified under every hint (and as archive)
    let mut batch: Vec<Case> = vec![];
    for (si, s) in seeds.iter().enumerate() {
        let hs: Vec<&'static str> = if thorough { HINTS.to_vec() } else { vec![s.fmt, "xyz/unknown", "application/c2pa", "image/jpeg", "video/mp4", "image/tiff"] };
        for h in hs {
            batch.push(Case { seed: si, what: "seed".into(), hint: h, data: s.data.clone(), archive: s.archive || h == "application/c2pa" });
        }
    }
    // structured probes: raw JUMBF stores nested to fixed depths (around and far beyond the limit)
    for (si, s) in seeds.iter().enumerate() {
        for depth in [1usize, 30, 31, 32, 33, 64, 1000, 20_000, 60_000] {
            if let Some(w) = jumbf_wrap(&s.data, depth) {
                for h in ["application/c2pa", "xyz/unknown"] {
                    batch.push(Case { seed: si, what: format!("jumbf-wrap x{depth}"), hint: h, data: w.clone(), archive: true });
                }
            }
        }
    }
    // structured probes: for small seeds every length field is swept through the small values
    // (where "field shorter than its fixed part" bugs live) and the boundary values
    for (si, s) in seeds.iter().enumerate() {
        if s.data.len() > 8192 {
            continue;
        }
        let nf = if thorough { 64 } else { 24 };
        for (off, w, be, _, span, _, _) in fields[si].iter().take(nf) {
            let max = if *w == 4 { u32::MAX as u64 } else { u16::MAX as u64 };
            let mut vals: Vec<u64> = (0..if thorough { 80 } else { 36 }).collect();
            vals.extend_from_slice(&[max, max - 1, max / 2, max / 2 + 1, *span as u64 & max, (*span as u64 + 1) & max, s.data.len() as u64 & max]);
            let f = fields[si].iter().find(|f| f.0 == *off && f.4 == *span).copied();
            for v in vals {
                let mut d = s.data.clone();
                put(&mut d, *off, *w, *be, v);
                batch.push(Case { seed: si, what: format!("sweep-len@{off}={v}"), hint: s.fmt, data: d, archive: false });
                if let Some(r) = f.as_ref().and_then(|f| resize(&s.data, f, v)) {
                    batch.push(Case { seed: si, what: format!("sweep-resize@{off}={v}"), hint: s.fmt, data: r, archive: false });
                }
            }
        }
    }
    // tiny inputs under every hint
    for h in HINTS {
        for d in [vec![], vec![0u8], vec![0xff, 0xd8], vec![0u8; 16], b"RIFF\xff\xff\xff\xffWEBP".to_vec(), b"\x00\x00\x00\x01ftyp".to_vec(), b"ID3\x04\x00\x00\x7f\x7f\x7f\x7f".to_vec(), b"II*\x00\xff\xff\xff\xff".to_vec(), b"GIF89a".to_vec(), b"\x89PNG\r\n\x1a\n\xff\xff\xff\xffIHDR".to_vec(), b"fLaC\x7f\xff\xff\xff".to_vec(), b"%PDF-1.7\n".to_vec(), b"<svg".to_vec(), b"PK\x03\x04".to_vec()] {
            batch.push(Case { seed: usize::MAX, what: "tiny".into(), hint: h, data: d, archive: true });
        }
    }

    let mut process = |run: &mut Run, batch: &[Case], done: &mut usize| {
        let outs = run_cases(batch, &errfile);
        for (c, o) in batch.iter().zip(outs.iter()) {
            *done += 1;
            let sname = seeds.get(c.seed).map(|s| s.name.as_str()).unwrap_or("tiny");
            let cls = class_of(o, c);
            let outcome = match (&cls, o) {
                (Some(k), _) => k.clone(),
                (None, Outcome::Done(r)) => format!("{}/{}/{}", r.read, r.ingredient, r.archive),
                _ => "?".into(),
            };
            if let Outcome::Done(r) = o {
                max_peak = max_peak.max(r.peak);
                if r.ms > max_ms {
                    max_ms = r.ms;
                    slowest = format!("{sname} {} hint {} ({} bytes)", c.what, c.hint, c.data.len());
                }
                run.count(&format!("read_{}", r.read));
                run.count(&format!("ingredient_{}", r.ingredient));
                if r.archive != "-" {
                    run.count(&format!("archive_{}", r.archive));
                }
            }
            run.count(&format!("mut_{}", c.what.split(['@', ' ']).next().unwrap_or("")));
            let idx = run.case(
                format!("C10 e2e id={} seed={} mut={} hint={} len={} outcome={}", *done, sname.replace(' ', "_"), c.what.replace(' ', "_"), c.hint, c.data.len(), outcome.replace(' ', "_")),
                outcome.replace(' ', "_"),
            );
            run.nontrivial(format!("{sname} {} {}", c.what, c.hint));
            if let Some(k) = cls {
                let detail = match o {
                    Outcome::Done(r) => format!("peak heap {} bytes, {} ms; {}", r.peak, r.ms, r.detail),
                    Outcome::Crash(w) => w.clone(),
                    Outcome::Hang => format!("no result within {CPU_BUDGET} s of CPU time (or {} s wall-clock)", CASE_BUDGET.as_secs()),
                };
                // minimise once per class, save the input
                let mut file = String::new();
                if !saved.contains(&k) && saved.len() < 12 {
                    saved.insert(k.clone());
                    let min = match seeds.get(c.seed) {
                        Some(s) => minimise(&s.data, c, &class_of, &k, &errfile),
                        None => c.data.clone(),
                    };
                    let _ = std::fs::create_dir_all(&corpus);
                    let fname = format!("{}-{}.bin", k.replace([':', '/'], "_"), c.hint.replace('/', "_"));
                    if std::fs::write(corpus.join(&fname), &min).is_ok() {
                        file = format!(" [minimised input ({} bytes, hint {}) saved as corpus/C10/{fname}]", min.len(), c.hint);
                    }
                }
                run.fail(idx, &k, format!("seed {sname}, mutation {}, hint {}, {} bytes: {detail}{file}", c.what, c.hint, c.data.len()));
            }
        }
    };
    process(run, &batch, &mut done);

    // replay the saved corpus (earlier findings stay in the run)
    if let Ok(rd) = std::fs::read_dir(&corpus) {
        let mut files: Vec<_> = rd.filter_map(|e| e.ok()).map(|e| e.path()).collect();
        files.sort();
        let mut b = vec![];
        for f in files {
            let name = f.file_name().map(|n| n.to_string_lossy().to_string()).unwrap_or_default();
            let hint = HINTS.iter().find(|h| name.ends_with(&format!("-{}.bin", h.replace('/', "_")))).copied().unwrap_or("xyz/unknown");
            if let Ok(d) = std::fs::read(&f) {
                b.push(Case { seed: usize::MAX, what: format!("corpus:{name}"), hint, data: d, archive: true });
            }
        }
        process(run, &b, &mut done);
    }

    // mutants
    let before = done;
    while done - before < total && Instant::now() < deadline {
        let mut batch: Vec<Case> = Vec::with_capacity(96);
        for _ in 0..96 {
            // large seeds are drawn less often (cost per case grows with the size)
            let si = loop {
                let k = rng.below(seeds.len() as u64) as usize;
                let l = seeds[k].data.len();
                let keep = if l < 200_000 { 8 } else if l < 1_200_000 { 2 } else { 1 };
                if rng.below(8) < keep {
                    break k;
                }
            };
            let s = &seeds[si];
            let (m, what) = mutate(rng, &s.data, &fields[si]);
            let hint = match rng.below(10) {
                0 => "xyz/unknown",
                1 | 2 => *rng.pick(&HINTS),
                _ => s.fmt,
            };
            let archive = s.archive || rng.chance(1, 12);
            batch.push(Case { seed: si, what, hint, data: m, archive });
        }
        process(run, &batch, &mut done);
    }
    run.notes.push(format!("search: {done} cases; max peak heap of a completed case {max_peak} bytes; slowest completed case {max_ms} ms ({slowest})"));
    let _ = std::fs::remove_dir_all(&dir);
}
