//! C34 — JUMBF URIs and manifest labels parse back to their parts.
//!
//! Request lines (see lean/C2paModel/Model/C34.lean); strings are hex of their UTF-8 bytes:
//!   C34 disp g= v1= cgi=<none|hex> ver=<-|n> rsn=<-|n>     -> ok <hex>
//!   C34 parts s=                                            -> ok none | ok some g= v1= cgi= ver= rsn= | panic
//!   C34 muri m= | suri m= | auri m= a= | curi m= a= | duri m= a=   -> ok <hex>
//!   C34 norm s= | rel s= | abs m= s=                        -> ok <hex> | panic
//!   C34 mlabel s= | alabel s= | box s=                      -> ok none | ok some:<hex> | panic
//!   C34 lwi l= n=<dec>                                      -> ok <hex> | panic
//!   C34 link s=                                             -> ok <hex> <n> | panic
//!   C34 vendorok v=                                         -> ok <0|1>
//!   C34 newlabel g= v=<none|hex> cv=<1|2>                   -> ok <hex>      (Claim::new; g = the fresh UUID read off the label)
//!   C34 blabel g= v=<none|hex> cv=<1|2>                     -> ok <hex> | err (public Builder: sign + read; err = Err(BadParam))
//!   C34 relabel s= n=                                       -> ok none | ok some:<hex> | panic (the store's relabel step re-enacted with the real parse / Display)
//!
//! The property oracle (round-trip laws) is evaluated on the real functions only.

use std::io::Cursor;
use std::sync::OnceLock;

use c2pa::verif_hooks::c34 as hk;
use c2pa::{Builder, Context, EphemeralSigner, Reader};
use vh::common::{fixtures, guarded, hex, main_with, Rng, Run};

fn main() {
    main_with("C34", run);
}

fn hx(s: &str) -> String {
    hex(s.as_bytes())
}

fn opt_hex(o: &Option<String>) -> String {
    match o {
        None => "none".to_string(),
        Some(s) => format!("some:{}", hx(s)),
    }
}

fn opt_n(o: Option<usize>) -> String {
    match o {
        None => "-".to_string(),
        Some(n) => n.to_string(),
    }
}

fn parts_fields(p: &hk::Parts) -> String {
    format!(
        "g={} v1={} cgi={} ver={} rsn={}",
        hx(&p.guid),
        if p.is_v1 { 1 } else { 0 },
        match &p.cgi {
            None => "none".to_string(),
            Some(v) => hx(v),
        },
        opt_n(p.version),
        opt_n(p.reason)
    )
}

/// Runs one operation of the real code, records the case, flags panics.
struct Drv<'a> {
    run: &'a mut Run,
}

impl<'a> Drv<'a> {
    fn rec<T>(&mut self, op: &str, req: String, r: Result<T, String>, f: impl FnOnce(&T) -> String) -> (usize, Option<T>) {
        self.run.count(&format!("op:{op}"));
        let imp = match &r {
            Ok(v) => format!("ok {}", f(v)),
            Err(_) => "panic".to_string(),
        };
        let i = self.run.case(req.clone(), imp);
        match r {
            Ok(v) => (i, Some(v)),
            Err(e) => {
                self.run.fail(i, "panic", format!("{op} panicked: {e} on {req}"));
                (i, None)
            }
        }
    }

    fn disp(&mut self, p: &hk::Parts) -> (usize, Option<String>) {
        let q = p.clone();
        let r = guarded(move || hk::parts_to_string(&q));
        self.rec("disp", format!("C34 disp {}", parts_fields(p)), r, |s| hx(s))
    }

    fn parts(&mut self, s: &str) -> (usize, Option<Option<hk::Parts>>) {
        let q = s.to_string();
        let r = guarded(move || hk::manifest_label_to_parts(&q));
        self.rec("parts", format!("C34 parts s={}", hx(s)), r, |o| match o {
            None => "none".to_string(),
            Some(p) => format!("some {}", parts_fields(p)),
        })
    }

    fn build1(&mut self, op: &'static str, m: &str) -> (usize, Option<String>) {
        let q = m.to_string();
        let r = guarded(move || match op {
            "muri" => hk::to_manifest_uri(&q),
            _ => hk::to_signature_uri(&q),
        });
        self.rec(op, format!("C34 {op} m={}", hx(m)), r, |s| hx(s))
    }

    fn build2(&mut self, op: &'static str, m: &str, a: &str) -> (usize, Option<String>) {
        let (q, b) = (m.to_string(), a.to_string());
        let r = guarded(move || match op {
            "auri" => hk::to_assertion_uri(&q, &b),
            "curi" => hk::to_verifiable_credential_uri(&q, &b),
            _ => hk::to_databox_uri(&q, &b),
        });
        self.rec(op, format!("C34 {op} m={} a={}", hx(m), hx(a)), r, |s| hx(s))
    }

    fn str1(&mut self, op: &'static str, s: &str) -> (usize, Option<String>) {
        let q = s.to_string();
        let r = guarded(move || match op {
            "norm" => hk::to_normalized_uri(&q),
            _ => hk::to_relative_uri(&q),
        });
        self.rec(op, format!("C34 {op} s={}", hx(s)), r, |s| hx(s))
    }

    fn abs(&mut self, m: &str, s: &str) -> (usize, Option<String>) {
        let (q, b) = (m.to_string(), s.to_string());
        let r = guarded(move || hk::to_absolute_uri(&q, &b));
        self.rec("abs", format!("C34 abs m={} s={}", hx(m), hx(s)), r, |s| hx(s))
    }

    fn opt1(&mut self, op: &'static str, s: &str) -> (usize, Option<Option<String>>) {
        let q = s.to_string();
        let r = guarded(move || match op {
            "mlabel" => hk::manifest_label_from_uri(&q),
            "alabel" => hk::assertion_label_from_uri(&q),
            _ => hk::box_name_from_uri(&q),
        });
        self.rec(op, format!("C34 {op} s={}", hx(s)), r, opt_hex)
    }

    fn lwi(&mut self, l: &str, n: usize) -> (usize, Option<String>) {
        let q = l.to_string();
        let r = guarded(move || hk::label_with_instance(&q, n));
        self.rec("lwi", format!("C34 lwi l={} n={}", hx(l), n), r, |s| hx(s))
    }

    fn link(&mut self, s: &str) -> (usize, Option<(String, usize)>) {
        let q = s.to_string();
        let r = guarded(move || hk::assertion_label_from_link(&q));
        self.rec("link", format!("C34 link s={}", hx(s)), r, |(l, n)| format!("{} {}", hx(l), n))
    }

    fn vendorok(&mut self, v: &str) -> (usize, Option<bool>) {
        let q = v.to_string();
        let r = guarded(move || hk::is_valid_vendor(&q));
        self.rec("vendorok", format!("C34 vendorok v={}", hx(v)), r, |b| if *b { "1".into() } else { "0".into() })
    }

    /// `Claim::new(_, vendor, cv).label()`; the request carries the UUID found in the label.
    fn newlabel(&mut self, vendor: Option<&str>, cv: usize) -> (usize, Option<String>) {
        let q = vendor.map(|v| v.to_string());
        let r = guarded(move || hk::new_claim_label(q.as_deref(), cv));
        let g = r.as_ref().ok().and_then(|l| find_uuid(l)).unwrap_or_default();
        let req = format!("C34 newlabel g={} v={} cv={}", hx(&g), vendor.map(hx).unwrap_or("none".into()), cv);
        self.rec("newlabel", req, r, |s| hx(s))
    }

    /// The public path: `Builder` with `definition.vendor`, signed (verify_after_sign off, so that
    /// whatever label is generated gets written) and read back. `Ok(Err(kind))` = the Builder refused.
    fn blabel(&mut self, vendor: Option<&str>, cv: usize) -> (usize, Option<Result<BuilderOut, String>>) {
        let q = vendor.map(|v| v.to_string());
        let r = guarded(move || builder_label(q.as_deref(), cv, None));
        let g = match &r {
            Ok(Ok(o)) => find_uuid(&o.label).unwrap_or_default(),
            _ => String::new(),
        };
        let req = format!("C34 blabel g={} v={} cv={}", hx(&g), vendor.map(hx).unwrap_or("none".into()), cv);
        self.run.count("op:blabel");
        let imp = match &r {
            Ok(Ok(o)) => format!("ok {}", hx(&o.label)),
            Ok(Err(k)) if k == "BadParam" => "err".to_string(),
            Ok(Err(k)) => format!("fail:{k}"),
            Err(_) => "panic".to_string(),
        };
        let i = self.run.case(req.clone(), imp);
        match r {
            Ok(v) => (i, Some(v)),
            Err(e) => {
                self.run.fail(i, "panic", format!("Builder panicked: {e} on {req}"));
                (i, None)
            }
        }
    }

    /// The relabelling step of `Store`'s ingredient conflict resolution, re-enacted with the real
    /// `manifest_label_to_parts` and `ManifestParts::to_string` (the step itself is inline in
    /// `Store::get_store_from_ingredient…` and cannot be called in isolation).
    fn relabel(&mut self, s: &str, n: usize) -> (usize, Option<Option<String>>) {
        let q = s.to_string();
        let r = guarded(move || {
            hk::manifest_label_to_parts(&q).map(|mut mp| {
                mp.version = Some(n);
                mp.reason = Some(1);
                hk::parts_to_string(&mp)
            })
        });
        self.rec("relabel", format!("C34 relabel s={} n={}", hx(s), n), r, opt_hex)
    }

    /// oracle helper
    fn expect<T: PartialEq + std::fmt::Debug>(&mut self, case: usize, class: &str, got: &Option<T>, want: &T, what: &str) {
        if let Some(g) = got {
            if g != want {
                self.run.fail(case, class, format!("{what}: got {g:?}, the statement requires {want:?}"));
            }
        }
    }
}

// ---------------------------------------------------------------- generators

const KNOWN_LABELS: &[&str] = &[
    "c2pa.actions",
    "c2pa.actions.v2",
    "c2pa.hash.data",
    "c2pa.hash.bmff.v3",
    "c2pa.hash.boxes",
    "c2pa.hash.collection.data",
    "c2pa.ingredient",
    "c2pa.ingredient.v2",
    "c2pa.ingredient.v3",
    "c2pa.thumbnail.claim",
    "c2pa.thumbnail.claim.jpeg",
    "c2pa.thumbnail.claim.png",
    "c2pa.metadata",
    "c2pa.soft-binding",
    "c2pa.asset-type",
    "c2pa.asset-ref",
    "c2pa.embedded-data",
    "c2pa.time-stamp",
    "c2pa.certificate-status",
    "c2pa.icon",
    "c2pa.depthmap.GDepth",
    "c2pa.cloud-data",
    "stds.schema-org.CreativeWork",
    "stds.schema-org.ClaimReview",
    "stds.exif",
    "stds.iptc",
    "stds.iptc.photo-metadata",
    "cawg.identity",
    "cawg.training-mining",
    "cawg.metadata",
    "org.contentauth.test",
    "com.adobe.generative-ai",
    "font.info",
];

const ING_THUMBS: &[&str] = &[
    "c2pa.thumbnail.ingredient",
    "c2pa.thumbnail.ingredient.jpeg",
    "c2pa.thumbnail.ingredient.png",
    "c2pa.thumbnail.ingredient.svg",
    "c2pa.thumbnail.ingredient.webp",
];

fn uuid(rng: &mut Rng, upper: bool) -> String {
    let mut b = rng.bytes(16);
    b[6] = (b[6] & 0x0f) | 0x40;
    b[8] = (b[8] & 0x3f) | 0x80;
    let h = hex::encode(b);
    let s = format!("{}-{}-{}-{}-{}", &h[0..8], &h[8..12], &h[12..16], &h[16..20], &h[20..32]);
    if upper {
        s.to_uppercase()
    } else {
        s
    }
}

/// vendor of valid charset and length: 1..=32 printable non-space ASCII, no `:` and no `/`
fn vendor(rng: &mut Rng) -> String {
    const WORDS: &[&str] = &[
        "acme", "adobe", "claim_capture", "test", "contentauth", "c2pa", "uuid", "x", "a.b-c_d", "v1", "0",
        "camera+app", "my=vendor", "self#jumbf", "c2pa.assertions", "urn2", "ur", "URN", "urn",
    ];
    match rng.below(10) {
        0..=4 => rng.pick(WORDS).to_string(),
        5..=8 => {
            let n = rng.range(1, 32) as usize;
            (0..n)
                .map(|_| *rng.pick(b"abcdefghijklmnopqrstuvwxyz0123456789_-.") as char)
                .collect()
        }
        _ => {
            let n = if rng.chance(1, 3) { 32 } else { rng.range(1, 32) as usize };
            (0..n)
                .map(|_| loop {
                    let c = rng.range(33, 126) as u8 as char;
                    if c != ':' && c != '/' {
                        break c;
                    }
                })
                .collect()
        }
    }
}

fn number(rng: &mut Rng) -> usize {
    match rng.below(12) {
        0 => 0,
        1..=5 => rng.range(1, 9) as usize,
        6 | 7 => rng.range(10, 5000) as usize,
        8 => usize::MAX,
        9 => usize::MAX - rng.below(20) as usize,
        10 => 10usize.pow(rng.range(1, 19) as u32),
        _ => rng.next() as usize,
    }
}

/// Parts of a label the SDK can generate (GUID, vendor of valid charset/length, version, reason).
fn wf_parts(rng: &mut Rng) -> hk::Parts {
    let is_v1 = rng.chance(1, 3);
    let guid = match rng.below(12) {
        0 => uuid(rng, true),
        1 => "F9168C5E-CEB2-4FAA-B6BF-329BF39FA1E4".to_string(),
        _ => uuid(rng, false),
    };
    let cgi = if rng.chance(3, 5) { Some(vendor(rng)) } else { None };
    let (version, reason) = if is_v1 || rng.chance(1, 3) {
        (None, None)
    } else {
        let v = Some(number(rng));
        let r = if rng.chance(2, 3) { Some(if rng.chance(1, 2) { 1 } else { number(rng) }) } else { None };
        (v, r)
    };
    hk::Parts { guid, is_v1, cgi, version, reason }
}

/// assertion / box label the SDK can generate: reverse-domain, no `/`, no `=`, no `__`, not ending in `_`
fn plain_label(rng: &mut Rng) -> String {
    match rng.below(10) {
        0..=5 => rng.pick(KNOWN_LABELS).to_string(),
        6 => format!("{}.v{}", rng.pick(KNOWN_LABELS), rng.range(1, 12)),
        _ => {
            let segs = rng.range(1, 4);
            let mut s = String::new();
            for i in 0..segs {
                if i > 0 {
                    s.push('.');
                }
                let n = rng.range(1, 8) as usize;
                for k in 0..n {
                    let c = *rng.pick(b"abcdefghijklmnopqrstuvwxyzABCDEFGHIJKLMNOPQRSTUVWXYZ0123456789-_") as char;
                    // keep well-formed: no `__`, no trailing `_`
                    let c = if c == '_' && (s.ends_with('_') || (k == n - 1 && i == segs - 1)) { 'u' } else { c };
                    s.push(c);
                }
            }
            s
        }
    }
}

fn fragment(rng: &mut Rng) -> String {
    const FR: &[&str] = &[
        "self#jumbf", "=", "=", "/", "/", "/", "c2pa", "c2pa", "c2pa.assertions", "c2pa.databoxes", "c2pa.signature",
        "c2pa.credentials", ":", ":", ":", "urn", "urn", "uuid", "c2pa", "__", "__", "_", ".", ".", "+", "-", " ", "\t",
        "thumbnail", "c2pa.thumbnail.ingredient", "c2pa.thumbnail.claim", "c2pa.thumbnail.ingredient.jpeg", "jpeg", "JPEG", "",
        "0", "1", "2", "007", "18446744073709551615", "18446744073709551616", "99999999999999999999999", "acme", "a", "b",
        "x", "\u{e9}", "\u{a0}", "\u{3000}", "\u{1F600}", "\u{85}", "c2pa/", "/c2pa/", "c2pa.actions", "urn:uuid:", "urn:c2pa:",
        "c2pa.assertions/", "123456789012345678901234567890123", "12345678901234567890123456789012", "\n", "\r", "v", "none",
    ];
    match rng.below(12) {
        0 => uuid(rng, false),
        1 => rng.range(0, 300).to_string(),
        _ => rng.pick(FR).to_string(),
    }
}

fn malformed(rng: &mut Rng) -> String {
    let n = match rng.below(10) {
        0 => 0,
        1 => 1,
        2..=6 => rng.range(2, 7),
        _ => rng.range(6, 14),
    };
    let mut s = String::new();
    for _ in 0..n {
        s.push_str(&fragment(rng));
    }
    s
}

/// a label-ish malformed string (mostly `urn`/`:`/digits)
fn malformed_label(rng: &mut Rng) -> String {
    const FR: &[&str] = &[
        "urn", "urn", "uuid", "c2pa", ":", ":", ":", ":", "_", "_", "+", "0", "1", "2_1", "3_", "_4", "1_2_3", "acme", "a b",
        " a", "a ", "\t", "", "x", "/", "=", "18446744073709551615", "18446744073709551616", "\u{e9}", "-1", "+7", "++7",
        "00", "abcdefghijklmnopqrstuvwxyz012345", "abcdefghijklmnopqrstuvwxyz0123456",
    ];
    let n = rng.range(1, 11);
    let mut s = String::new();
    let style = rng.below(4);
    if style == 0 {
        s.push_str("urn:c2pa:");
    } else if style == 1 {
        s.push_str("urn:uuid:");
    }
    for _ in 0..n {
        if rng.chance(1, 10) {
            s.push_str(&uuid(rng, false));
        } else {
            s.push_str(*rng.pick(FR));
        }
    }
    s
}


// ---------------------------------------------------------------- public Builder path

pub struct BuilderOut {
    label: String,
    malformed: bool,
    bytes: Vec<u8>,
    assertion_labels: Vec<String>,
}

fn source_jpeg() -> &'static Vec<u8> {
    static SRC: OnceLock<Vec<u8>> = OnceLock::new();
    SRC.get_or_init(|| std::fs::read(fixtures().join("IMG_0003.jpg")).expect("fixture IMG_0003.jpg"))
}

fn error_kind(e: &c2pa::Error) -> String {
    let d = format!("{e:?}");
    d.split(|c: char| !c.is_ascii_alphanumeric()).next().unwrap_or("").to_string()
}

/// Signs the fixture JPEG with a definition carrying `vendor` (and optionally one extra custom
/// assertion), reads the result back with a fresh Reader.
fn builder_label(vendor: Option<&str>, cv: usize, extra_assertion: Option<&str>) -> Result<BuilderOut, String> {
    let mut assertions = vec![serde_json::json!(
        {"label": "c2pa.actions", "data": {"actions": [{"action": "c2pa.created", "digitalSourceType": "http://cv.iptc.org/newscodes/digitalsourcetype/digitalCapture"}]}}
    )];
    if let Some(l) = extra_assertion {
        assertions.push(serde_json::json!({"label": l, "data": {"k": "v"}}));
    }
    let mut def = serde_json::json!({
        "title": "t", "format": "image/jpeg", "claim_version": cv,
        "claim_generator_info": [{"name": "verif-harness", "version": "0.1"}],
        "assertions": assertions
    });
    if let Some(v) = vendor {
        def["vendor"] = serde_json::json!(v);
    }
    let signer = EphemeralSigner::new("verif.test").map_err(|e| error_kind(&e))?;
    let ctx = Context::new()
        .with_settings(r#"{"verify":{"verify_after_sign":false}}"#)
        .map_err(|e| error_kind(&e))?
        .with_signer(signer);
    let mut b = Builder::from_context(ctx).with_definition(def.to_string().as_str()).map_err(|e| error_kind(&e))?;
    let mut input = Cursor::new(source_jpeg().clone());
    let mut output = Cursor::new(Vec::new());
    b.save_to_stream("image/jpeg", &mut input, &mut output).map_err(|e| error_kind(&e))?;
    let bytes = output.get_ref().clone();
    output.set_position(0);
    let rd = Reader::from_context(Context::new()).with_stream("image/jpeg", &mut output).map_err(|e| format!("read:{}", error_kind(&e)))?;
    let label = rd.active_label().unwrap_or("").to_string();
    let malformed = rd.validation_status().map(|v| v.iter().any(|s| s.code() == "claim.malformed")).unwrap_or(false);
    let assertion_labels = rd.active_manifest().map(|m| m.assertions().iter().map(|a| a.label().to_string()).collect()).unwrap_or_default();
    Ok(BuilderOut { label, malformed, bytes, assertion_labels })
}

/// first hyphenated lower-case UUID inside `s`
fn find_uuid(s: &str) -> Option<String> {
    let b = s.as_bytes();
    if b.len() < 36 {
        return None;
    }
    'outer: for i in 0..=b.len() - 36 {
        for (k, &c) in b[i..i + 36].iter().enumerate() {
            let dash = matches!(k, 8 | 13 | 18 | 23);
            if dash != (c == b'-') || (!dash && !c.is_ascii_hexdigit()) {
                continue 'outer;
            }
        }
        return Some(s[i..i + 36].to_string());
    }
    None
}

/// any vendor string a caller may put into a manifest definition
fn any_vendor(rng: &mut Rng) -> String {
    const BAD: &[&str] = &[
        "", " ", "my vendor", "My Vendor", "a:b", ":", "a/b", "/", "a=b", "=", "tab\tbed", "line\nfeed", "caf\u{e9}", "\u{1F600}",
        "abcdefghijklmnopqrstuvwxyz0123456", "ABCDEFGHIJKLMNOPQRSTUVWXYZ0123456789", " lead", "trail ", "a\u{1}b", "\u{7f}", "a\u{a0}b",
        "urn:uuid", "c2pa/x", "x:1_2", "acme:", ":acme", "\u{130}stanbul", "\u{df}",
    ];
    match rng.below(10) {
        0..=3 => vendor(rng),
        4 => vendor(rng).to_uppercase(),
        5..=7 => rng.pick(BAD).to_string(),
        _ => {
            // a valid vendor with one character replaced / inserted
            let mut v: Vec<char> = vendor(rng).chars().collect();
            let c = *rng.pick(&[':', '/', '=', ' ', '\t', '\u{e9}', '\u{0}', '~', '!', 'Z', '\u{7f}']);
            let at = rng.below(v.len() as u64 + 1) as usize;
            if rng.chance(1, 2) && at < v.len() {
                v[at] = c;
            } else {
                v.insert(at, c);
            }
            v.into_iter().collect()
        }
    }
}

/// a label that parses although `Display` never writes it (signs, leading zeros, extra `_` pieces,
/// empty fields, 1.x tails), sometimes inside a URI, sometimes with `/` or `=` in odd places
fn foreign_label(rng: &mut Rng) -> String {
    let g = match rng.below(6) {
        0 => "g".to_string(),
        1 => uuid(rng, true),
        2 => "".to_string(),
        3 => format!("a{}b", rng.pick(&["/", "=", "/c2pa/", "c2pa/", " ", "."])),
        _ => uuid(rng, false),
    };
    let num = |rng: &mut Rng| -> String {
        let n = number(rng);
        match rng.below(6) {
            0 => format!("+{n}"),
            1 => format!("00{n}"),
            2 => format!("+0{n}"),
            _ => n.to_string(),
        }
    };
    let mut s = match rng.below(8) {
        0 => format!("urn:uuid:{g}"),
        1 => format!("urn:uuid:{g}:{}", rng.pick(&["x", "t=q", "", "a:b:c", "1_2", "x/y"])),
        2 => format!("{}:urn:uuid:{g}", rng.pick(&["acme", "", "urn", "a b", "x=y", "a/b", "caf\u{e9}", "c2pa"])),
        _ => {
            let mut s = format!("urn:c2pa:{g}");
            let shape = rng.below(8);
            if shape >= 1 {
                s.push(':');
                if shape >= 3 {
                    s.push_str(&if rng.chance(1, 5) { rng.pick(&["x=y", "a/b", "A.B", "~", "c2pa"]).to_string() } else { vendor(rng) });
                }
            }
            if shape >= 2 {
                s.push(':');
                if shape >= 4 || shape == 2 {
                    s.push_str(&num(rng));
                    if rng.chance(1, 2) {
                        s.push('_');
                        s.push_str(&num(rng));
                        if rng.chance(1, 4) {
                            s.push_str(*rng.pick(&["_", "_9", "_x", "_=", "_/c2pa/z"]));
                        }
                    }
                }
            }
            s
        }
    };
    match rng.below(8) {
        0 => s = hk::to_manifest_uri(&s),
        1 => s = hk::to_assertion_uri(&s, "c2pa.actions"),
        2 => s = hk::to_signature_uri(&s),
        _ => {}
    }
    s
}

// ---------------------------------------------------------------- scenarios

fn scenario_wf(d: &mut Drv, rng: &mut Rng) {
    let p = wf_parts(rng);
    let shape = format!(
        "{}{}{}{}",
        if p.is_v1 { "v1" } else { "v2" },
        if p.cgi.is_some() { "+vendor" } else { "" },
        if p.version.is_some() { "+version" } else { "" },
        if p.reason.is_some() { "+reason" } else { "" }
    );
    d.run.count(&format!("parts:{shape}"));

    // 1. Display then parse
    let (_, label) = d.disp(&p);
    let Some(label) = label else { return };
    let (i, got) = d.parts(&label);
    d.expect(i, "parts-roundtrip", &got, &Some(p.clone()), "manifest_label_to_parts(parts.to_string())");
    d.run.nontrivial(format!("parts {label}"));
    if label.contains('=') {
        // `=` in a vendor is harmless for the label itself but not inside a JUMBF URI
        // (to_normalized_uri splits at every `=`); only the label round trip is required.
        d.run.count("parts-only:vendor-with-equals-sign");
        return;
    }

    // 2. URIs built from the label
    let a0 = plain_label(rng);
    let dbox = if rng.chance(1, 2) { "c2pa.data".to_string() } else { plain_label(rng) };
    let vc = plain_label(rng);
    let (_, muri) = d.build1("muri", &label);
    let (_, suri) = d.build1("suri", &label);
    let (_, auri) = d.build2("auri", &label, &a0);
    let (_, duri) = d.build2("duri", &label, &dbox);
    let (_, curi) = d.build2("curi", &label, &vc);
    let (Some(muri), Some(suri), Some(auri), Some(duri), Some(curi)) = (muri, suri, auri, duri, curi) else { return };

    for (name, u) in [("manifest", &muri), ("signature", &suri), ("assertion", &auri), ("databox", &duri), ("credential", &curi)] {
        let (i, got) = d.opt1("mlabel", u);
        d.expect(i, "manifest-label-from-uri", &got, &Some(label.clone()), &format!("manifest_label_from_uri({name} uri)"));
        if rng.chance(1, 3) {
            let (i, got) = d.parts(u);
            d.expect(i, "parts-roundtrip", &got, &Some(p.clone()), &format!("manifest_label_to_parts({name} uri)"));
        }
    }
    let (i, got) = d.opt1("alabel", &auri);
    d.expect(i, "assertion-label-from-uri", &got, &Some(a0.clone()), "assertion_label_from_uri(to_assertion_uri)");
    let (i, got) = d.opt1("alabel", &duri);
    d.expect(i, "assertion-label-from-uri", &got, &Some(dbox.clone()), "assertion_label_from_uri(to_databox_uri)");
    let (i, got) = d.opt1("alabel", &muri);
    d.expect(i, "assertion-label-from-uri", &got, &None, "assertion_label_from_uri(to_manifest_uri)");
    let (i, got) = d.opt1("box", &auri);
    d.expect(i, "box-name-from-uri", &got, &Some(a0.clone()), "box_name_from_uri(to_assertion_uri)");
    let (i, got) = d.opt1("box", &suri);
    d.expect(i, "box-name-from-uri", &got, &Some("c2pa.signature".to_string()), "box_name_from_uri(to_signature_uri)");
    let (i, got) = d.opt1("box", &muri);
    d.expect(i, "box-name-from-uri", &got, &Some(label.clone()), "box_name_from_uri(to_manifest_uri)");
    let (i, got) = d.opt1("box", &duri);
    d.expect(i, "box-name-from-uri", &got, &Some(dbox.clone()), "box_name_from_uri(to_databox_uri)");

    // 3. relative / absolute
    for (u, store, leaf) in [(&auri, "c2pa.assertions", &a0), (&duri, "c2pa.databoxes", &dbox), (&curi, "c2pa.credentials", &vc)] {
        let (i, rel) = d.str1("rel", u);
        let want_rel = format!("self#jumbf={store}/{leaf}");
        d.expect(i, "relative-absolute", &rel, &want_rel, "to_relative_uri(absolute uri)");
        if let Some(rel) = rel {
            let (i, back) = d.abs(&label, &rel);
            d.expect(i, "relative-absolute", &back, u, "to_absolute_uri(label, to_relative_uri(u))");
            let (i, again) = d.str1("rel", &rel);
            d.expect(i, "relative-absolute", &again, &rel, "to_relative_uri is idempotent on a relative uri");
            if store == "c2pa.assertions" {
                let (i, got) = d.opt1("alabel", &rel);
                d.expect(i, "assertion-label-from-uri", &got, &Some(leaf.clone()), "assertion_label_from_uri(relative assertion uri)");
            }
            let (i, got) = d.opt1("mlabel", &rel);
            d.expect(i, "manifest-label-from-uri", &got, &None, "manifest_label_from_uri(relative uri)");
        }
        let (i, same) = d.abs(&label, u);
        d.expect(i, "relative-absolute", &same, u, "to_absolute_uri leaves an absolute uri unchanged");
    }
    let (_, n1) = d.str1("norm", &auri);
    if let Some(n1) = n1 {
        let (i, n2) = d.str1("norm", &n1);
        d.expect(i, "relative-absolute", &n2, &n1, "to_normalized_uri is idempotent");
    }

    // 4. instance suffixes
    let base = if rng.chance(1, 4) { rng.pick(ING_THUMBS).to_string() } else { plain_label(rng) };
    let inst = if rng.chance(1, 5) { 0 } else { number(rng) };
    d.run.count(if base.starts_with("c2pa.thumbnail.ingredient") { "instance:ingredient-thumbnail" } else { "instance:plain" });
    let (_, li) = d.lwi(&base, inst);
    if let Some(li) = li {
        d.run.nontrivial(format!("inst {li}"));
        let (_, u) = d.build2("auri", &label, &li);
        if let Some(u) = u {
            let (i, got) = d.link(&u);
            d.expect(i, "instance-roundtrip", &got, &(base.clone(), inst), "assertion_label_from_link(to_assertion_uri(m, label_with_instance(l, n)))");
            let (i, got) = d.opt1("alabel", &u);
            d.expect(i, "assertion-label-from-uri", &got, &Some(li.clone()), "assertion_label_from_uri keeps the instance suffix");
            let (_, rel) = d.str1("rel", &u);
            if let Some(rel) = rel {
                let (i, got) = d.link(&rel);
                d.expect(i, "instance-roundtrip", &got, &(base.clone(), inst), "assertion_label_from_link(relative uri)");
            }
        }
        let (i, got) = d.link(&li);
        d.expect(i, "instance-roundtrip", &got, &(base.clone(), inst), "assertion_label_from_link(bare label)");
    }
}

/// Labels of freshly created claims parse and print back.
fn scenario_sdk(d: &mut Drv, rng: &mut Rng) {
    let vend = if rng.chance(2, 3) {
        let v = vendor(rng);
        // Claim::new lower-cases the vendor; use the mixed-case input half of the time
        Some(if rng.chance(1, 2) { v.to_uppercase() } else { v })
    } else {
        None
    };
    let cv = if rng.chance(1, 2) { 1 } else { 2 };
    let v2 = vend.clone();
    let Ok(label) = guarded(move || hk::new_claim_label(v2.as_deref(), cv)) else {
        let i = d.run.case("C34 muri m=-".into(), "ok ".to_string() + &hx(&hk::to_manifest_uri("")));
        d.run.fail(i, "panic", format!("Claim::new panicked for vendor {vend:?}"));
        return;
    };
    d.run.count(&format!("sdk-label:v{cv}{}", if vend.is_some() { "+vendor" } else { "" }));
    let (i, got) = d.parts(&label);
    if let Some(got) = got {
        match got {
            None => d.run.fail(i, "sdk-label-unparsable", format!("Claim::new(vendor={vend:?}, v{cv}) produced {label:?}, which manifest_label_to_parts rejects")),
            Some(p) => {
                let want_v = vend.as_ref().map(|v| v.to_lowercase());
                if p.cgi != want_v || p.is_v1 != (cv == 1) || p.version.is_some() || p.reason.is_some() || p.guid.len() != 36 {
                    d.run.fail(i, "sdk-label-parts", format!("label {label:?} parsed to {p:?}"));
                }
                let (j, back) = d.disp(&p);
                d.expect(j, "parts-roundtrip", &back, &label, "parts.to_string() of a generated label");
                // conflict relabelling as done by the store: bump version, set reason
                if !p.is_v1 {
                    let mut q = p.clone();
                    q.version = Some(rng.range(1, 40) as usize);
                    q.reason = Some(1);
                    let (_, l2) = d.disp(&q);
                    if let Some(l2) = l2 {
                        let (k, got) = d.parts(&l2);
                        d.expect(k, "parts-roundtrip", &got, &Some(q.clone()), "conflict label round trip");
                    }
                }
            }
        }
    }
    d.run.nontrivial(format!("sdk {label}"));
}

/// Vendors as a caller may give them: the Builder's vendor test, `Claim::new`, and (sampled) the
/// whole public path Builder -> sign -> Reader.
fn scenario_vendor(d: &mut Drv, rng: &mut Rng, with_builder: bool) {
    let v = any_vendor(rng);
    let cv = if rng.chance(1, 3) { 1 } else { 2 };
    let (_, ok) = d.vendorok(&v);
    let Some(ok) = ok else { return };
    d.run.count(if ok { "vendor:accepted" } else { "vendor:refused" });
    if v.is_ascii() {
        // Claim::new itself (crate-private) only lower-cases
        let (i, l) = d.newlabel(Some(&v), cv);
        if let (true, Some(l)) = (ok, l) {
            let (_, got) = d.parts(&l);
            match got {
                Some(Some(p)) if p.cgi.as_deref() == Some(v.to_lowercase().as_str()) && p.is_v1 == (cv == 1) => {
                    let (j, m) = d.opt1("mlabel", &hk::to_signature_uri(&l));
                    d.expect(j, "vendor-accepted-label-uri", &m, &Some(l.clone()), "manifest_label_from_uri(to_signature_uri(label of an accepted vendor))");
                }
                Some(other) => d.run.fail(i, "vendor-accepted-label-unparsable", format!("is_valid_vendor({v:?}) but Claim::new gives {l:?}, parsed as {other:?}")),
                None => {}
            }
        }
    }
    if with_builder {
        let (i, out) = d.blabel(Some(&v), cv);
        match out {
            Some(Ok(o)) => {
                d.run.count("builder:signed");
                d.run.nontrivial(format!("builder {}", o.label));
                let want = Some(v.to_lowercase());
                let got = hk::manifest_label_to_parts(&o.label);
                let good = matches!(&got, Some(p) if p.cgi == want && p.is_v1 == (cv == 1) && p.version.is_none() && p.reason.is_none());
                if !good || o.malformed {
                    d.run.fail(i, "builder-label-unparsable", format!("Builder(vendor={v:?}, claim_version={cv}) wrote the manifest label {:?}: manifest_label_to_parts -> {got:?}, reader reports claim.malformed: {}", o.label, o.malformed));
                }
                if !ok {
                    d.run.fail(i, "builder-vendor-test", format!("vendor {v:?} fails is_valid_vendor but the Builder signed with it"));
                }
            }
            Some(Err(k)) => {
                d.run.count(&format!("builder:refused:{k}"));
                if ok {
                    d.run.fail(i, "builder-vendor-test", format!("vendor {v:?} passes is_valid_vendor but the Builder failed with {k}"));
                }
            }
            None => {}
        }
    }
}

/// Labels as they may come from a file: parse first, then Display, then parse; the relabel step.
fn scenario_foreign(d: &mut Drv, rng: &mut Rng) {
    let s = if rng.chance(1, 6) { malformed_label(rng) } else { foreign_label(rng) };
    let (_, got) = d.parts(&s);
    let Some(Some(p)) = got else {
        d.run.count("foreign:rejected");
        return;
    };
    d.run.count("foreign:parsed");
    let (_, is_uri) = d.opt1("mlabel", &s);
    let in_scope = !s.contains('/') || matches!(is_uri, Some(Some(_)));
    d.run.count(if in_scope { "foreign:bare-or-uri" } else { "foreign:slash-not-uri" });
    let (_, l2) = d.disp(&p);
    let Some(l2) = l2 else { return };
    let (i, again) = d.parts(&l2);
    if in_scope {
        d.run.nontrivial(format!("foreign {s}"));
        d.expect(i, "parts-display-idempotent", &again, &Some(p.clone()), "manifest_label_to_parts(parts.to_string()) for parts parsed from a label / manifest URI");
    }
    let n = number(rng);
    let (i, l3) = d.relabel(&s, n);
    if let (true, Some(l3)) = (in_scope, l3) {
        let Some(l3) = l3 else {
            d.run.fail(i, "relabel-roundtrip", format!("relabel of parsable {s:?} failed"));
            return;
        };
        let (j, got) = d.parts(&l3);
        if p.is_v1 {
            d.run.count("relabel:v1-unchanged");
            d.expect(j, "relabel-roundtrip", &Some(l3.clone()), &l2, "a 1.x label is printed without version and reason");
        } else {
            let mut q = p.clone();
            q.version = Some(n);
            q.reason = Some(1);
            d.expect(j, "relabel-roundtrip", &got, &Some(q), "relabelled 2.x label parses to the old parts with new version, reason 1");
            if p.version != Some(n) && hk::manifest_label_from_uri(&s).unwrap_or(s.clone()) == l3 {
                d.run.fail(j, "relabel-roundtrip", format!("relabel of {s:?} to version {n} returned the same label"));
            }
        }
    }
}

/// Ingredient-thumbnail labels with a format suffix of any case: the pair read back carries the
/// lower-cased suffix.
fn scenario_thumb_case(d: &mut Drv, rng: &mut Rng) {
    let n = rng.range(1, 6) as usize;
    let f: String = (0..n).map(|_| *rng.pick(b"abcdefghijklmnopqrstuvwxyzABCDEFGHIJKLMNOPQRSTUVWXYZ0123456789-+") as char).collect();
    let base = format!("c2pa.thumbnail.ingredient.{f}");
    let want = format!("c2pa.thumbnail.ingredient.{}", f.to_ascii_lowercase());
    let inst = if rng.chance(1, 3) { 0 } else { number(rng) };
    d.run.count(if f == f.to_ascii_lowercase() { "thumb-case:lower" } else { "thumb-case:mixed" });
    let (_, li) = d.lwi(&base, inst);
    if let Some(li) = li {
        d.run.nontrivial(format!("thumb {li}"));
        let (i, got) = d.link(&li);
        d.expect(i, "instance-roundtrip-normalised", &got, &(want.clone(), inst), "assertion_label_from_link(label_with_instance(thumbnail label of any case))");
        let (i, got) = d.link(&hk::to_assertion_uri("urn:uuid:m", &li));
        d.expect(i, "instance-roundtrip-normalised", &got, &(want, inst), "the same through an assertion URI");
    }
}

/// label-with-suffix lookalikes: several `__`, non-numeric or signed instances, odd thumbnails
fn malformed_instance(rng: &mut Rng) -> String {
    const TAIL: &[&str] = &[
        "__", "__", "__", "_", "1", "2", "07", "+3", "-1", "x", ".", ".jpeg", ".PNG", ".v2", "18446744073709551616",
        "18446744073709551615", "", "_1.jpeg", "thumbnail", " ",
    ];
    let mut s = match rng.below(6) {
        0 => rng.pick(ING_THUMBS).to_string(),
        1 => "c2pa.thumbnail.ingredient_1".to_string(),
        2 => "a".to_string(),
        3 => String::new(),
        _ => rng.pick(KNOWN_LABELS).to_string(),
    };
    for _ in 0..rng.range(1, 6) {
        s.push_str(*rng.pick(TAIL));
    }
    match rng.below(4) {
        0 => format!("self#jumbf=c2pa.assertions/{s}"),
        1 => format!("self#jumbf=/c2pa/urn:uuid:m/c2pa.assertions/{s}"),
        _ => s,
    }
}

fn scenario_malformed(d: &mut Drv, rng: &mut Rng) {
    let s = match rng.below(5) {
        0 | 1 => malformed(rng),
        2 | 3 => malformed_label(rng),
        _ => malformed_instance(rng),
    };
    d.run.count("malformed");
    d.parts(&s);
    d.str1("norm", &s);
    d.str1("rel", &s);
    let m = if rng.chance(1, 2) { malformed_label(rng) } else { "urn:uuid:m".to_string() };
    d.abs(&m, &s);
    d.opt1("mlabel", &s);
    d.opt1("alabel", &s);
    d.opt1("box", &s);
    d.link(&s);
    let n = if rng.chance(1, 4) { 0 } else { number(rng) };
    d.lwi(&s, n);
    if rng.chance(1, 4) {
        // arbitrary parts through Display (any strings, any option combination)
        let p = hk::Parts {
            guid: malformed_label(rng),
            is_v1: rng.chance(1, 2),
            cgi: if rng.chance(1, 2) { Some(fragment(rng)) } else { None },
            version: if rng.chance(1, 2) { Some(number(rng)) } else { None },
            reason: if rng.chance(1, 2) { Some(number(rng)) } else { None },
        };
        let (_, l) = d.disp(&p);
        if let Some(l) = l {
            d.parts(&l);
        }
        d.build2("auri", &s, &m);
        d.build2("duri", &m, &s);
        d.build2("curi", &s, &s);
        d.build1("suri", &s);
        d.build1("muri", &s);
    }
}

/// Witnesses of the negated full statements proved in Props/C34.lean, replayed on the real code.
fn witnesses(d: &mut Drv) {
    // (a) a "guid" that contains a manifest-store path: the full round trip is false
    let p = hk::Parts { guid: "x/c2pa/urn:c2pa:y".into(), is_v1: false, cgi: None, version: None, reason: None };
    let (_, l) = d.disp(&p);
    let ok_a = match l {
        Some(l) => {
            let (_, got) = d.parts(&l);
            matches!(got, Some(Some(q)) if q.guid == "y")
        }
        None => false,
    };
    d.run.obligations.insert("witness:guid-with-store-path-does-not-round-trip".into(), ok_a);

    // (b) v1 parts carrying a version: Display drops it
    let p = hk::Parts { guid: "g".into(), is_v1: true, cgi: None, version: Some(2), reason: Some(1) };
    let (_, l) = d.disp(&p);
    let ok_b = match l {
        Some(l) => {
            let (_, got) = d.parts(&l);
            l == "urn:uuid:g" && matches!(got, Some(Some(q)) if q.version.is_none() && q.reason.is_none())
        }
        None => false,
    };
    d.run.obligations.insert("witness:v1-version-is-not-printed".into(), ok_b);

    // (c) label ending in `_` loses its instance
    let (_, li) = d.lwi("a_", 5);
    let ok_c = match li {
        Some(li) => {
            let (_, got) = d.link(&li);
            li == "a___5" && got == Some(("a".to_string(), 0))
        }
        None => false,
    };
    d.run.obligations.insert("witness:label-ending-in-underscore-loses-instance".into(), ok_c);

    // (d) relative databox URIs are not understood by assertion_label_from_uri
    let (_, got) = d.opt1("alabel", "self#jumbf=c2pa.databoxes/c2pa.data");
    d.run.obligations.insert("witness:relative-databox-uri-has-no-assertion-label".into(), got == Some(None));

    // (e) signature URI is returned unchanged by to_relative_uri (4 segments only)
    let su = hk::to_signature_uri("urn:uuid:g");
    let (_, got) = d.str1("rel", &su);
    d.run.obligations.insert("witness:signature-uri-stays-absolute".into(), got == Some(su));

    // (f) the parse-first direction is not idempotent on a string with `/` that is not a manifest URI
    let (_, got) = d.parts("urn:uuid:a/c2pa/b:t=q");
    let ok_f = match got {
        Some(Some(p)) if p.guid == "a/c2pa/b" && p.is_v1 && p.cgi.is_none() => {
            let (_, l) = d.disp(&p);
            match l {
                Some(l) => {
                    let (_, again) = d.parts(&l);
                    l == "urn:uuid:a/c2pa/b" && again == Some(None)
                }
                None => false,
            }
        }
        _ => false,
    };
    d.run.obligations.insert("witness:parse-first-is-not-idempotent-on-slash-label".into(), ok_f);

    // (g) an ingredient-thumbnail label with an upper-case suffix comes back lower-cased
    let up = "c2pa.thumbnail.ingredient.JPEG";
    let (_, l0) = d.lwi(up, 0);
    let (_, l2) = d.lwi(up, 2);
    let ok_g = match (l0, l2) {
        (Some(l0), Some(l2)) => {
            let (_, g0) = d.link(&l0);
            let (_, g2) = d.link(&l2);
            l0 == up
                && l2 == "c2pa.thumbnail.ingredient__2.jpeg"
                && g0 == Some(("c2pa.thumbnail.ingredient.jpeg".to_string(), 0))
                && g2 == Some(("c2pa.thumbnail.ingredient.jpeg".to_string(), 2))
        }
        _ => false,
    };
    d.run.obligations.insert("witness:upper-case-thumbnail-suffix-is-read-back-lower-case".into(), ok_g);
    // …and the SDK never writes such a box label: Assertion::label() normalises it
    let ok_g2 = match guarded(|| builder_label(None, 2, Some("c2pa.thumbnail.ingredient.JPEG"))) {
        Ok(Ok(o)) => {
            let has = |pat: &str| o.bytes.windows(pat.len()).any(|w| w == pat.as_bytes());
            has("c2pa.thumbnail.ingredient.jpeg") && !has("c2pa.thumbnail.ingredient.JPEG") && !o.malformed
                && o.assertion_labels.iter().any(|l| l == "c2pa.thumbnail.ingredient.jpeg")
        }
        _ => false,
    };
    d.run.obligations.insert("witness:upper-case-thumbnail-suffix-is-never-written".into(), ok_g2);

    // (h) Claim::new only lower-cases the vendor (Props: newLabel_witness) …
    let mut ok_h = true;
    for (v, cv) in [("a:b", 2), ("My Vendor", 2), ("abcdefghijklmnopqrstuvwxyz0123456", 2), ("a:b", 1)] {
        let (_, l) = d.newlabel(Some(v), cv);
        match l {
            Some(l) => {
                let (_, got) = d.parts(&l);
                ok_h &= got == Some(None);
            }
            None => ok_h = false,
        }
    }
    let (_, l) = d.newlabel(Some("a/b"), 2);
    ok_h &= match l {
        Some(l) => {
            let (_, m) = d.opt1("mlabel", &hk::to_manifest_uri(&l));
            matches!(m, Some(Some(m)) if m.ends_with(":a") && m != l)
        }
        None => false,
    };
    let (_, l) = d.newlabel(Some(""), 2);
    ok_h &= match l {
        Some(l) => {
            let (_, got) = d.parts(&l);
            matches!(got, Some(Some(p)) if p.cgi.is_none())
        }
        None => false,
    };
    d.run.obligations.insert("witness:claim-new-does-not-sanitise-the-vendor".into(), ok_h);
    // … and the public Builder refuses every one of them
    let mut ok_h2 = true;
    for (v, cv) in [("a:b", 2), ("My Vendor", 2), ("abcdefghijklmnopqrstuvwxyz0123456", 2), ("a:b", 1), ("a/b", 2), ("a=b", 2), ("", 2), ("caf\u{e9}", 2)] {
        let (_, out) = d.blabel(Some(v), cv);
        ok_h2 &= matches!(out, Some(Err(k)) if k == "BadParam");
    }
    d.run.obligations.insert("builder-refuses-vendors-the-label-cannot-carry".into(), ok_h2);
    let (_, out) = d.blabel(None, 2);
    let (_, out1) = d.blabel(Some("Camera+App"), 1);
    let ok_h3 = matches!(out, Some(Ok(o)) if !o.malformed && o.label.starts_with("urn:c2pa:"))
        && matches!(out1, Some(Ok(o)) if o.label.starts_with("camera+app:urn:uuid:"));
    d.run.obligations.insert("builder-accepts-no-vendor-and-mixed-case-vendor".into(), ok_h3);

    // (i) relabelling a 1.x label returns the label itself
    let (_, got) = d.relabel("urn:uuid:g", 2);
    d.run.obligations.insert("witness:relabel-of-1x-label-is-unchanged".into(), got == Some(Some("urn:uuid:g".to_string())));
    let (_, got) = d.relabel("urn:c2pa:3fad1ead-8ed5-44d0-873b-ea5f58adea82:acme", 2);
    d.run.obligations.insert("relabel-example".into(), got == Some(Some("urn:c2pa:3fad1ead-8ed5-44d0-873b-ea5f58adea82:acme:2_1".to_string())));

    // fixed spot checks from the unit tests of labels.rs
    for s in [
        "urn:c2pa:F9168C5E-CEB2-4FAA-B6BF-329BF39FA1E4:acme:2_1:extra",
        "acme:urn:uuid:F9168C5E-CEB2-4FAA-B6BF-329BF39FA1E4:2_1",
        "c2pa.assertions",
        "self#jumbf=c2pa.assertions",
        "",
        "c2pa.assertions/c2pa.actions",
        "=",
        "==",
        "/",
        "c2pa/",
        "/c2pa/",
        "/c2pa//",
        "a/c2pa/b/c/d",
        "urn:urn:uuid:g",
        "urn:urn:urn",
        "urn:c2pa:g:v:+1_+2",
        "urn:c2pa:g:v:_",
        "urn:c2pa:g:v:1_",
        "urn:c2pa:g: v :1",
        "urn:c2pa:g:a b:1",
        "urn:c2pa:g:\u{e9}:1",
    ] {
        d.parts(s);
        d.str1("norm", s);
        d.str1("rel", s);
        d.abs("m", s);
        d.opt1("mlabel", s);
        d.opt1("alabel", s);
        d.opt1("box", s);
        d.link(s);
    }
}

pub fn run(run: &mut Run, rng: &mut Rng) {
    run.rule = "well-formed scenarios: parts = (uuid GUID, optional vendor of 1..=32 printable non-space ASCII without ':' '/', optional version, optional reason only with a version, none of both for 1.x labels) -> Display -> parse, every URI builder -> every reader, relative/absolute, label_with_instance -> assertion_label_from_link for plain labels (no '/', '=', '__', no trailing '_') and ingredient-thumbnail labels; labels of fresh Claim::new claims; vendors as a caller may give them (valid, upper case, with separators / spaces / non-ASCII / over-long / empty) through is_valid_vendor, Claim::new and, sampled, the public Builder -> sign -> Reader path; foreign labels (parsable but never written by Display: signs, leading zeros, extra pieces, empty fields, 1.x tails, inside URIs) through parse -> Display -> parse and the store's relabel step; ingredient-thumbnail labels with a suffix of any case; a case is non-trivial when it belongs to a well-formed scenario (distinct by generated label / instanced label); the malformed stream (random concatenations of separators, keywords, digits, whitespace, non-ASCII) only checks model = implementation and absence of panics".to_string();
    let (n_wf, n_sdk, n_mal) = if run.thorough() { (40_000, 15_000, 250_000) } else { (2_500, 1_000, 12_000) };
    let (n_vendor, builder_every, n_foreign, n_thumb) = if run.thorough() { (20_000, 10, 60_000, 5_000) } else { (2_000, 10, 5_000, 500) };
    let mut d = Drv { run };
    witnesses(&mut d);
    for _ in 0..n_wf {
        let mut r = rng.fork();
        scenario_wf(&mut d, &mut r);
    }
    for _ in 0..n_sdk {
        let mut r = rng.fork();
        scenario_sdk(&mut d, &mut r);
    }
    for _ in 0..n_mal {
        let mut r = rng.fork();
        scenario_malformed(&mut d, &mut r);
    }
    for k in 0..n_vendor {
        let mut r = rng.fork();
        scenario_vendor(&mut d, &mut r, k % builder_every == 0);
    }
    for _ in 0..n_foreign {
        let mut r = rng.fork();
        scenario_foreign(&mut d, &mut r);
    }
    for _ in 0..n_thumb {
        let mut r = rng.fork();
        scenario_thumb_case(&mut d, &mut r);
    }
    let n = d.run.reqs.len();
    d.run.notes.push(format!("cases: {n}; scenarios well-formed {n_wf}, sdk-generated {n_sdk}, malformed {n_mal}, vendor {n_vendor} (every {builder_every}th through Builder/sign/Reader), foreign labels {n_foreign}, thumbnail case {n_thumb}"));
}
