//! C34 — JUMBF URIs and manifest labels parse back to their parts.
//!
//! Request lines (see lean/C2paModel/Model/C34.lean); strings are hex of their UTF-8 bytes:
//!   C34 disp g= v1= cgi=<none|hex> ver=<-|n> rsn=<-|n>     -> ok <hex>
//!   C34 parts s=                                            -> ok none | ok some g= v1= cgi= ver= rsn= | panic
//!   C34 muri m= | suri m= | auri m= a= | curi m= a= | duri m= a=   -> ok <hex>
//!   C34 norm s= | rel s= | abs m= s=                        -> ok <hex> | panic
//!   C34 mlabel s= | alabel s= | box s=                      -> ok none | ok some:<hex> | panic
//!   C34 lwi l= n=<dec>                                      -> ok <hex> | panic
//!   C34 link s=                                             -> ok <hex> <n> | panic
//!
//! The property oracle (round-trip laws) is evaluated on the real functions only.

use c2pa::verif_hooks::c34 as hk;
use vh::common::{guarded, hex, main_with, Rng, Run};

fn main() {
    main_with("C34", run);
}

fn hx(s: &str) -> String {
    hex(s.as_bytes())
}

fn opt_hex(o: &Option<String>) -> String {
    match o {
        None => "none".to_string(),
        Some(s) => format!("some:{}", hx(s)),
    }
}

fn opt_n(o: Option<usize>) -> String {
    match o {
        None => "-".to_string(),
        Some(n) => n.to_string(),
    }
}

fn parts_fields(p: &hk::Parts) -> String {
    format!(
        "g={} v1={} cgi={} ver={} rsn={}",
        hx(&p.guid),
        if p.is_v1 { 1 } else { 0 },
        match &p.cgi {
            None => "none".to_string(),
            Some(v) => hx(v),
        },
        opt_n(p.version),
        opt_n(p.reason)
    )
}

/// Runs one operation of the real code, records the case, flags panics.
struct Drv<'a> {
    run: &'a mut Run,
}

impl<'a> Drv<'a> {
    fn rec<T>(&mut self, op: &str, req: String, r: Result<T, String>, f: impl FnOnce(&T) -> String) -> (usize, Option<T>) {
        self.run.count(&format!("op:{op}"));
        let imp = match &r {
            Ok(v) => format!("ok {}", f(v)),
            Err(_) => "panic".to_string(),
        };
        let i = self.run.case(req.clone(), imp);
        match r {
            Ok(v) => (i, Some(v)),
            Err(e) => {
                self.run.fail(i, "panic", format!("{op} panicked: {e} on {req}"));
                (i, None)
            }
        }
    }

    fn disp(&mut self, p: &hk::Parts) -> (usize, Option<String>) {
        let q = p.clone();
        let r = guarded(move || hk::parts_to_string(&q));
        self.rec("disp", format!("C34 disp {}", parts_fields(p)), r, |s| hx(s))
    }

    fn parts(&mut self, s: &str) -> (usize, Option<Option<hk::Parts>>) {
        let q = s.to_string();
        let r = guarded(move || hk::manifest_label_to_parts(&q));
        self.rec("parts", format!("C34 parts s={}", hx(s)), r, |o| match o {
            None => "none".to_string(),
            Some(p) => format!("some {}", parts_fields(p)),
        })
    }

    fn build1(&mut self, op: &'static str, m: &str) -> (usize, Option<String>) {
        let q = m.to_string();
        let r = guarded(move || match op {
            "muri" => hk::to_manifest_uri(&q),
            _ => hk::to_signature_uri(&q),
        });
        self.rec(op, format!("C34 {op} m={}", hx(m)), r, |s| hx(s))
    }

    fn build2(&mut self, op: &'static str, m: &str, a: &str) -> (usize, Option<String>) {
        let (q, b) = (m.to_string(), a.to_string());
        let r = guarded(move || match op {
            "auri" => hk::to_assertion_uri(&q, &b),
            "curi" => hk::to_verifiable_credential_uri(&q, &b),
            _ => hk::to_databox_uri(&q, &b),
        });
        self.rec(op, format!("C34 {op} m={} a={}", hx(m), hx(a)), r, |s| hx(s))
    }

    fn str1(&mut self, op: &'static str, s: &str) -> (usize, Option<String>) {
        let q = s.to_string();
        let r = guarded(move || match op {
            "norm" => hk::to_normalized_uri(&q),
            _ => hk::to_relative_uri(&q),
        });
        self.rec(op, format!("C34 {op} s={}", hx(s)), r, |s| hx(s))
    }

    fn abs(&mut self, m: &str, s: &str) -> (usize, Option<String>) {
        let (q, b) = (m.to_string(), s.to_string());
        let r = guarded(move || hk::to_absolute_uri(&q, &b));
        self.rec("abs", format!("C34 abs m={} s={}", hx(m), hx(s)), r, |s| hx(s))
    }

    fn opt1(&mut self, op: &'static str, s: &str) -> (usize, Option<Option<String>>) {
        let q = s.to_string();
        let r = guarded(move || match op {
            "mlabel" => hk::manifest_label_from_uri(&q),
            "alabel" => hk::assertion_label_from_uri(&q),
            _ => hk::box_name_from_uri(&q),
        });
        self.rec(op, format!("C34 {op} s={}", hx(s)), r, opt_hex)
    }

    fn lwi(&mut self, l: &str, n: usize) -> (usize, Option<String>) {
        let q = l.to_string();
        let r = guarded(move || hk::label_with_instance(&q, n));
        self.rec("lwi", format!("C34 lwi l={} n={}", hx(l), n), r, |s| hx(s))
    }

    fn link(&mut self, s: &str) -> (usize, Option<(String, usize)>) {
        let q = s.to_string();
        let r = guarded(move || hk::assertion_label_from_link(&q));
        self.rec("link", format!("C34 link s={}", hx(s)), r, |(l, n)| format!("{} {}", hx(l), n))
    }

    /// oracle helper
    fn expect<T: PartialEq + std::fmt::Debug>(&mut self, case: usize, class: &str, got: &Option<T>, want: &T, what: &str) {
        if let Some(g) = got {
            if g != want {
                self.run.fail(case, class, format!("{what}: got {g:?}, the statement requires {want:?}"));
            }
        }
    }
}

// ---------------------------------------------------------------- generators

const KNOWN_LABELS: &[&str] = &[
    "c2pa.actions",
    "c2pa.actions.v2",
    "c2pa.hash.data",
    "c2pa.hash.bmff.v3",
    "c2pa.hash.boxes",
    "c2pa.hash.collection.data",
    "c2pa.ingredient",
    "c2pa.ingredient.v2",
    "c2pa.ingredient.v3",
    "c2pa.thumbnail.claim",
    "c2pa.thumbnail.claim.jpeg",
    "c2pa.thumbnail.claim.png",
    "c2pa.metadata",
    "c2pa.soft-binding",
    "c2pa.asset-type",
    "c2pa.asset-ref",
    "c2pa.embedded-data",
    "c2pa.time-stamp",
    "c2pa.certificate-status",
    "c2pa.icon",
    "c2pa.depthmap.GDepth",
    "c2pa.cloud-data",
    "stds.schema-org.CreativeWork",
    "stds.schema-org.ClaimReview",
    "stds.exif",
    "stds.iptc",
    "stds.iptc.photo-metadata",
    "cawg.identity",
    "cawg.training-mining",
    "cawg.metadata",
    "org.contentauth.test",
    "com.adobe.generative-ai",
    "font.info",
];

const ING_THUMBS: &[&str] = &[
    "c2pa.thumbnail.ingredient",
    "c2pa.thumbnail.ingredient.jpeg",
    "c2pa.thumbnail.ingredient.png",
    "c2pa.thumbnail.ingredient.svg",
    "c2pa.thumbnail.ingredient.webp",
];

fn uuid(rng: &mut Rng, upper: bool) -> String {
    let mut b = rng.bytes(16);
    b[6] = (b[6] & 0x0f) | 0x40;
    b[8] = (b[8] & 0x3f) | 0x80;
    let h = hex::encode(b);
    let s = format!("{}-{}-{}-{}-{}", &h[0..8], &h[8..12], &h[12..16], &h[16..20], &h[20..32]);
    if upper {
        s.to_uppercase()
    } else {
        s
    }
}

/// vendor of valid charset and length: 1..=32 printable non-space ASCII, no `:` and no `/`
fn vendor(rng: &mut Rng) -> String {
    const WORDS: &[&str] = &[
        "acme", "adobe", "claim_capture", "test", "contentauth", "c2pa", "uuid", "x", "a.b-c_d", "v1", "0",
        "camera+app", "my=vendor", "self#jumbf", "c2pa.assertions", "urn2", "ur", "URN", "urn",
    ];
    match rng.below(10) {
        0..=4 => rng.pick(WORDS).to_string(),
        5..=8 => {
            let n = rng.range(1, 32) as usize;
            (0..n)
                .map(|_| *rng.pick(b"abcdefghijklmnopqrstuvwxyz0123456789_-.") as char)
                .collect()
        }
        _ => {
            let n = if rng.chance(1, 3) { 32 } else { rng.range(1, 32) as usize };
            (0..n)
                .map(|_| loop {
                    let c = rng.range(33, 126) as u8 as char;
                    if c != ':' && c != '/' {
                        break c;
                    }
                })
                .collect()
        }
    }
}

fn number(rng: &mut Rng) -> usize {
    match rng.below(12) {
        0 => 0,
        1..=5 => rng.range(1, 9) as usize,
        6 | 7 => rng.range(10, 5000) as usize,
        8 => usize::MAX,
        9 => usize::MAX - rng.below(20) as usize,
        10 => 10usize.pow(rng.range(1, 19) as u32),
        _ => rng.next() as usize,
    }
}

/// Parts of a label the SDK can generate (GUID, vendor of valid charset/length, version, reason).
fn wf_parts(rng: &mut Rng) -> hk::Parts {
    let is_v1 = rng.chance(1, 3);
    let guid = match rng.below(12) {
        0 => uuid(rng, true),
        1 => "F9168C5E-CEB2-4FAA-B6BF-329BF39FA1E4".to_string(),
        _ => uuid(rng, false),
    };
    let cgi = if rng.chance(3, 5) { Some(vendor(rng)) } else { None };
    let (version, reason) = if is_v1 || rng.chance(1, 3) {
        (None, None)
    } else {
        let v = Some(number(rng));
        let r = if rng.chance(2, 3) { Some(if rng.chance(1, 2) { 1 } else { number(rng) }) } else { None };
        (v, r)
    };
    hk::Parts { guid, is_v1, cgi, version, reason }
}

/// assertion / box label the SDK can generate: reverse-domain, no `/`, no `=`, no `__`, not ending in `_`
fn plain_label(rng: &mut Rng) -> String {
    match rng.below(10) {
        0..=5 => rng.pick(KNOWN_LABELS).to_string(),
        6 => format!("{}.v{}", rng.pick(KNOWN_LABELS), rng.range(1, 12)),
        _ => {
            let segs = rng.range(1, 4);
            let mut s = String::new();
            for i in 0..segs {
                if i > 0 {
                    s.push('.');
                }
                let n = rng.range(1, 8) as usize;
                for k in 0..n {
                    let c = *rng.pick(b"abcdefghijklmnopqrstuvwxyzABCDEFGHIJKLMNOPQRSTUVWXYZ0123456789-_") as char;
                    // keep well-formed: no `__`, no trailing `_`
                    let c = if c == '_' && (s.ends_with('_') || (k == n - 1 && i == segs - 1)) { 'u' } else { c };
                    s.push(c);
                }
            }
            s
        }
    }
}

fn fragment(rng: &mut Rng) -> String {
    const FR: &[&str] = &[
        "self#jumbf", "=", "=", "/", "/", "/", "c2pa", "c2pa", "c2pa.assertions", "c2pa.databoxes", "c2pa.signature",
        "c2pa.credentials", ":", ":", ":", "urn", "urn", "uuid", "c2pa", "__", "__", "_", ".", ".", "+", "-", " ", "\t",
        "thumbnail", "c2pa.thumbnail.ingredient", "c2pa.thumbnail.claim", "c2pa.thumbnail.ingredient.jpeg", "jpeg", "JPEG", "",
        "0", "1", "2", "007", "18446744073709551615", "18446744073709551616", "99999999999999999999999", "acme", "a", "b",
        "x", "\u{e9}", "\u{a0}", "\u{3000}", "\u{1F600}", "\u{85}", "c2pa/", "/c2pa/", "c2pa.actions", "urn:uuid:", "urn:c2pa:",
        "c2pa.assertions/", "123456789012345678901234567890123", "12345678901234567890123456789012", "\n", "\r", "v", "none",
    ];
    match rng.below(12) {
        0 => uuid(rng, false),
        1 => rng.range(0, 300).to_string(),
        _ => rng.pick(FR).to_string(),
    }
}

fn malformed(rng: &mut Rng) -> String {
    let n = match rng.below(10) {
        0 => 0,
        1 => 1,
        2..=6 => rng.range(2, 7),
        _ => rng.range(6, 14),
    };
    let mut s = String::new();
    for _ in 0..n {
        s.push_str(&fragment(rng));
    }
    s
}

/// a label-ish malformed string (mostly `urn`/`:`/digits)
fn malformed_label(rng: &mut Rng) -> String {
    const FR: &[&str] = &[
        "urn", "urn", "uuid", "c2pa", ":", ":", ":", ":", "_", "_", "+", "0", "1", "2_1", "3_", "_4", "1_2_3", "acme", "a b",
        " a", "a ", "\t", "", "x", "/", "=", "18446744073709551615", "18446744073709551616", "\u{e9}", "-1", "+7", "++7",
        "00", "abcdefghijklmnopqrstuvwxyz012345", "abcdefghijklmnopqrstuvwxyz0123456",
    ];
    let n = rng.range(1, 11);
    let mut s = String::new();
    let style = rng.below(4);
    if style == 0 {
        s.push_str("urn:c2pa:");
    } else if style == 1 {
        s.push_str("urn:uuid:");
    }
    for _ in 0..n {
        if rng.chance(1, 10) {
            s.push_str(&uuid(rng, false));
        } else {
            s.push_str(*rng.pick(FR));
        }
    }
    s
}

// ---------------------------------------------------------------- scenarios

fn scenario_wf(d: &mut Drv, rng: &mut Rng) {
    let p = wf_parts(rng);
    let shape = format!(
        "{}{}{}{}",
        if p.is_v1 { "v1" } else { "v2" },
        if p.cgi.is_some() { "+vendor" } else { "" },
        if p.version.is_some() { "+version" } else { "" },
        if p.reason.is_some() { "+reason" } else { "" }
    );
    d.run.count(&format!("parts:{shape}"));

    // 1. Display then parse
    let (_, label) = d.disp(&p);
    let Some(label) = label else { return };
    let (i, got) = d.parts(&label);
    d.expect(i, "parts-roundtrip", &got, &Some(p.clone()), "manifest_label_to_parts(parts.to_string())");
    d.run.nontrivial(format!("parts {label}"));
    if label.contains('=') {
        // `=` in a vendor is harmless for the label itself but not inside a JUMBF URI
        // (to_normalized_uri splits at every `=`); only the label round trip is required.
        d.run.count("parts-only:vendor-with-equals-sign");
        return;
    }

    // 2. URIs built from the label
    let a0 = plain_label(rng);
    let dbox = if rng.chance(1, 2) { "c2pa.data".to_string() } else { plain_label(rng) };
    let vc = plain_label(rng);
    let (_, muri) = d.build1("muri", &label);
    let (_, suri) = d.build1("suri", &label);
    let (_, auri) = d.build2("auri", &label, &a0);
    let (_, duri) = d.build2("duri", &label, &dbox);
    let (_, curi) = d.build2("curi", &label, &vc);
    let (Some(muri), Some(suri), Some(auri), Some(duri), Some(curi)) = (muri, suri, auri, duri, curi) else { return };

    for (name, u) in [("manifest", &muri), ("signature", &suri), ("assertion", &auri), ("databox", &duri), ("credential", &curi)] {
        let (i, got) = d.opt1("mlabel", u);
        d.expect(i, "manifest-label-from-uri", &got, &Some(label.clone()), &format!("manifest_label_from_uri({name} uri)"));
        if rng.chance(1, 3) {
            let (i, got) = d.parts(u);
            d.expect(i, "parts-roundtrip", &got, &Some(p.clone()), &format!("manifest_label_to_parts({name} uri)"));
        }
    }
    let (i, got) = d.opt1("alabel", &auri);
    d.expect(i, "assertion-label-from-uri", &got, &Some(a0.clone()), "assertion_label_from_uri(to_assertion_uri)");
    let (i, got) = d.opt1("alabel", &duri);
    d.expect(i, "assertion-label-from-uri", &got, &Some(dbox.clone()), "assertion_label_from_uri(to_databox_uri)");
    let (i, got) = d.opt1("alabel", &muri);
    d.expect(i, "assertion-label-from-uri", &got, &None, "assertion_label_from_uri(to_manifest_uri)");
    let (i, got) = d.opt1("box", &auri);
    d.expect(i, "box-name-from-uri", &got, &Some(a0.clone()), "box_name_from_uri(to_assertion_uri)");
    let (i, got) = d.opt1("box", &suri);
    d.expect(i, "box-name-from-uri", &got, &Some("c2pa.signature".to_string()), "box_name_from_uri(to_signature_uri)");
    let (i, got) = d.opt1("box", &muri);
    d.expect(i, "box-name-from-uri", &got, &Some(label.clone()), "box_name_from_uri(to_manifest_uri)");
    let (i, got) = d.opt1("box", &duri);
    d.expect(i, "box-name-from-uri", &got, &Some(dbox.clone()), "box_name_from_uri(to_databox_uri)");

    // 3. relative / absolute
    for (u, store, leaf) in [(&auri, "c2pa.assertions", &a0), (&duri, "c2pa.databoxes", &dbox), (&curi, "c2pa.credentials", &vc)] {
        let (i, rel) = d.str1("rel", u);
        let want_rel = format!("self#jumbf={store}/{leaf}");
        d.expect(i, "relative-absolute", &rel, &want_rel, "to_relative_uri(absolute uri)");
        if let Some(rel) = rel {
            let (i, back) = d.abs(&label, &rel);
            d.expect(i, "relative-absolute", &back, u, "to_absolute_uri(label, to_relative_uri(u))");
            let (i, again) = d.str1("rel", &rel);
            d.expect(i, "relative-absolute", &again, &rel, "to_relative_uri is idempotent on a relative uri");
            if store == "c2pa.assertions" {
                let (i, got) = d.opt1("alabel", &rel);
                d.expect(i, "assertion-label-from-uri", &got, &Some(leaf.clone()), "assertion_label_from_uri(relative assertion uri)");
            }
            let (i, got) = d.opt1("mlabel", &rel);
            d.expect(i, "manifest-label-from-uri", &got, &None, "manifest_label_from_uri(relative uri)");
        }
        let (i, same) = d.abs(&label, u);
        d.expect(i, "relative-absolute", &same, u, "to_absolute_uri leaves an absolute uri unchanged");
    }
    let (_, n1) = d.str1("norm", &auri);
    if let Some(n1) = n1 {
        let (i, n2) = d.str1("norm", &n1);
        d.expect(i, "relative-absolute", &n2, &n1, "to_normalized_uri is idempotent");
    }

    // 4. instance suffixes
    let base = if rng.chance(1, 4) { rng.pick(ING_THUMBS).to_string() } else { plain_label(rng) };
    let inst = if rng.chance(1, 5) { 0 } else { number(rng) };
    d.run.count(if base.starts_with("c2pa.thumbnail.ingredient") { "instance:ingredient-thumbnail" } else { "instance:plain" });
    let (_, li) = d.lwi(&base, inst);
    if let Some(li) = li {
        d.run.nontrivial(format!("inst {li}"));
        let (_, u) = d.build2("auri", &label, &li);
        if let Some(u) = u {
            let (i, got) = d.link(&u);
            d.expect(i, "instance-roundtrip", &got, &(base.clone(), inst), "assertion_label_from_link(to_assertion_uri(m, label_with_instance(l, n)))");
            let (i, got) = d.opt1("alabel", &u);
            d.expect(i, "assertion-label-from-uri", &got, &Some(li.clone()), "assertion_label_from_uri keeps the instance suffix");
            let (_, rel) = d.str1("rel", &u);
            if let Some(rel) = rel {
                let (i, got) = d.link(&rel);
                d.expect(i, "instance-roundtrip", &got, &(base.clone(), inst), "assertion_label_from_link(relative uri)");
            }
        }
        let (i, got) = d.link(&li);
        d.expect(i, "instance-roundtrip", &got, &(base.clone(), inst), "assertion_label_from_link(bare label)");
    }
}

/// Labels of freshly created claims parse and print back.
fn scenario_sdk(d: &mut Drv, rng: &mut Rng) {
    let vend = if rng.chance(2, 3) {
        let v = vendor(rng);
        // Claim::new lower-cases the vendor; use the mixed-case input half of the time
        Some(if rng.chance(1, 2) { v.to_uppercase() } else { v })
    } else {
        None
    };
    let cv = if rng.chance(1, 2) { 1 } else { 2 };
    let v2 = vend.clone();
    let Ok(label) = guarded(move || hk::new_claim_label(v2.as_deref(), cv)) else {
        let i = d.run.case("C34 muri m=-".into(), "ok ".to_string() + &hx(&hk::to_manifest_uri("")));
        d.run.fail(i, "panic", format!("Claim::new panicked for vendor {vend:?}"));
        return;
    };
    d.run.count(&format!("sdk-label:v{cv}{}", if vend.is_some() { "+vendor" } else { "" }));
    let (i, got) = d.parts(&label);
    if let Some(got) = got {
        match got {
            None => d.run.fail(i, "sdk-label-unparsable", format!("Claim::new(vendor={vend:?}, v{cv}) produced {label:?}, which manifest_label_to_parts rejects")),
            Some(p) => {
                let want_v = vend.as_ref().map(|v| v.to_lowercase());
                if p.cgi != want_v || p.is_v1 != (cv == 1) || p.version.is_some() || p.reason.is_some() || p.guid.len() != 36 {
                    d.run.fail(i, "sdk-label-parts", format!("label {label:?} parsed to {p:?}"));
                }
                let (j, back) = d.disp(&p);
                d.expect(j, "parts-roundtrip", &back, &label, "parts.to_string() of a generated label");
                // conflict relabelling as done by the store: bump version, set reason
                if !p.is_v1 {
                    let mut q = p.clone();
                    q.version = Some(rng.range(1, 40) as usize);
                    q.reason = Some(1);
                    let (_, l2) = d.disp(&q);
                    if let Some(l2) = l2 {
                        let (k, got) = d.parts(&l2);
                        d.expect(k, "parts-roundtrip", &got, &Some(q.clone()), "conflict label round trip");
                    }
                }
            }
        }
    }
    d.run.nontrivial(format!("sdk {label}"));
}

/// label-with-suffix lookalikes: several `__`, non-numeric or signed instances, odd thumbnails
fn malformed_instance(rng: &mut Rng) -> String {
    const TAIL: &[&str] = &[
        "__", "__", "__", "_", "1", "2", "07", "+3", "-1", "x", ".", ".jpeg", ".PNG", ".v2", "18446744073709551616",
        "18446744073709551615", "", "_1.jpeg", "thumbnail", " ",
    ];
    let mut s = match rng.below(6) {
        0 => rng.pick(ING_THUMBS).to_string(),
        1 => "c2pa.thumbnail.ingredient_1".to_string(),
        2 => "a".to_string(),
        3 => String::new(),
        _ => rng.pick(KNOWN_LABELS).to_string(),
    };
    for _ in 0..rng.range(1, 6) {
        s.push_str(*rng.pick(TAIL));
    }
    match rng.below(4) {
        0 => format!("self#jumbf=c2pa.assertions/{s}"),
        1 => format!("self#jumbf=/c2pa/urn:uuid:m/c2pa.assertions/{s}"),
        _ => s,
    }
}

fn scenario_malformed(d: &mut Drv, rng: &mut Rng) {
    let s = match rng.below(5) {
        0 | 1 => malformed(rng),
        2 | 3 => malformed_label(rng),
        _ => malformed_instance(rng),
    };
    d.run.count("malformed");
    d.parts(&s);
    d.str1("norm", &s);
    d.str1("rel", &s);
    let m = if rng.chance(1, 2) { malformed_label(rng) } else { "urn:uuid:m".to_string() };
    d.abs(&m, &s);
    d.opt1("mlabel", &s);
    d.opt1("alabel", &s);
    d.opt1("box", &s);
    d.link(&s);
    let n = if rng.chance(1, 4) { 0 } else { number(rng) };
    d.lwi(&s, n);
    if rng.chance(1, 4) {
        // arbitrary parts through Display (any strings, any option combination)
        let p = hk::Parts {
            guid: malformed_label(rng),
            is_v1: rng.chance(1, 2),
            cgi: if rng.chance(1, 2) { Some(fragment(rng)) } else { None },
            version: if rng.chance(1, 2) { Some(number(rng)) } else { None },
            reason: if rng.chance(1, 2) { Some(number(rng)) } else { None },
        };
        let (_, l) = d.disp(&p);
        if let Some(l) = l {
            d.parts(&l);
        }
        d.build2("auri", &s, &m);
        d.build2("duri", &m, &s);
        d.build2("curi", &s, &s);
        d.build1("suri", &s);
        d.build1("muri", &s);
    }
}

/// Witnesses of the negated full statements proved in Props/C34.lean, replayed on the real code.
fn witnesses(d: &mut Drv) {
    // (a) a "guid" that contains a manifest-store path: the full round trip is false
    let p = hk::Parts { guid: "x/c2pa/urn:c2pa:y".into(), is_v1: false, cgi: None, version: None, reason: None };
    let (_, l) = d.disp(&p);
    let ok_a = match l {
        Some(l) => {
            let (_, got) = d.parts(&l);
            matches!(got, Some(Some(q)) if q.guid == "y")
        }
        None => false,
    };
    d.run.obligations.insert("witness:guid-with-store-path-does-not-round-trip".into(), ok_a);

    // (b) v1 parts carrying a version: Display drops it
    let p = hk::Parts { guid: "g".into(), is_v1: true, cgi: None, version: Some(2), reason: Some(1) };
    let (_, l) = d.disp(&p);
    let ok_b = match l {
        Some(l) => {
            let (_, got) = d.parts(&l);
            l == "urn:uuid:g" && matches!(got, Some(Some(q)) if q.version.is_none() && q.reason.is_none())
        }
        None => false,
    };
    d.run.obligations.insert("witness:v1-version-is-not-printed".into(), ok_b);

    // (c) label ending in `_` loses its instance
    let (_, li) = d.lwi("a_", 5);
    let ok_c = match li {
        Some(li) => {
            let (_, got) = d.link(&li);
            li == "a___5" && got == Some(("a".to_string(), 0))
        }
        None => false,
    };
    d.run.obligations.insert("witness:label-ending-in-underscore-loses-instance".into(), ok_c);

    // (d) relative databox URIs are not understood by assertion_label_from_uri
    let (_, got) = d.opt1("alabel", "self#jumbf=c2pa.databoxes/c2pa.data");
    d.run.obligations.insert("witness:relative-databox-uri-has-no-assertion-label".into(), got == Some(None));

    // (e) signature URI is returned unchanged by to_relative_uri (4 segments only)
    let su = hk::to_signature_uri("urn:uuid:g");
    let (_, got) = d.str1("rel", &su);
    d.run.obligations.insert("witness:signature-uri-stays-absolute".into(), got == Some(su));

    // fixed spot checks from the unit tests of labels.rs
    for s in [
        "urn:c2pa:F9168C5E-CEB2-4FAA-B6BF-329BF39FA1E4:acme:2_1:extra",
        "acme:urn:uuid:F9168C5E-CEB2-4FAA-B6BF-329BF39FA1E4:2_1",
        "c2pa.assertions",
        "self#jumbf=c2pa.assertions",
        "",
        "c2pa.assertions/c2pa.actions",
        "=",
        "==",
        "/",
        "c2pa/",
        "/c2pa/",
        "/c2pa//",
        "a/c2pa/b/c/d",
        "urn:urn:uuid:g",
        "urn:urn:urn",
        "urn:c2pa:g:v:+1_+2",
        "urn:c2pa:g:v:_",
        "urn:c2pa:g:v:1_",
        "urn:c2pa:g: v :1",
        "urn:c2pa:g:a b:1",
        "urn:c2pa:g:\u{e9}:1",
    ] {
        d.parts(s);
        d.str1("norm", s);
        d.str1("rel", s);
        d.abs("m", s);
        d.opt1("mlabel", s);
        d.opt1("alabel", s);
        d.opt1("box", s);
        d.link(s);
    }
}

pub fn run(run: &mut Run, rng: &mut Rng) {
    run.rule = "well-formed scenarios: parts = (uuid GUID, optional vendor of 1..=32 printable non-space ASCII without ':' '/', optional version, optional reason only with a version, none of both for 1.x labels) -> Display -> parse, every URI builder -> every reader, relative/absolute, label_with_instance -> assertion_label_from_link for plain labels (no '/', '=', '__', no trailing '_') and ingredient-thumbnail labels; labels of fresh Claim::new claims; a case is non-trivial when it belongs to a well-formed scenario (distinct by generated label / instanced label); the malformed stream (random concatenations of separators, keywords, digits, whitespace, non-ASCII) only checks model = implementation and absence of panics".to_string();
    let (n_wf, n_sdk, n_mal) = if run.thorough() { (40_000, 15_000, 250_000) } else { (2_500, 1_000, 12_000) };
    let mut d = Drv { run };
    witnesses(&mut d);
    for _ in 0..n_wf {
        let mut r = rng.fork();
        scenario_wf(&mut d, &mut r);
    }
    for _ in 0..n_sdk {
        let mut r = rng.fork();
        scenario_sdk(&mut d, &mut r);
    }
    for _ in 0..n_mal {
        let mut r = rng.fork();
        scenario_malformed(&mut d, &mut r);
    }
    let n = d.run.reqs.len();
    d.run.notes.push(format!("cases: {n}; scenarios well-formed {n_wf}, sdk-generated {n_sdk}, malformed {n_mal}"));
}
