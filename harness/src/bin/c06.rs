//! C06 — certificate profile violations make the manifest invalid.
//!
//! Request lines (see lean/C2paModel/Model/C06.lean):
//!   C06 prof <facts> t=<tst epoch|-> now=<epoch> cfg=<oid,…|->            -> ok | err:<Kind>:<code>:<rule>
//!   C06 e2e  <facts> t=- now=<epoch> cfg=… mode=<trust|profile> trust=<t|u> sigok=1
//!                                                                        -> <state> S=<codes> F=<codes>
//! <facts> = parse ver nb na sig pss spki ecp rsaok bits ca self iuid suid eku exts — the decoded
//! values of the certificate, known by construction of the generated certificate.
//!
//! `prof` drives `check_end_entity_certificate_profile` (through the C06 hook when a time-stamp
//! time is supplied); `e2e` signs an asset with the generated credential through a custom signer
//! and reads it back with `Reader`.

#[path = "../certgen.rs"]
mod certgen;
#[path = "../credcase.rs"]
mod credcase;

use c2pa::{crypto::cose::CertificateTrustPolicy, status_tracker::StatusTracker};
use certgen::*;
use credcase::*;
use ::vh::common::{guarded, main_with, Rng, Run};

fn main() {
    main_with("C06", run);
}

const DAY: i64 = 86_400;

fn now_epoch() -> i64 {
    std::time::SystemTime::now()
        .duration_since(std::time::UNIX_EPOCH)
        .map(|d| d.as_secs() as i64)
        .unwrap_or(0)
}

fn rule_of(description: &str) -> &'static str {
    match description {
        "certificate could not be parsed" => "parse",
        "certificate version incorrect" => "version",
        "certificate expired" => "expired",
        "certificate algorithm not supported" => "algorithm",
        "certificate algorithm error" => "pss-mismatch",
        "certificate hash algorithm not supported" => "pss-hash",
        "certificate missing algorithm parameters" => "pss-params-missing",
        "certificate unsupported EC curve" => "curve",
        "certificate key length too short" => "rsa-bits",
        "certificate contains duplicate extensions" => "duplicate-ext",
        "certificate issuer and subject cannot be the same (self-signed disallowed)" => "self-signed",
        "certificate issuer/subject unique ids are not allowed" => "unique-id",
        "certificate 'any' EKU not allowed" => "eku-any",
        "certificate missing required EKU" => "eku-missing",
        "certificate invalid set of EKUs" => "eku-set",
        "certificate keyCertSign key usage requires a CA certificate" => "ku-certsign",
        "certificate params incorrect" => "params",
        "expected end-entity certificate" => "ee-is-ca",
        "certificate could not be checked against the certificate profile" => "unlogged",
        _ => "unknown-log-statement",
    }
}

struct ProfOutcome {
    reply: String,
    ok: bool,
    failure_codes: Vec<String>,
}

/// Drive the real profile check. `cfg` = accepted EKU OIDs to configure (None = default policy).
fn run_profile(cert: &[u8], tst: Option<i64>, extra_ekus: &[String], clear_ekus: bool) -> ProfOutcome {
    let mut ctp = CertificateTrustPolicy::default();
    if clear_ekus {
        ctp.clear_ekus();
    }
    if !extra_ekus.is_empty() {
        ctp.add_valid_ekus(extra_ekus.join("\n").as_bytes());
    }
    let mut log = StatusTracker::default();
    let tst_der = tst.map(tst_info_der);
    let res = match tst_der.as_deref() {
        // the public function when there is no time stamp, the hook (which only decodes the
        // TSTInfo and forwards) when there is
        None => c2pa::crypto::cose::check_end_entity_certificate_profile(cert, &ctp, &mut log, None).map_err(Some),
        Some(d) => c2pa::verif_hooks::c06::check_end_entity_profile(cert, &ctp, &mut log, Some(d)),
    };
    let mut failure_codes = vec![];
    let mut logged = vec![];
    for item in log.logged_items() {
        let code = item.validation_status.as_deref().unwrap_or("-").to_string();
        let short = code.strip_prefix("signingCredential.").unwrap_or(&code).to_string();
        logged.push(format!("signingCredential.{}:{}", short, rule_of(&item.description)));
        failure_codes.push(code);
    }
    let reply = match &res {
        Ok(()) => {
            if logged.is_empty() {
                "ok".to_string()
            } else {
                format!("ok-but-logged:{}", logged.join("+"))
            }
        }
        Err(None) => "harness-tstinfo-undecodable".to_string(),
        Err(Some(e)) => {
            let kind = format!("{e:?}");
            let kind = kind.split('(').next().unwrap_or("").to_string();
            if logged.is_empty() {
                format!("err:{kind}:none:none")
            } else {
                format!("err:{kind}:{}", logged.join("+"))
            }
        }
    };
    ProfOutcome { ok: res.is_ok(), reply, failure_codes }
}

struct World {
    ring: KeyRing,
    default_ekus: Vec<String>,
    src: Vec<u8>,
    serial: u64,
}

/// Key kinds an end-entity credential is generated for (the good ones; mutations switch to bad).
const EE_KINDS: [KeyKind; 5] = [KeyKind::P256, KeyKind::P384, KeyKind::P521, KeyKind::Ed25519, KeyKind::Rsa(2048)];
const ISSUER_KINDS: [KeyKind; 5] = [KeyKind::Rsa(2048), KeyKind::P256, KeyKind::P384, KeyKind::P521, KeyKind::Ed25519];

/// The configured accepted EKU list for a case: (extra OIDs to add, clear first, resulting list).
fn eku_config(w: &World, variant: u64) -> (Vec<String>, bool, Vec<String>) {
    match variant {
        0 => (vec![], false, w.default_ekus.clone()),
        1 => {
            let extra = vec![OID_UNLISTED_EKU.to_string()];
            let mut all = w.default_ekus.clone();
            all.extend(extra.clone());
            (extra, false, all)
        }
        _ => (vec![EKU_C2PA.to_string()], true, vec![EKU_C2PA.to_string()]),
    }
}

/// One function-level case.
fn prof_case(run: &mut Run, w: &mut World, plan: &Plan, tst: Option<i64>, cfg_variant: u64) {
    let (extra, clear, allowed) = eku_config(w, cfg_variant);
    let cert = build_plan(plan, &mut w.ring);
    let now = now_epoch();
    let out = match guarded(std::panic::AssertUnwindSafe(|| run_profile(&cert, tst, &extra, clear))) {
        Ok(o) => o,
        Err(p) => {
            let idx = run.case(format!("C06 prof {} panic", plan.facts()), "panic".into());
            run.fail(idx, "panic", p);
            return;
        }
    };
    let t = tst.unwrap_or(now);
    // validity compared against "now": keep a margin so that the clock cannot cross a bound
    // between building the request and running the check
    let req = format!(
        "C06 prof {} t={} now={} cfg={}",
        plan.facts(),
        tst.map(|t| t.to_string()).unwrap_or_else(|| "-".into()),
        now,
        if allowed.is_empty() { "-".to_string() } else { allowed.join(",") }
    );
    let violations = plan.violations(t, &allowed);
    run.count(&format!("prof_{}", if out.ok { "accepted" } else { "rejected" }));
    run.count(&format!("prof_mut_{}", plan.label.split('+').next().unwrap_or("")));
    if !violations.is_empty() || plan.label != "conforming" {
        run.nontrivial(req.clone());
    }
    let idx = run.case(req, out.reply.clone());
    oracle_profile(run, idx, &violations, out.ok, &out.failure_codes);
}

/// The property on the implementation: a violated rule ⇒ rejected with a signingCredential
/// failure (expired for a pure validity violation); no violated rule ⇒ accepted and nothing logged.
fn oracle_profile(run: &mut Run, idx: usize, violations: &[&'static str], accepted: bool, failures: &[String]) {
    if violations.is_empty() {
        if !accepted || !failures.is_empty() {
            run.fail(
                idx,
                "conforming-flagged",
                format!("conforming certificate flagged: accepted={accepted} failures={failures:?}"),
            );
        }
        return;
    }
    let has_cred_failure = failures
        .iter()
        .any(|c| c == "signingCredential.invalid" || c == "signingCredential.expired");
    if accepted || !has_cred_failure {
        let class = if violations == ["key-usage-no-digital-signature"] {
            "ku-without-digital-signature-accepted".to_string()
        } else {
            format!("violation-not-rejected:{}", violations.join("+"))
        };
        run.fail(
            idx,
            &class,
            format!("violates {violations:?} but accepted={accepted} failures={failures:?}"),
        );
        return;
    }
    if violations == ["not-valid-at-signing-time"] && !failures.iter().any(|c| c == "signingCredential.expired") {
        run.fail(idx, "expired-wrong-code", format!("validity violation reported as {failures:?}"));
    }
    // …and `expired` is the code of the validity window only
    if failures.iter().any(|c| c == "signingCredential.expired") && !violations.contains(&"not-valid-at-signing-time") {
        run.fail(idx, "expired-code-without-validity-violation", format!("violates {violations:?} but reported {failures:?}"));
    }
}

/// One end-to-end case: sign with the credential, read with/without the issuing root anchored.
fn e2e_case(run: &mut Run, w: &mut World, plan: &Plan, anchored: bool, verify_trust: bool) {
    let now = now_epoch();
    let cert = build_plan(plan, &mut w.ring);
    let root = if plan.self_signed {
        None
    } else {
        Some(root_cert(plan.issuer_kind, &mut w.ring, now - 3650 * DAY, now + 3650 * DAY))
    };
    let mut chain = vec![cert];
    if let Some(r) = &root {
        chain.push(r.clone());
    }
    let key = w.ring.get(plan.ee_kind, 0);
    let asset = match guarded(std::panic::AssertUnwindSafe(|| sign_asset(&w.src, &chain, key))) {
        Ok(Ok(a)) => a,
        Ok(Err(e)) => {
            // key the SDK's raw signers refuse (bad curve, short RSA key): nothing to read
            run.count(&format!("e2e_unsignable_{}", plan.ee_kind.tag()));
            run.notes.push(format!("e2e skipped for {}: {}", plan.label, e.chars().take(90).collect::<String>()));
            run.notes.dedup();
            return;
        }
        Err(p) => {
            let idx = run.case(format!("C06 e2e {} sign-panic", plan.facts()), "panic".into());
            run.fail(idx, "panic", p);
            return;
        }
    };
    let mut settings = serde_json::json!({"verify": {"verify_trust": verify_trust}});
    if anchored {
        let anchor = root.clone().unwrap_or_else(|| chain[0].clone());
        settings["trust"] = serde_json::json!({"user_anchors": pem("CERTIFICATE", &anchor)});
    }
    let allowed = w.default_ekus.clone();
    let violations = plan.violations(now, &allowed);
    let out = match guarded(std::panic::AssertUnwindSafe(|| read_asset(&asset, &settings.to_string()))) {
        Ok(Ok(o)) => o,
        Ok(Err(e)) => {
            let idx = run.case(format!("C06 e2e {} unreadable", plan.facts()), format!("read-error {e}"));
            run.fail(idx, "unreadable", e);
            return;
        }
        Err(p) => {
            let idx = run.case(format!("C06 e2e {} read-panic", plan.facts()), "panic".into());
            run.fail(idx, "panic", p);
            return;
        }
    };
    // trust verdict handed to the model: untrusted by construction when nothing is anchored,
    // trusted by construction for a conforming credential under its anchored root; for a
    // violating credential under an anchored root the verdict is OpenSSL's (oracle) and is
    // taken from the observation.
    let observed_trusted = out.success.iter().any(|c| c == "signingCredential.trusted");
    let trust = if !anchored {
        "u"
    } else if violations.is_empty() {
        "t"
    } else if observed_trusted {
        "t"
    } else {
        "u"
    };
    let req = format!(
        "C06 e2e {} t=- now={} cfg={} mode={} trust={} sigok=1",
        plan.facts(),
        now,
        allowed.join(","),
        if verify_trust { "trust" } else { "profile" },
        trust
    );
    run.count(&format!("e2e_{}", out.state));
    run.count(&format!("e2e_key_{}", plan.ee_kind.tag()));
    run.nontrivial(req.clone());
    let idx = run.case(req, out.line());

    // property oracle, on the reader's report only
    let cred_failure = out
        .failure
        .iter()
        .any(|c| c == "signingCredential.invalid" || c == "signingCredential.expired");
    if out.failure.iter().any(|c| c == "signingCredential.expired") && !violations.contains(&"not-valid-at-signing-time") {
        run.fail(idx, "expired-code-without-validity-violation", format!("violates {violations:?} but reader says {}", out.line()));
    }
    if !violations.is_empty() {
        if out.state != "invalid" || !cred_failure {
            let class = if violations == ["key-usage-no-digital-signature"] {
                "ku-without-digital-signature-accepted".to_string()
            } else {
                format!("violation-not-invalid:{}", violations.join("+"))
            };
            run.fail(idx, &class, format!("violates {violations:?} but reader says {}", out.line()));
        }
    } else {
        if cred_failure {
            run.fail(idx, "conforming-flagged", format!("conforming credential flagged: {}", out.line()));
        }
        let expect = if anchored && verify_trust { "trusted" } else { "valid" };
        if out.state != expect {
            run.fail(idx, "conforming-state", format!("conforming credential: expected {expect}, got {}", out.line()));
        }
        let untrusted = out.failure.iter().any(|c| c == "signingCredential.untrusted");
        if verify_trust && !anchored && !untrusted {
            run.fail(idx, "conforming-state", format!("unanchored credential not reported untrusted: {}", out.line()));
        }
        if !verify_trust && (untrusted || observed_trusted) {
            run.fail(idx, "verdict-without-trust-check", format!("trust verdict with verify_trust=false: {}", out.line()));
        }
    }
}

fn fresh_plan(w: &mut World, ee: KeyKind, issuer: KeyKind, t: i64, rng: &mut Rng) -> Plan {
    w.serial += 1;
    let nb = t - (rng.range(1, 400) as i64) * DAY;
    let na = t + (rng.range(1, 800) as i64) * DAY;
    base_plan(w.serial, ee, issuer, nb, na)
}

pub fn run(run: &mut Run, rng: &mut Rng) {
    run.rule = "certificates are assembled field by field from a conforming end-entity template (5 key kinds x 5 issuer kinds) with 0-3 named single-rule mutations; a case is non-trivial when at least one mutation was applied or a statement rule is violated, and for every end-to-end case; distinct by request text".into();
    let mut w = World {
        ring: KeyRing::new(),
        default_ekus: default_eku_config(),
        src: std::fs::read(::vh::common::fixtures().join("IMG_0003.jpg")).expect("fixture"),
        serial: 100,
    };
    run.notes.push(format!("accepted EKUs read from valid_eku_oids.cfg: {}", w.default_ekus.join(" ")));
    run.obligations.insert("default_eku_config_nonempty".into(), !w.default_ekus.is_empty());
    let names = mutation_names();
    let now = now_epoch();
    let thorough = run.thorough();

    // 1. controls: conforming credentials for every key kind x issuer kind, with and without a
    //    time-stamp time, under the three EKU configurations
    for ee in EE_KINDS {
        for issuer in ISSUER_KINDS {
            for (tst, cfgv) in [(None, 0), (Some(1_700_000_000), 0), (Some(1_600_000_000), 1)] {
                let p = fresh_plan(&mut w, ee, issuer, tst.unwrap_or(now), rng);
                prof_case(run, &mut w, &p, tst, cfgv);
            }
        }
    }

    // 2. every single mutation x every end-entity key kind, with a time-stamp time and without
    for name in &names {
        for (i, ee) in EE_KINDS.iter().enumerate() {
            let issuer = ISSUER_KINDS[(i + names.iter().position(|n| n == name).unwrap_or(0)) % ISSUER_KINDS.len()];
            for tst in [None, Some(1_650_000_000 + 1000 * i as i64)] {
                // validity edges against the moving clock are only exact with a time stamp
                let edge = name.contains("signing-time") || name.contains("one-second");
                if tst.is_none() && edge {
                    continue;
                }
                let t = tst.unwrap_or(now);
                let mut p = fresh_plan(&mut w, *ee, issuer, t, rng);
                mutate(&mut p, name, t);
                prof_case(run, &mut w, &p, tst, 0);
            }
        }
        // EKU mutations also under the two other configurations
        if name.starts_with("eku-") {
            for cfgv in [1, 2] {
                let mut p = fresh_plan(&mut w, KeyKind::P256, KeyKind::P256, now, rng);
                mutate(&mut p, name, now);
                prof_case(run, &mut w, &p, None, cfgv);
            }
        }
    }
    run.count("single_mutation_sweep");

    // 2b. RSA end-entity keys: SPKI algorithm rsaEncryption / id-RSASSA-PSS without and with
    //     parameters x modulus size x every certificate signature algorithm the profile accepts
    {
        let sig_algs: Vec<(KeyKind, SigAlg)> = vec![
            (KeyKind::Rsa(2048), SigAlg::RsaPkcs1(Md::Sha256)),
            (KeyKind::Rsa(2048), SigAlg::RsaPkcs1(Md::Sha384)),
            (KeyKind::Rsa(2048), SigAlg::RsaPkcs1(Md::Sha512)),
            (KeyKind::Rsa(2048), SigAlg::RsaPss(Md::Sha256, PssParams::Full { mgf: Md::Sha256 })),
            (KeyKind::Rsa(2048), SigAlg::RsaPss(Md::Sha384, PssParams::Full { mgf: Md::Sha384 })),
            (KeyKind::Rsa(2048), SigAlg::RsaPss(Md::Sha512, PssParams::Full { mgf: Md::Sha512 })),
            (KeyKind::P256, SigAlg::Ecdsa(Md::Sha256)),
            (KeyKind::P384, SigAlg::Ecdsa(Md::Sha384)),
            (KeyKind::P521, SigAlg::Ecdsa(Md::Sha512)),
            (KeyKind::Ed25519, SigAlg::Ed25519),
        ];
        let mut rsa_kinds = vec![];
        for bits in [1024u32, 2047, 2048, 3072] {
            rsa_kinds.push(KeyKind::Rsa(bits));
            rsa_kinds.push(KeyKind::RsaPss(bits));
            rsa_kinds.push(KeyKind::RsaPssParams(bits));
        }
        for ee in &rsa_kinds {
            for (k, (issuer, alg)) in sig_algs.iter().enumerate() {
                let tst = if k % 2 == 0 { None } else { Some(1_660_000_000 + k as i64) };
                let mut p = fresh_plan(&mut w, *ee, *issuer, tst.unwrap_or(now), rng);
                p.spec.sig_alg = *alg;
                p.label = format!("rsa-spki-{}", ee.tag());
                prof_case(run, &mut w, &p, tst, 0);
            }
        }
        run.count("rsa_spki_label_x_size_x_sigalg_sweep");
    }

    // 3. time stamp versus clock: an expired certificate with a time stamp inside its window,
    //    and a currently valid one with a time stamp outside
    for ee in EE_KINDS {
        let t = 1_500_000_000;
        let mut p = fresh_plan(&mut w, ee, KeyKind::Rsa(2048), t, rng);
        p.spec.not_after = t + 10 * DAY; // long expired now
        p.label = "expired-now-valid-at-timestamp".into();
        prof_case(run, &mut w, &p, Some(t), 0);
        prof_case(run, &mut w, &p, None, 0);
        let mut q = fresh_plan(&mut w, ee, KeyKind::Rsa(2048), now, rng);
        q.label = "valid-now-timestamp-outside".into();
        prof_case(run, &mut w, &q, Some(q.spec.not_before - DAY), 0);
        prof_case(run, &mut w, &q, Some(q.spec.not_after + DAY), 0);
    }

    // 4. malformed stream: bytes that are not a certificate
    for junk in [vec![], vec![0x30, 0x00], b"not a certificate".to_vec(), {
        let p = fresh_plan(&mut w, KeyKind::P256, KeyKind::P256, now, rng);
        let mut c = build_plan(&p, &mut w.ring);
        c.truncate(c.len() / 2);
        c
    }] {
        let out = run_profile(&junk, None, &[], false);
        let req = format!(
            "C06 prof parse=0 ver=0 nb=0 na=0 sig=other pss=none spki=other ecp=none rsaok=0 bits=0 ca=0 dup=0 self=0 iuid=0 suid=0 eku=none exts=- t=- now={} cfg=-",
            now
        );
        run.count("prof_unparseable");
        let idx = run.case(req, out.reply.clone());
        oracle_profile(run, idx, &["unparseable"], out.ok, &out.failure_codes);
    }

    // 5. random multi-mutation cases
    let n = if thorough { 12_000 } else { 1_500 };
    for _ in 0..n {
        let mut r = rng.fork();
        let ee = *r.pick(&EE_KINDS);
        let issuer = *r.pick(&ISSUER_KINDS);
        let tst = if r.chance(1, 2) { Some(r.range(1_400_000_000, 1_900_000_000) as i64) } else { None };
        let t = tst.unwrap_or(now);
        let mut p = fresh_plan(&mut w, ee, issuer, t, &mut r);
        let k = match r.below(10) {
            0..=1 => 0,
            2..=6 => 1,
            7..=8 => 2,
            _ => 3,
        };
        for _ in 0..k {
            let name = *r.pick(&names);
            let edge = name.contains("signing-time") || name.contains("one-second");
            if tst.is_none() && edge {
                continue;
            }
            mutate(&mut p, name, t);
        }
        // shuffle the extension order sometimes
        if r.chance(1, 3) {
            for i in (1..p.spec.exts.len()).rev() {
                let j = r.below(i as u64 + 1) as usize;
                p.spec.exts.swap(i, j);
            }
        }
        prof_case(run, &mut w, &p, tst, r.below(3));
    }

    // 6. end to end: every mutation (signable keys), anchored and not, trust checking on and off
    let e2e_kinds: Vec<KeyKind> = if thorough { EE_KINDS.to_vec() } else { vec![KeyKind::P256, KeyKind::Ed25519, KeyKind::Rsa(2048)] };
    for (i, name) in std::iter::once(&"conforming").chain(names.iter()).enumerate() {
        let edge = name.contains("signing-time") || name.contains("one-second");
        if edge {
            continue;
        }
        for (j, ee) in e2e_kinds.iter().enumerate() {
            if !thorough && (i + j) % 3 != 0 && *name != "conforming" {
                continue;
            }
            let issuer = ISSUER_KINDS[(i + j) % ISSUER_KINDS.len()];
            let mut p = fresh_plan(&mut w, *ee, issuer, now, rng);
            if *name != "conforming" {
                mutate(&mut p, name, now);
            }
            e2e_case(run, &mut w, &p, false, true);
            e2e_case(run, &mut w, &p, true, true);
            if (i + j) % 2 == 0 || *name == "conforming" {
                e2e_case(run, &mut w, &p, true, false);
            }
        }
    }
}
