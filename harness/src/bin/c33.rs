//! C33 — CAWG identity assertions bind exactly the referenced assertions.
//!
//! Identity assertions are produced with the SDK's own `X509CredentialHolder` (real COSE
//! signatures by a certificate of a local openssl CA) over generated sets of claim assertions, and
//! then every component is mutated: a referenced hash, a referenced URL, a duplicated reference,
//! the hard-binding reference removed, `sig_type`, payload changed after signing, signature bytes,
//! the certificate chain removed from the COSE headers, `pad1` / `pad2`; with and without the CAWG
//! signer's CA on the CAWG trust list.
//!
//!   C33 vpc refs= claim= sigtype= pad1= pad2= sig= sigraw=
//!        `IdentityAssertion::validate_partial_claim` (hook)        -> ok|err log=<entries>
//!   C33 e2e (same) rest=<entries of the C2PA checks>
//!        Builder with a harness `DynamicAssertion` + Reader        -> <state> log=<cawg.* entries>
//!   C33 e2ei (same) iuri=<ingredient assertion URI | -> A= D=<results before post-validation>
//!        asset B with the identity-carrying asset A as an ingredient (or A itself, `iuri=-`), read
//!        with `core.decode_identity_assertions=false`, then
//!        `Reader::post_validate_async(&CawgValidator)`               -> <state> A= D=<results after>
//!   C33 seq n=<k> 0.refs= … 1.refs= …
//!        k identity assertions validated one after the other on ONE StatusTracker (hook), every
//!        ordered combination of {intact-trusted, intact-untrusted, sig-flip, sig-nocerts,
//!        sig-garbage, ref-tampered, pad-tampered}               -> per assertion: ok|err log=<its slice>
//!   C33 e2em n=2 0.…(outer manifest's own assertion) 1.…(ingredient's) A= D=
//!        one `post_validate_async(&CawgValidator)` pass over both -> <state> A= D=<results after>
//!   C33 remap c=<code>   (model only; compared with the codes the run observed)
//!
//! `sig=` / `sigraw=` (how the COSE part ends and which C2PA codes the profile / trust checks log)
//! are measured by running the shared `crypto::cose::Verifier` directly on the same signature and
//! payload (and cross-checked against what the mutation was built to cause); what the identity code
//! does with them — remap, additional codes, result, where the statuses land — is what is compared.
//!
//! Oracle (on the implementation): an unmodified assertion validates (`cawg.identity.well-formed`);
//! every mutation is reported with a `cawg.*` failure code; no `cawg.*` failure makes the manifest
//! Invalid, whether the assertion sits in the active manifest or in an ingredient's manifest
//! (classes `cawg-change-unreported`, `cawg-failure-invalidates-manifest` (cawg.identity.* codes,
//! F13), `cawg-x509-failure-invalidates-manifest` (signature / credential codes)).
#[path = "../pki.rs"]
mod pki;

use std::{
    io::Cursor,
    sync::{Arc, Mutex},
};

use c2pa::{
    crypto::cose::{parse_cose_sign1, CertificateTrustPolicy, CoseError, Verifier},
    dynamic_assertion::{DynamicAssertion, DynamicAssertionContent, PartialClaim},
    identity::{builder::CredentialHolder, validator::CawgValidator, x509::X509CredentialHolder, SignerPayload},
    status_tracker::{LogKind, StatusTracker},
    validation_results::{StatusCodes, ValidationResults},
    Builder, Context, HashedUri, Reader, Signer, SigningAlg,
};
use coset::TaggedCborSerializable;
use pki::{Cred, Pki};
use vh::common::{fixtures, guarded, hex, main_with, scratch, Rng, Run};
use vh::sign::definition;

fn main() {
    main_with("C33", run);
}

#[derive(Clone, Copy, PartialEq, Debug)]
enum Mutn {
    None,
    RefHash,        // one referenced hash changed (payload signed afterwards: a validly signed, re-targeted assertion)
    RefUrlUnknown,  // a referenced URL that is not in the claim
    Duplicate,      // one reference repeated
    NoHardBinding,  // references without any c2pa.hash.* assertion
    SigTypeOther,   // sig_type not known
    PayloadAfterSign, // referenced hash changed after signing (signature no longer covers the payload) … but claim kept in step
    SigFlip,        // a byte of the COSE signature value flipped
    SigGarbage,     // signature is not COSE
    SigNoCerts,     // valid COSE_Sign1 whose certificate chain (x5chain) was removed from the headers
    Pad1,           // non-zero byte in pad1
    Pad2,           // non-zero byte in pad2
    RolesAfterSign, // role added to the payload after signing
}

const ALL: [Mutn; 13] = [
    Mutn::None,
    Mutn::RefHash,
    Mutn::RefUrlUnknown,
    Mutn::Duplicate,
    Mutn::NoHardBinding,
    Mutn::SigTypeOther,
    Mutn::PayloadAfterSign,
    Mutn::SigFlip,
    Mutn::SigGarbage,
    Mutn::SigNoCerts,
    Mutn::Pad1,
    Mutn::Pad2,
    Mutn::RolesAfterSign,
];

struct Made {
    payload: SignerPayload,
    signature: Vec<u8>,
    pad1: Vec<u8>,
    pad2: Option<Vec<u8>>,
    /// protocol facts
    sig: &'static str,
    sigtype: &'static str,
}

fn is_hard_binding(u: &str) -> bool {
    u.rsplit_once('/').map(|(_, l)| l.starts_with("c2pa.hash.")).unwrap_or(false)
}

/// Build the identity assertion parts for `claim` (the claim's assertion list), mutated.
fn make(holder: &X509CredentialHolder, claim: &[HashedUri], pick: &[usize], m: Mutn, rng: &mut Rng) -> Option<Made> {
    // references: picked assertions, written relative (the claim may hold the absolute form)
    let rel = |u: &str| -> String {
        match u.find("/c2pa.assertions/") {
            Some(p) if u.contains("=/c2pa/") => format!("self#jumbf=c2pa.assertions/{}", &u[p + "/c2pa.assertions/".len()..]),
            _ => u.to_string(),
        }
    };
    let mut refs: Vec<HashedUri> = pick.iter().map(|&i| HashedUri::new(rel(&claim[i].url()), None, &claim[i].hash())).collect();
    if m == Mutn::NoHardBinding {
        refs.retain(|r| !is_hard_binding(&r.url()));
        if refs.is_empty() {
            return None;
        }
    }
    let victim = rng.below(refs.len() as u64) as usize;
    let bump = |r: &HashedUri| {
        let mut h = r.hash();
        h[0] ^= 0x5a;
        HashedUri::new(r.url(), None, &h)
    };
    match m {
        Mutn::RefHash => refs[victim] = bump(&refs[victim]),
        Mutn::RefUrlUnknown => {
            let r = &refs[victim];
            refs[victim] = HashedUri::new(format!("{}.x{}", r.url(), rng.below(100)), None, &r.hash());
        }
        Mutn::Duplicate => {
            let r = refs[victim].clone();
            refs.push(r);
        }
        _ => {}
    }
    let mut payload = SignerPayload {
        referenced_assertions: refs,
        sig_type: if m == Mutn::SigTypeOther { "cawg.verif.other".into() } else { "cawg.x509.cose".into() },
        roles: vec![],
    };
    let mut signature = holder.sign(&payload).ok()?;
    let mut sig = "ok";
    match m {
        Mutn::PayloadAfterSign => {
            // keep the payload consistent with the claim (so only the signature can notice):
            // change the *order* of the references
            if payload.referenced_assertions.len() < 2 {
                return None;
            }
            payload.referenced_assertions.reverse();
            sig = "mismatch";
        }
        Mutn::RolesAfterSign => {
            payload.roles.push("cawg.editor".into());
            sig = "mismatch";
        }
        Mutn::SigFlip => {
            // the COSE signature value is the last byte string of the (unpadded) structure
            let n = signature.len();
            signature[n - 1] ^= 0x01;
            sig = "mismatch";
        }
        Mutn::SigGarbage => {
            let n = rng.range(1, 64) as usize;
            signature = rng.bytes(n);
            sig = "parse";
        }
        Mutn::SigNoCerts => {
            let mut s1 = coset::CoseSign1::from_tagged_slice(&signature).ok()?;
            let is_chain = |l: &coset::Label| *l == coset::Label::Int(33) || *l == coset::Label::Text("x5chain".into());
            let before = s1.protected.header.rest.len() + s1.unprotected.rest.len();
            s1.protected.header.rest.retain(|(l, _)| !is_chain(l));
            s1.unprotected.rest.retain(|(l, _)| !is_chain(l));
            if before == s1.protected.header.rest.len() + s1.unprotected.rest.len() {
                return None;
            }
            s1.protected.original_data = None;
            signature = s1.to_tagged_vec().ok()?;
            sig = "other";
        }
        _ => {}
    }
    let mut pad1 = vec![0u8; rng.below(40) as usize];
    let mut pad2 = if rng.chance(1, 3) { None } else { Some(vec![0u8; rng.below(12) as usize]) };
    if m == Mutn::Pad1 {
        pad1 = vec![0u8; rng.range(1, 40) as usize];
        let i = rng.below(pad1.len() as u64) as usize;
        pad1[i] = rng.range(1, 255) as u8;
    }
    if m == Mutn::Pad2 {
        let mut p = vec![0u8; rng.range(1, 12) as usize];
        let i = rng.below(p.len() as u64) as usize;
        p[i] = rng.range(1, 255) as u8;
        pad2 = Some(p);
    }
    Some(Made { payload, signature, pad1, pad2, sig, sigtype: if m == Mutn::SigTypeOther { "other" } else { "x509" } })
}

fn uris_str(v: &[HashedUri]) -> String {
    if v.is_empty() {
        "-".into()
    } else {
        v.iter().map(|u| format!("{}~{}", u.url(), hex(&u.hash()))).collect::<Vec<_>>().join(",")
    }
}

fn log_entries(log: &StatusTracker) -> Vec<(char, String)> {
    log.logged_items()
        .iter()
        .filter_map(|i| {
            let c = i.validation_status.as_ref()?.to_string();
            let k = match i.kind {
                LogKind::Success => 's',
                LogKind::Informational => 'i',
                LogKind::Failure => 'f',
            };
            Some((k, c))
        })
        .collect()
}

/// entries (with a status code) logged at tracker index `from` or later
fn log_entries_from(log: &StatusTracker, from: usize) -> Vec<(char, String)> {
    log.logged_items()[from..]
        .iter()
        .filter_map(|i| {
            let c = i.validation_status.as_ref()?.to_string();
            let k = match i.kind {
                LogKind::Success => 's',
                LogKind::Informational => 'i',
                LogKind::Failure => 'f',
            };
            Some((k, c))
        })
        .collect()
}

fn log_str(e: &[(char, String)]) -> String {
    if e.is_empty() {
        "-".into()
    } else {
        e.iter().map(|x| format!("{}:{}", x.0, x.1)).collect::<Vec<_>>().join(",")
    }
}

/// How the shared COSE verification ends for this signature over this payload, and the statuses
/// (C2PA codes) it logs — measured on `crypto::cose::Verifier`, configured as
/// `validate_partial_claim` configures it from the `cawg_trust` settings.
fn measure(payload: &SignerPayload, signature: &[u8], trusted_list: Option<bool>, cawg_root: &str) -> (&'static str, Vec<(char, String)>) {
    let cbor = c2pa::verif_hooks::c33::signer_payload_cbor(payload);
    let mut log = StatusTracker::default();
    if parse_cose_sign1(signature, &cbor, &mut log).is_err() {
        return ("parse", log_entries(&log));
    }
    let verifier = match trusted_list {
        None => Verifier::IgnoreProfileAndTrustPolicy,
        Some(with_anchor) => {
            let mut ctp = CertificateTrustPolicy::default();
            if with_anchor {
                let _ = ctp.add_trust_anchors(cawg_root.as_bytes());
            }
            Verifier::VerifyTrustPolicy(std::borrow::Cow::Owned(ctp))
        }
    };
    let mut log = StatusTracker::default();
    let end = match verifier.verify_signature(signature, &cbor, &[], None, &mut log) {
        Ok(_) => "ok",
        Err(CoseError::RawSignatureValidationError(c2pa_raw_crypto::RawSignatureValidationError::SignatureMismatch)) => "mismatch",
        Err(_) => "other",
    };
    (end, log_entries(&log))
}

struct Facts {
    sig: &'static str,
    raw: String,
}

fn facts(payload: &SignerPayload, signature: &[u8], sigtype: &str, trusted_list: Option<bool>, cawg_root: &str) -> Facts {
    if sigtype != "x509" {
        return Facts { sig: "ok", raw: "-".into() };
    }
    let (sig, raw) = measure(payload, signature, trusted_list, cawg_root);
    // a structure that does not parse: `parse_cose_sign1` logs its own code, the model knows it
    Facts { sig, raw: if sig == "parse" { "-".into() } else { log_str(&raw) } }
}

fn request(op: &str, made: &Made, claim: &[HashedUri], f: &Facts) -> String {
    format!(
        "C33 {op} refs={} claim={} sigtype={} pad1={} pad2={} sig={} sigraw={}",
        uris_str(&made.payload.referenced_assertions),
        uris_str(claim),
        made.sigtype,
        hex(&made.pad1),
        made.pad2.as_ref().map(|p| hex(p)).unwrap_or("none".into()),
        f.sig,
        f.raw
    )
}

fn settings_json(anchors: &str, cawg_anchor: Option<bool>, cawg_root: &str) -> String {
    let mut v = serde_json::json!({
        "verify": {"verify_trust": true, "ocsp_fetch": false, "remote_manifest_fetch": false, "verify_after_sign": false},
        "trust": {"trust_anchors": anchors},
        "core": {"decode_identity_assertions": true}
    });
    match cawg_anchor {
        None => v["cawg_trust"] = serde_json::json!({"verify_trust_list": false}),
        Some(true) => v["cawg_trust"] = serde_json::json!({"verify_trust_list": true, "trust_anchors": cawg_root}),
        Some(false) => v["cawg_trust"] = serde_json::json!({"verify_trust_list": true}),
    }
    v.to_string()
}

fn settings_nodecode(anchors: &str, cawg_anchor: Option<bool>, cawg_root: &str) -> String {
    let mut v: serde_json::Value = serde_json::from_str(&settings_json(anchors, cawg_anchor, cawg_root)).unwrap();
    v["core"]["decode_identity_assertions"] = serde_json::json!(false);
    v.to_string()
}

fn block_on<F: std::future::Future>(f: F) -> F::Output {
    tokio::runtime::Builder::new_current_thread().enable_all().build().expect("runtime").block_on(f)
}

/// the subject of an `e2ei` read is the identity-carrying asset itself iff its active manifest
/// has a `cawg.identity` assertion
fn pos_is_active(r: &Reader) -> bool {
    r.active_manifest().map(|m| m.assertions().iter().any(|a| a.label().starts_with("cawg.identity"))).unwrap_or(false)
}

fn sc_str(sc: &StatusCodes) -> String {
    let j = |v: &[c2pa::validation_status::ValidationStatus]| v.iter().map(|s| s.code().to_string()).collect::<Vec<_>>().join(",");
    format!("{};{};{}", j(sc.success()), j(sc.informational()), j(sc.failure()))
}

/// `A=<s;i;f> D=<uri~s;i;f|…>` (the model's `baseStr`)
fn results_str(r: &ValidationResults) -> String {
    let a = r.active_manifest().map(sc_str).unwrap_or("-".into());
    let d = match r.ingredient_deltas() {
        None => "-".to_string(),
        Some(v) if v.is_empty() => "[]".to_string(),
        Some(v) => v.iter().map(|d| format!("{}~{}", d.ingredient_assertion_uri(), sc_str(d.validation_deltas()))).collect::<Vec<_>>().join("|"),
    };
    format!("A={a} D={d}")
}

/// entries present after post-validation that were not there before, with the bucket they are in
/// (`None` = active manifest, `Some(uri)` = that ingredient's delta)
fn added_entries(before: &ValidationResults, after: &ValidationResults) -> Vec<(Option<String>, (char, String))> {
    fn flat(r: &ValidationResults) -> Vec<(Option<String>, (char, String))> {
        let mut v = vec![];
        let mut push = |u: Option<String>, sc: &StatusCodes| {
            for (k, l) in [('s', sc.success()), ('i', sc.informational()), ('f', sc.failure())] {
                for st in l {
                    v.push((u.clone(), (k, st.code().to_string())));
                }
            }
        };
        if let Some(a) = r.active_manifest() {
            push(None, a);
        }
        for d in r.ingredient_deltas().map(|d| d.as_slice()).unwrap_or(&[]) {
            push(Some(d.ingredient_assertion_uri().to_string()), d.validation_deltas());
        }
        v
    }
    let mut old = flat(before);
    let mut out = vec![];
    for e in flat(after) {
        if let Some(p) = old.iter().position(|o| *o == e) {
            old.remove(p);
        } else {
            out.push(e);
        }
    }
    out
}

/// The manifest became / is Invalid although only CAWG failures are present. `cawg.identity.*`
/// codes: the known F13 class; only signature / credential (`cawg.x509.*`) codes: its own class.
fn invalidated(run: &mut Run, i: usize, what: &str, cawg: &[(char, String)]) {
    match cawg.iter().find(|e| e.0 == 'f' && !e.1.starts_with("cawg.x509.")) {
        Some(w) => run.fail(i, "cawg-failure-invalidates-manifest", format!("{what}: manifest Invalid although the only failures are CAWG ones ({})", w.1)),
        None => {
            let w = cawg.iter().find(|e| e.0 == 'f').map(|e| e.1.clone()).unwrap_or_default();
            run.fail(i, "cawg-x509-failure-invalidates-manifest", format!("{what}: manifest Invalid although the only failures are CAWG signature / credential ones ({w})"))
        }
    }
}

fn has_cawg_failure(e: &[(char, String)]) -> bool {
    e.iter().any(|x| x.0 == 'f' && x.1.starts_with("cawg."))
}

// ---------------------------------------------------------------- e2e plumbing

struct HarnessIdentity {
    holder: Arc<X509CredentialHolder>,
    mutn: Mutn,
    seed: u64,
    rec: Arc<Mutex<Option<(Made2, Vec<HashedUri>)>>>,
}

/// what the dynamic assertion wrote (for the request line)
#[derive(Clone)]
struct Made2 {
    payload: SignerPayload,
    signature: Vec<u8>,
    pad1: Vec<u8>,
    pad2: Option<Vec<u8>>,
    sig: &'static str,
    sigtype: &'static str,
}

const RESERVE: usize = 6000;

impl DynamicAssertion for HarnessIdentity {
    fn label(&self) -> String {
        "cawg.identity".to_string()
    }

    fn reserve_size(&self) -> c2pa::Result<usize> {
        Ok(RESERVE)
    }

    fn content(&self, _label: &str, size: Option<usize>, claim: &PartialClaim) -> c2pa::Result<DynamicAssertionContent> {
        let claim_list: Vec<HashedUri> = claim.assertions().cloned().collect();
        let pick: Vec<usize> = (0..claim_list.len()).filter(|&i| !claim_list[i].url().contains("cawg.identity")).collect();
        let mut rng = Rng::new(self.seed);
        let made = make(&self.holder, &claim_list, &pick, self.mutn, &mut rng).ok_or(c2pa::Error::BadParam("mutation not applicable".into()))?;
        // pad to the reserved size exactly as the SDK's builder does (pad1, then pad2), then
        // put the mutated pad bytes in
        let target = size.unwrap_or(RESERVE);
        let build = |p1: Vec<u8>, p2: Option<Vec<u8>>| {
            c2pa::verif_hooks::c33::assertion_cbor(&c2pa::verif_hooks::c33::assertion_from_parts(made.payload.clone(), made.signature.clone(), p1, p2))
        };
        let base = build(vec![], None).len();
        if base + 21 > target {
            return Err(c2pa::Error::BadParam("reserve too small".into()));
        }
        let mut p1 = vec![0u8; target - base - 15];
        let l1 = build(p1.clone(), None).len();
        let mut p2 = vec![0u8; target - l1 - 6];
        if self.mutn == Mutn::Pad1 {
            let k = rng.below(p1.len() as u64) as usize;
            p1[k] = 7;
        }
        if self.mutn == Mutn::Pad2 {
            if p2.is_empty() {
                return Err(c2pa::Error::BadParam("no pad2 room".into()));
            }
            p2[0] = 9;
        }
        let out = build(p1.clone(), Some(p2.clone()));
        if out.len() != target {
            return Err(c2pa::Error::BadParam(format!("size {} != {target}", out.len())));
        }
        *self.rec.lock().unwrap() = Some((
            Made2 { payload: made.payload.clone(), signature: made.signature.clone(), pad1: p1, pad2: Some(p2), sig: made.sig, sigtype: made.sigtype },
            claim_list,
        ));
        Ok(DynamicAssertionContent::Cbor(out))
    }
}

struct IdSigner {
    inner: c2pa::BoxedSigner,
    holder: Arc<X509CredentialHolder>,
    mutn: Mutn,
    seed: u64,
    rec: Arc<Mutex<Option<(Made2, Vec<HashedUri>)>>>,
}

impl Signer for IdSigner {
    fn sign(&self, data: &[u8]) -> c2pa::Result<Vec<u8>> {
        self.inner.sign(data)
    }

    fn alg(&self) -> SigningAlg {
        self.inner.alg()
    }

    fn certs(&self) -> c2pa::Result<Vec<Vec<u8>>> {
        self.inner.certs()
    }

    fn reserve_size(&self) -> usize {
        self.inner.reserve_size()
    }

    fn dynamic_assertions(&self) -> Vec<Box<dyn DynamicAssertion>> {
        vec![Box::new(HarnessIdentity { holder: self.holder.clone(), mutn: self.mutn, seed: self.seed, rec: self.rec.clone() })]
    }
}

fn c2pa_signer(ee: &Cred, root: &Cred) -> c2pa::BoxedSigner {
    let mut chain = ee.cert_pem();
    chain.extend_from_slice(&root.cert_pem());
    c2pa::create_signer::from_keys(&chain, &ee.key_pem(), SigningAlg::Es256, None).expect("signer")
}

fn holder_for(ee: &Cred, root: &Cred) -> X509CredentialHolder {
    let raw = c2pa_raw_crypto::signer_from_private_key(&ee.key_pem(), SigningAlg::Es256).expect("raw signer");
    X509CredentialHolder::from_raw_signer(raw, vec![ee.cert_der(), root.cert_der()])
}

pub fn run(run: &mut Run, rng: &mut Rng) {
    run.rule = "every case carries an identity assertion signed by the SDK's X509CredentialHolder; non-trivial = a mutated or unmodified assertion reaches validate_partial_claim (for e2ei: through CawgValidator, on results that were not Invalid before); distinct by (level, position active/ingredient, mutation, reference set, trust setting)".to_string();
    let thorough = run.thorough();
    let dir = scratch("c33");
    let pki = Pki::new(&dir);
    let t0 = pki::now();
    let day = 86400;
    let root_a = pki.root("root-a");
    let root_id = pki.root("root-id");
    let ee_claim = pki.issue(&root_a, "claim-signer", "v3_sign", t0 - day, t0 + 30 * day);
    let ee_id = pki.issue(&root_id, "identity-signer", "v3_sign", t0 - day, t0 + 30 * day);
    let anchors = String::from_utf8(root_a.cert_pem()).unwrap();
    let id_root_pem = String::from_utf8(root_id.cert_pem()).unwrap();
    let holder = Arc::new(holder_for(&ee_id, &root_id));
    // a second identity credential, from a CA that is never on the CAWG trust list
    let root_x = pki.root("root-x");
    let ee_id2 = pki.issue(&root_x, "identity-signer-2", "v3_sign", t0 - day, t0 + 30 * day);
    let holder2 = Arc::new(holder_for(&ee_id2, &root_x));

    // ---- vpc
    let mut seen_codes = std::collections::BTreeSet::<String>::new();
    let labels = ["c2pa.hash.data", "c2pa.actions.v2", "c2pa.thumbnail.claim.jpeg", "stds.schema-org.CreativeWork", "c2pa.hash.bmff.v3", "c2pa.ingredient.v3", "c2pa.metadata", "org.verif.x__1"];
    let rounds = if thorough { 40 } else { 6 };
    for round in 0..rounds {
        // a claim: 2..7 assertions, the hard binding first or somewhere, relative or absolute URLs
        let n = rng.range(2, 7) as usize;
        let mut ls: Vec<&str> = labels.to_vec();
        for i in (1..ls.len()).rev() {
            ls.swap(i, rng.below(i as u64 + 1) as usize);
        }
        let mut ls: Vec<&str> = ls.into_iter().take(n).collect();
        if !ls.iter().any(|l| l.starts_with("c2pa.hash.")) {
            ls[0] = "c2pa.hash.data";
        }
        let absolute = rng.chance(1, 2);
        let claim: Vec<HashedUri> = ls
            .iter()
            .map(|l| {
                let url = if absolute { format!("self#jumbf=/c2pa/urn:c2pa:{:08x}/c2pa.assertions/{l}", rng.next() as u32) } else { format!("self#jumbf=c2pa.assertions/{l}") };
                HashedUri::new(url, None, &rng.bytes(32))
            })
            .collect();
        // referenced subset: always the hard binding, plus random others
        let pick: Vec<usize> = (0..claim.len()).filter(|&i| is_hard_binding(&claim[i].url()) || rng.chance(1, 2)).collect();
        for m in ALL {
            for trusted in [Some(true), Some(false), None] {
                if !thorough && trusted != Some(true) && round > 1 {
                    continue;
                }
                let Some(made) = make(&holder, &claim, &pick, m, rng) else { continue };
                let js = settings_json(&anchors, trusted, &id_root_pem);
                let f = facts(&made.payload, &made.signature, made.sigtype, trusted, &id_root_pem);
                let built_for = made.sig;
                let req = request("vpc", &made, &claim, &f);
                let (payload, signature, pad1, pad2, claim2) = (made.payload.clone(), made.signature.clone(), made.pad1.clone(), made.pad2.clone(), claim.clone());
                let out = guarded(move || {
                    let ctx = Context::new().with_settings(js.as_str()).expect("settings");
                    let ia = c2pa::verif_hooks::c33::assertion_from_parts(payload, signature, pad1, pad2);
                    let mut log = StatusTracker::default();
                    let r = c2pa::verif_hooks::c33::validate_partial_claim(&ia, &claim2, &mut log, &ctx);
                    (r.is_ok(), log_entries(&log))
                });
                run.count(&format!("vpc:{m:?}"));
                match out {
                    Err(p) => {
                        let i = run.case(req, "panic".into());
                        run.fail(i, "panic", p);
                    }
                    Ok((ok, entries)) => {
                        let i = run.case(req, format!("{} log={}", if ok { "ok" } else { "err" }, log_str(&entries)));
                        run.nontrivial(format!("vpc:{m:?}:{round}:{trusted:?}"));
                        if made.sigtype == "x509" && f.sig != built_for {
                            run.fail(i, "cose-oracle-inconsistent", format!("{m:?}: built to end in `{built_for}`, the COSE verifier ends in `{}`", f.sig));
                        }
                        for e in &entries {
                            seen_codes.insert(e.1.clone());
                            // nothing the identity validation logs keeps a C2PA code
                            if !e.1.starts_with("cawg.") {
                                run.fail(i, "cawg-cose-code-unmapped", format!("{m:?}: validate_partial_claim logged the C2PA code {} (not remapped)", e.1));
                            }
                        }
                        for e in f.raw.split(',').filter(|x| *x != "-") {
                            seen_codes.insert(e[2..].to_string());
                        }
                        if m == Mutn::None {
                            if !ok || !entries.iter().any(|e| e.1 == "cawg.identity.well-formed") {
                                run.fail(i, "cawg-valid-rejected", format!("unmodified identity assertion did not validate: {entries:?}"));
                            }
                        } else if !has_cawg_failure(&entries) {
                            let class = if m == Mutn::SigTypeOther { "cawg-sigtype-unknown-unreported" } else { "cawg-change-unreported" };
                            run.fail(i, class, format!("{m:?}: no cawg failure code (ok={ok}, {entries:?})"));
                        }
                    }
                }
            }
        }
    }

    // ---- seq: several identity assertions validated one after the other on ONE status tracker
    // (as `Reader::post_validate` / `Manifest::from_store` do), every ordered combination of kinds;
    // each assertion must be reported in its own slice of the tracker whatever came before it
    {
        let kinds: [(&str, Mutn, bool); 7] = [
            ("intact-trusted", Mutn::None, false),
            ("intact-untrusted", Mutn::None, true),
            ("sig-flip", Mutn::SigFlip, false),
            ("sig-nocerts", Mutn::SigNoCerts, false),
            ("sig-garbage", Mutn::SigGarbage, false),
            ("ref-tampered", Mutn::RefHash, false),
            ("pad-tampered", Mutn::Pad1, false),
        ];
        let claim: Vec<HashedUri> = ["c2pa.hash.data", "c2pa.actions.v2", "c2pa.thumbnail.claim.jpeg"]
            .iter()
            .map(|l| HashedUri::new(format!("self#jumbf=c2pa.assertions/{l}"), None, &rng.bytes(32)))
            .collect();
        let pick: Vec<usize> = vec![0, 1, 2];
        let mut combos: Vec<Vec<usize>> = vec![];
        for a in 0..kinds.len() {
            for b in 0..kinds.len() {
                combos.push(vec![a, b]);
                if thorough {
                    for c in 0..kinds.len() {
                        combos.push(vec![a, b, c]);
                    }
                }
            }
        }
        if !thorough {
            // a few triples: an early failure, then two silent-prone ones
            combos.push(vec![1, 3, 3]);
            combos.push(vec![6, 0, 3]);
            combos.push(vec![3, 1, 4]);
        }
        for combo in combos {
            for trusted in if thorough { vec![Some(true), Some(false), None] } else { vec![Some(true)] } {
                let mut mades = vec![];
                for &k in &combo {
                    let h = if kinds[k].2 { &holder2 } else { &holder };
                    match make(h, &claim, &pick, kinds[k].1, rng) {
                        Some(m) => mades.push(m),
                        None => break,
                    }
                }
                if mades.len() != combo.len() {
                    continue;
                }
                let js = settings_json(&anchors, trusted, &id_root_pem);
                let mut req = format!("C33 seq n={}", mades.len());
                for (i, m) in mades.iter().enumerate() {
                    let f = facts(&m.payload, &m.signature, m.sigtype, trusted, &id_root_pem);
                    let one = request("x", m, &claim, &f);
                    for t in one.split(' ').skip(2) {
                        req.push_str(&format!(" {i}.{t}"));
                    }
                }
                let parts: Vec<_> = mades.iter().map(|m| (m.payload.clone(), m.signature.clone(), m.pad1.clone(), m.pad2.clone())).collect();
                let claim2 = claim.clone();
                let out = guarded(move || {
                    let ctx = Context::new().with_settings(js.as_str()).expect("settings");
                    let mut log = StatusTracker::default();
                    let mut slices = vec![];
                    for (payload, signature, pad1, pad2) in parts {
                        let ia = c2pa::verif_hooks::c33::assertion_from_parts(payload, signature, pad1, pad2);
                        let before = log.logged_items().len();
                        let r = c2pa::verif_hooks::c33::validate_partial_claim(&ia, &claim2, &mut log, &ctx);
                        let all = log_entries_from(&log, before);
                        slices.push((r.is_ok(), all));
                    }
                    slices
                });
                let name = combo.iter().map(|&k| kinds[k].0).collect::<Vec<_>>().join("+");
                run.count(&format!("seq:len{}", combo.len()));
                match out {
                    Err(p) => {
                        let i = run.case(req, "panic".into());
                        run.fail(i, "panic", p);
                    }
                    Ok(slices) => {
                        let reply = slices.iter().map(|(ok, e)| format!("{} log={}", if *ok { "ok" } else { "err" }, log_str(e))).collect::<Vec<_>>().join(" / ");
                        let i = run.case(req, reply);
                        run.nontrivial(format!("seq:{name}:{trusted:?}"));
                        for (j, (ok, e)) in slices.iter().enumerate() {
                            let kind = kinds[combo[j]];
                            if kind.1 == Mutn::None {
                                if !ok || !e.iter().any(|x| x.1 == "cawg.identity.well-formed") {
                                    run.fail(i, "cawg-valid-rejected", format!("pass {name}: unmodified assertion #{j} did not validate: {e:?}"));
                                }
                            } else if !has_cawg_failure(e) {
                                run.fail(i, "cawg-change-unreported-in-pass", format!("pass {name}: assertion #{j} ({}) has no cawg failure code of its own (ok={ok}, {e:?})", kind.0));
                            }
                        }
                    }
                }
            }
        }
    }

    // ---- e2e
    let src = std::fs::read(fixtures().join("IMG_0003.jpg")).expect("fixture");
    // baseline: the same claim signer without identity assertion
    let read = |asset: Vec<u8>, js: String| {
        guarded(move || {
            let ctx = Context::new().with_settings(js.as_str()).expect("settings");
            let r = Reader::from_context(ctx).with_stream("image/jpeg", Cursor::new(asset)).map_err(|e| format!("{e:?}"))?;
            let state = format!("{:?}", r.validation_state()).to_lowercase();
            let mut entries = vec![];
            if let Some(a) = r.validation_results().and_then(|v| v.active_manifest()) {
                for (k, l) in [('s', a.success()), ('i', a.informational()), ('f', a.failure())] {
                    for st in l {
                        entries.push((k, st.code().to_string()));
                    }
                }
            }
            Ok::<_, String>((state, entries))
        })
    };
    let e2e_muts: Vec<Mutn> = if thorough { ALL.to_vec() } else { vec![Mutn::None, Mutn::RefHash, Mutn::Duplicate, Mutn::NoHardBinding, Mutn::SigTypeOther, Mutn::SigFlip, Mutn::SigNoCerts, Mutn::Pad1, Mutn::Pad2, Mutn::RolesAfterSign] };
    // mutations also placed inside an ingredient's manifest (and post-validated with CawgValidator)
    let ingredient_muts: Vec<Mutn> = if thorough { ALL.to_vec() } else { vec![Mutn::None, Mutn::RefHash, Mutn::SigFlip, Mutn::SigNoCerts, Mutn::Pad1] };
    for m in e2e_muts {
        let rec = Arc::new(Mutex::new(None));
        let signer = IdSigner { inner: c2pa_signer(&ee_claim, &root_a), holder: holder.clone(), mutn: m, seed: rng.next(), rec: rec.clone() };
        let js_sign = settings_json(&anchors, Some(true), &id_root_pem);
        let src2 = src.clone();
        let signed = guarded(std::panic::AssertUnwindSafe(move || {
            let ctx = Context::new().with_settings(js_sign.as_str()).map_err(|e| format!("{e:?}"))?.with_signer(signer);
            let mut b = Builder::from_context(ctx).with_definition(definition("c33", "image/jpeg").as_str()).map_err(|e| format!("{e:?}"))?;
            let mut out = Cursor::new(Vec::new());
            b.save_to_stream("image/jpeg", &mut Cursor::new(src2), &mut out).map_err(|e| format!("{e:?}"))?;
            Ok::<_, String>(out.into_inner())
        }));
        let asset = match signed {
            Ok(Ok(a)) => a,
            other => {
                run.notes.push(format!("e2e {m:?}: signing failed: {:?}", other.map(|r| r.map(|_| ()).err())));
                continue;
            }
        };
        let Some((made2, claim_list)) = rec.lock().unwrap().clone() else {
            run.notes.push(format!("e2e {m:?}: dynamic assertion not recorded"));
            continue;
        };
        for trusted in [Some(true), Some(false)] {
            let out = read(asset.clone(), settings_json(&anchors, trusted, &id_root_pem));
            run.count(&format!("e2e:{m:?}"));
            let made = Made { payload: made2.payload.clone(), signature: made2.signature.clone(), pad1: made2.pad1.clone(), pad2: made2.pad2.clone(), sig: made2.sig, sigtype: made2.sigtype };
            let f = facts(&made.payload, &made.signature, made.sigtype, trusted, &id_root_pem);
            match out {
                Err(p) => {
                    let i = run.case(request("e2e", &made, &claim_list, &f), "panic".into());
                    run.fail(i, "panic", p);
                }
                Ok(Err(e)) => {
                    let i = run.case(request("e2e", &made, &claim_list, &f), "read-error".into());
                    run.fail(i, "read-error", e);
                }
                Ok(Ok((state, entries))) => {
                    let mut cawg: Vec<(char, String)> = entries.iter().filter(|e| e.1.starts_with("cawg.")).cloned().collect();
                    cawg.sort_by_key(|e| format!("{}:{}", e.0, e.1));
                    let rest: Vec<(char, String)> = entries.iter().filter(|e| !e.1.starts_with("cawg.")).cloned().collect();
                    let req = format!("{} rest={}", request("e2e", &made, &claim_list, &f), log_str(&rest));
                    let i = run.case(req, format!("{state} log={}", log_str(&cawg)));
                    run.nontrivial(format!("e2e:{m:?}:{trusted:?}"));
                    for e in &entries {
                        seen_codes.insert(e.1.clone());
                    }
                    let other_failures = rest.iter().any(|e| e.0 == 'f' && e.1 != "signingCredential.untrusted");
                    if m == Mutn::None {
                        if !cawg.iter().any(|e| e.1 == "cawg.identity.well-formed") {
                            run.fail(i, "cawg-valid-rejected", format!("unmodified identity assertion did not validate: {cawg:?}"));
                        }
                    } else if !has_cawg_failure(&cawg) {
                        let class = if m == Mutn::SigTypeOther { "cawg-sigtype-unknown-unreported" } else { "cawg-change-unreported" };
                        run.fail(i, class, format!("{m:?}: no cawg failure code in the report ({cawg:?})"));
                    }
                    if state == "invalid" && !other_failures && has_cawg_failure(&cawg) {
                        invalidated(run, i, &format!("{m:?} (active manifest)"), &cawg);
                    }
                }
            }
        }

        // ---- the same asset validated by `Reader::post_validate_async(&CawgValidator)`:
        // as it is (statuses go to the active manifest) and as an ingredient of a second asset B
        // (statuses carry the ingredient URI and go to that ingredient's delta)
        let made = Made { payload: made2.payload.clone(), signature: made2.signature.clone(), pad1: made2.pad1.clone(), pad2: made2.pad2.clone(), sig: made2.sig, sigtype: made2.sigtype };
        let mut subjects: Vec<(&str, Vec<u8>)> = vec![("active", asset.clone())];
        if ingredient_muts.contains(&m) {
            for rel in if thorough { vec!["componentOf", "parentOf"] } else { vec!["componentOf"] } {
                let inner = asset.clone();
                let src2 = src.clone();
                let signer = c2pa_signer(&ee_claim, &root_a);
                let js_b = settings_nodecode(&anchors, Some(true), &id_root_pem);
                let rel2 = rel.to_string();
                let built = guarded(std::panic::AssertUnwindSafe(move || {
                    let ctx = Context::new().with_settings(js_b.as_str()).map_err(|e| format!("{e:?}"))?.with_signer(signer);
                    let mut b = Builder::from_context(ctx).with_definition(definition("c33-outer", "image/jpeg").as_str()).map_err(|e| format!("{e:?}"))?;
                    let ing = serde_json::json!({"title": "inner.jpg", "relationship": rel2}).to_string();
                    b.add_ingredient_from_stream(ing, "image/jpeg", &mut Cursor::new(inner)).map_err(|e| format!("{e:?}"))?;
                    let mut out = Cursor::new(Vec::new());
                    b.save_to_stream("image/jpeg", &mut Cursor::new(src2), &mut out).map_err(|e| format!("{e:?}"))?;
                    Ok::<_, String>(out.into_inner())
                }));
                match built {
                    Ok(Ok(b)) => subjects.push((rel, b)),
                    other => run.notes.push(format!("e2ei {m:?}/{rel}: building the outer asset failed: {:?}", other.map(|r| r.map(|_| ()).err()))),
                }
            }
        }
        for (pos, subject) in subjects {
            for trusted in [Some(true), Some(false)] {
                let js = settings_nodecode(&anchors, trusted, &id_root_pem);
                let subject2 = subject.clone();
                let out = guarded(move || {
                    let ctx = Context::new().with_settings(js.as_str()).expect("settings");
                    let vctx = Context::new().with_settings(js.as_str()).expect("settings");
                    let mut r = Reader::from_context(ctx).with_stream("image/jpeg", Cursor::new(subject2)).map_err(|e| format!("{e:?}"))?;
                    let before = r.validation_results().cloned().unwrap_or_default();
                    let iuri = if pos_is_active(&r) {
                        None
                    } else {
                        let label = r.active_label().unwrap_or("-").to_string();
                        let ing = r.active_manifest().and_then(|m| m.ingredients().first()).and_then(|i| i.label()).unwrap_or("unknown").to_string();
                        Some(format!("self#jumbf=/c2pa/{label}/c2pa.assertions/{ing}"))
                    };
                    block_on(r.post_validate_async(&CawgValidator::new(&vctx))).map_err(|e| format!("{e:?}"))?;
                    let after = r.validation_results().cloned().unwrap_or_default();
                    let state = format!("{:?}", after.validation_state()).to_lowercase();
                    let reader_state = format!("{:?}", r.validation_state()).to_lowercase();
                    Ok::<_, String>((before, after, state, reader_state, iuri))
                });
                run.count(&format!("e2ei:{pos}:{m:?}"));
                let f = facts(&made.payload, &made.signature, made.sigtype, trusted, &id_root_pem);
                let head = request("e2ei", &made, &claim_list, &f);
                match out {
                    Err(p) => {
                        let i = run.case(head, "panic".into());
                        run.fail(i, "panic", p);
                    }
                    Ok(Err(e)) => {
                        let i = run.case(head, "read-error".into());
                        run.fail(i, "read-error", e);
                    }
                    Ok(Ok((before, after, state, reader_state, iuri))) => {
                        if (pos == "active") != iuri.is_none() {
                            run.notes.push(format!("e2ei {m:?}/{pos}: unexpected store shape"));
                            continue;
                        }
                        let req = format!("{head} iuri={} {}", iuri.clone().unwrap_or("-".into()), results_str(&before));
                        let i = run.case(req, format!("{state} {}", results_str(&after)));
                        let before_state = format!("{:?}", before.validation_state()).to_lowercase();
                        if before_state != "invalid" {
                            run.nontrivial(format!("e2ei:{pos}:{m:?}:{trusted:?}"));
                        }
                        if reader_state != state {
                            run.fail(i, "reader-state-stale", format!("Reader::validation_state() = {reader_state}, results say {state}"));
                        }
                        // what post-validation added, and where
                        let added = added_entries(&before, &after);
                        for (_, e) in &added {
                            seen_codes.insert(e.1.clone());
                        }
                        let cawg: Vec<(char, String)> = added.iter().map(|x| x.1.clone()).filter(|e| e.1.starts_with("cawg.")).collect();
                        if added.iter().any(|(u, _)| *u != iuri) {
                            run.fail(i, "cawg-status-misplaced", format!("{m:?}/{pos}: statuses of the identity assertion were not recorded for {iuri:?}: {added:?}"));
                        }
                        if m == Mutn::None {
                            if !cawg.iter().any(|e| e.1 == "cawg.identity.well-formed") {
                                run.fail(i, "cawg-valid-rejected", format!("{pos}: unmodified identity assertion did not validate: {cawg:?}"));
                            }
                        } else if !has_cawg_failure(&cawg) {
                            let class = if m == Mutn::SigTypeOther { "cawg-sigtype-unknown-unreported" } else { "cawg-change-unreported" };
                            run.fail(i, class, format!("{m:?}/{pos}: no cawg failure code after post-validation ({cawg:?})"));
                        }
                        let non_cawg_failure_added = added.iter().any(|(_, e)| e.0 == 'f' && !e.1.starts_with("cawg."));
                        if before_state != "invalid" && state == "invalid" && !non_cawg_failure_added {
                            invalidated(run, i, &format!("{m:?} ({pos}, CawgValidator)"), &cawg);
                        }
                    }
                }
            }
        }

        // ---- e2em: asset B carries its OWN identity assertion (second, never-trusted credential)
        // and has the asset above as an ingredient: one `post_validate_async(&CawgValidator)` pass,
        // one tracker, B's assertion first, then the ingredient's. Each must be reported in its
        // own bucket whatever the other one logged.
        if ingredient_muts.contains(&m) {
            let outer_muts: Vec<Mutn> = if thorough { vec![Mutn::None, Mutn::SigFlip, Mutn::SigNoCerts, Mutn::Pad1, Mutn::RefHash] } else { vec![Mutn::None, Mutn::SigNoCerts] };
            for mb in outer_muts {
                let rec_b = Arc::new(Mutex::new(None));
                let signer = IdSigner { inner: c2pa_signer(&ee_claim, &root_a), holder: holder2.clone(), mutn: mb, seed: rng.next(), rec: rec_b.clone() };
                let inner = asset.clone();
                let src2 = src.clone();
                let js_b = settings_nodecode(&anchors, Some(true), &id_root_pem);
                let built = guarded(std::panic::AssertUnwindSafe(move || {
                    let ctx = Context::new().with_settings(js_b.as_str()).map_err(|e| format!("{e:?}"))?.with_signer(signer);
                    let mut b = Builder::from_context(ctx).with_definition(definition("c33-outer-id", "image/jpeg").as_str()).map_err(|e| format!("{e:?}"))?;
                    let ing = serde_json::json!({"title": "inner.jpg", "relationship": "componentOf"}).to_string();
                    b.add_ingredient_from_stream(ing, "image/jpeg", &mut Cursor::new(inner)).map_err(|e| format!("{e:?}"))?;
                    let mut out = Cursor::new(Vec::new());
                    b.save_to_stream("image/jpeg", &mut Cursor::new(src2), &mut out).map_err(|e| format!("{e:?}"))?;
                    Ok::<_, String>(out.into_inner())
                }));
                let outer = match built {
                    Ok(Ok(b)) => b,
                    other => {
                        run.notes.push(format!("e2em {mb:?}+{m:?}: building the outer asset failed: {:?}", other.map(|r| r.map(|_| ()).err())));
                        continue;
                    }
                };
                let Some((made_b2, claim_b)) = rec_b.lock().unwrap().clone() else {
                    run.notes.push(format!("e2em {mb:?}+{m:?}: outer dynamic assertion not recorded"));
                    continue;
                };
                let made_b = Made { payload: made_b2.payload.clone(), signature: made_b2.signature.clone(), pad1: made_b2.pad1.clone(), pad2: made_b2.pad2.clone(), sig: made_b2.sig, sigtype: made_b2.sigtype };
                for trusted in [Some(true), Some(false)] {
                    let js = settings_nodecode(&anchors, trusted, &id_root_pem);
                    let outer2 = outer.clone();
                    let out = guarded(move || {
                        let ctx = Context::new().with_settings(js.as_str()).expect("settings");
                        let vctx = Context::new().with_settings(js.as_str()).expect("settings");
                        let mut r = Reader::from_context(ctx).with_stream("image/jpeg", Cursor::new(outer2)).map_err(|e| format!("{e:?}"))?;
                        let before = r.validation_results().cloned().unwrap_or_default();
                        let label = r.active_label().unwrap_or("-").to_string();
                        let ing = r.active_manifest().and_then(|m| m.ingredients().first()).and_then(|i| i.label()).unwrap_or("unknown").to_string();
                        let iuri = format!("self#jumbf=/c2pa/{label}/c2pa.assertions/{ing}");
                        block_on(r.post_validate_async(&CawgValidator::new(&vctx))).map_err(|e| format!("{e:?}"))?;
                        let after = r.validation_results().cloned().unwrap_or_default();
                        let state = format!("{:?}", after.validation_state()).to_lowercase();
                        Ok::<_, String>((before, after, state, iuri))
                    });
                    run.count("e2em");
                    let fb = facts(&made_b.payload, &made_b.signature, made_b.sigtype, trusted, &id_root_pem);
                    let fa = facts(&made.payload, &made.signature, made.sigtype, trusted, &id_root_pem);
                    let mut head = "C33 e2em n=2".to_string();
                    for t in request("x", &made_b, &claim_b, &fb).split(' ').skip(2) {
                        head.push_str(&format!(" 0.{t}"));
                    }
                    head.push_str(" 0.iuri=-");
                    for t in request("x", &made, &claim_list, &fa).split(' ').skip(2) {
                        head.push_str(&format!(" 1.{t}"));
                    }
                    match out {
                        Err(p) => {
                            let i = run.case(head, "panic".into());
                            run.fail(i, "panic", p);
                        }
                        Ok(Err(e)) => {
                            let i = run.case(head, "read-error".into());
                            run.fail(i, "read-error", e);
                        }
                        Ok(Ok((before, after, state, iuri))) => {
                            let req = format!("{head} 1.iuri={iuri} {}", results_str(&before));
                            let i = run.case(req, format!("{state} {}", results_str(&after)));
                            run.nontrivial(format!("e2em:{mb:?}+{m:?}:{trusted:?}"));
                            let added = added_entries(&before, &after);
                            for (bucket, mutn, what) in [(None, mb, "the outer manifest's own assertion"), (Some(iuri.clone()), m, "the ingredient's assertion")] {
                                let mine: Vec<(char, String)> = added.iter().filter(|x| x.0 == bucket).map(|x| x.1.clone()).filter(|e| e.1.starts_with("cawg.")).collect();
                                if mutn == Mutn::None {
                                    if !mine.iter().any(|e| e.1 == "cawg.identity.well-formed") {
                                        run.fail(i, "cawg-valid-rejected", format!("pass {mb:?}+{m:?}: {what} (unmodified) did not validate: {mine:?}"));
                                    }
                                } else if !has_cawg_failure(&mine) {
                                    let class = if mutn == Mutn::SigTypeOther { "cawg-sigtype-unknown-unreported" } else { "cawg-change-unreported-in-pass" };
                                    run.fail(i, class, format!("pass {mb:?}+{m:?}: {what} ({mutn:?}) has no cawg failure code recorded for it ({mine:?}; all added: {added:?})"));
                                }
                            }
                        }
                    }
                }
            }
        }
    }

    // ---- "created by the SDK": the SDK's own IdentityAssertionBuilder / IdentityAssertionSigner
    // assemble the assertion (references, hard binding, pads); it must validate, by the default
    // Reader and by CawgValidator, and the parts it wrote go through the model like any other case
    for (k, extra) in [(0usize, vec!["c2pa.actions.v2"]), (1, vec![]), (2, vec!["c2pa.actions.v2", "c2pa.thumbnail.claim", "org.verif.absent"])] {
        if !thorough && k == 2 {
            continue;
        }
        let raw = c2pa_raw_crypto::signer_from_private_key(&ee_claim.key_pem(), SigningAlg::Es256).expect("raw signer");
        let mut ias = c2pa::identity::builder::IdentityAssertionSigner::new(raw, vec![ee_claim.cert_der(), root_a.cert_der()]);
        let mut iab = c2pa::identity::builder::IdentityAssertionBuilder::for_credential_holder(holder_for(&ee_id, &root_id));
        iab.add_referenced_assertions(&extra);
        if k == 1 {
            iab.add_roles(&["cawg.creator"]);
        }
        ias.add_identity_assertion(iab);
        let js_sign = settings_json(&anchors, Some(true), &id_root_pem);
        let src2 = src.clone();
        let signed = guarded(std::panic::AssertUnwindSafe(move || {
            let ctx = Context::new().with_settings(js_sign.as_str()).map_err(|e| format!("{e:?}"))?.with_signer(ias);
            let mut b = Builder::from_context(ctx).with_definition(definition("c33-sdk", "image/jpeg").as_str()).map_err(|e| format!("{e:?}"))?;
            let mut out = Cursor::new(Vec::new());
            b.save_to_stream("image/jpeg", &mut Cursor::new(src2), &mut out).map_err(|e| format!("{e:?}"))?;
            Ok::<_, String>(out.into_inner())
        }));
        let asset = match signed {
            Ok(Ok(a)) => a,
            other => {
                run.notes.push(format!("sdk-built {k}: signing failed: {:?}", other.map(|r| r.map(|_| ()).err())));
                run.obligations.insert(format!("sdk-built-identity-signs:{k}"), false);
                continue;
            }
        };
        // take the written assertion apart (read without decoding it)
        let asset2 = asset.clone();
        let js_nd = settings_nodecode(&anchors, Some(true), &id_root_pem);
        let parts = guarded(move || {
            let ctx = Context::new().with_settings(js_nd.as_str()).expect("settings");
            let r = Reader::from_context(ctx).with_stream("image/jpeg", Cursor::new(asset2)).map_err(|e| format!("{e:?}"))?;
            let m = r.active_manifest().ok_or("no active manifest")?;
            let ma = m.assertions().iter().find(|a| a.label().starts_with("cawg.identity")).ok_or("no identity assertion")?;
            let ia: c2pa::identity::IdentityAssertion = ma.to_assertion().map_err(|e| format!("{e:?}"))?;
            let claim: Vec<HashedUri> = m.assertion_references().cloned().collect();
            Ok::<_, String>((c2pa::verif_hooks::c33::assertion_parts(&ia), claim))
        });
        let ((payload, signature, pad1, pad2), claim_list) = match parts {
            Ok(Ok(p)) => p,
            other => {
                run.notes.push(format!("sdk-built {k}: cannot take the assertion apart: {:?}", other.map(|r| r.map(|_| ()).err())));
                run.obligations.insert(format!("sdk-built-identity-readable:{k}"), false);
                continue;
            }
        };
        let has_hb = payload.referenced_assertions.iter().any(|r| is_hard_binding(&r.url()));
        let pads_zero = pad1.iter().all(|b| *b == 0) && pad2.as_ref().map(|p| p.iter().all(|b| *b == 0)).unwrap_or(true);
        run.obligations.insert(format!("sdk-built-identity-has-hard-binding-and-zero-pads:{k}"), has_hb && pads_zero);
        let made = Made { payload, signature, pad1, pad2, sig: "ok", sigtype: "x509" };
        for trusted in [Some(true), Some(false)] {
            let f = facts(&made.payload, &made.signature, made.sigtype, trusted, &id_root_pem);
            let out = read(asset.clone(), settings_json(&anchors, trusted, &id_root_pem));
            run.count("e2e:sdk-built");
            match out {
                Ok(Ok((state, entries))) => {
                    let mut cawg: Vec<(char, String)> = entries.iter().filter(|e| e.1.starts_with("cawg.")).cloned().collect();
                    cawg.sort_by_key(|e| format!("{}:{}", e.0, e.1));
                    let rest: Vec<(char, String)> = entries.iter().filter(|e| !e.1.starts_with("cawg.")).cloned().collect();
                    let req = format!("{} rest={}", request("e2e", &made, &claim_list, &f), log_str(&rest));
                    let i = run.case(req, format!("{state} log={}", log_str(&cawg)));
                    run.nontrivial(format!("e2e:sdk-built:{k}:{trusted:?}"));
                    let only_trust = cawg.iter().all(|e| e.0 != 'f' || e.1 == "cawg.x509.credential.untrusted");
                    if !cawg.iter().any(|e| e.1 == "cawg.identity.well-formed") || !only_trust || (trusted == Some(true) && has_cawg_failure(&cawg)) {
                        run.fail(i, "cawg-valid-rejected", format!("identity assertion created by the SDK did not validate: {cawg:?}"));
                    }
                    if state == "invalid" {
                        run.fail(i, "cawg-valid-rejected", format!("asset with an SDK-created identity assertion is Invalid: {entries:?}"));
                    }
                }
                other => {
                    let i = run.case(request("e2e", &made, &claim_list, &f), "read-error".into());
                    run.fail(i, "read-error", format!("{other:?}"));
                }
            }
        }
    }

    // ---- the remap is applied once: every `cawg.*` code the run observed (i.e. after the remap)
    // is a fixed point of the model's remap function; and none of the C2PA codes the COSE verifier
    // logged (before the remap) survives into a report of the identity validation.
    let raw_seen: Vec<String> = seen_codes.iter().filter(|c| !c.starts_with("cawg.")).cloned().collect();
    for c in seen_codes.iter().filter(|c| c.starts_with("cawg.")) {
        run.case(format!("C33 remap c={c}"), c.to_string());
        run.count("remap:fixed-point");
    }
    run.notes.push(format!("C2PA codes seen from the COSE verifier (before the remap) or among the C2PA checks: {raw_seen:?}"));
    let _ = std::fs::remove_dir_all(&dir);
}
