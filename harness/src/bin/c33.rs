//! C33 — CAWG identity assertions bind exactly the referenced assertions.
//!
//! Identity assertions are produced with the SDK's own `X509CredentialHolder` (real COSE
//! signatures by a certificate of a local openssl CA) over generated sets of claim assertions, and
//! then every component is mutated: a referenced hash, a referenced URL, a duplicated reference,
//! the hard-binding reference removed, `sig_type`, payload changed after signing, signature bytes,
//! `pad1` / `pad2`; with and without the CAWG signer's CA on the CAWG trust list.
//!
//!   C33 vpc refs= claim= sigtype= pad1= pad2= sig= sigentries=
//!        `IdentityAssertion::validate_partial_claim` (hook)        -> ok|err log=<entries>
//!   C33 e2e (same) rest=<entries of the C2PA checks>
//!        Builder with a harness `DynamicAssertion` + Reader        -> <state> log=<cawg.* entries>
//!
//! Oracle (on the implementation): an unmodified assertion validates (`cawg.identity.well-formed`);
//! every mutation is reported with a `cawg.*` failure code; no `cawg.*` failure makes the manifest
//! Invalid (classes `cawg-change-unreported`, `cawg-failure-invalidates-manifest`).
#[path = "../pki.rs"]
mod pki;

use std::{
    io::Cursor,
    sync::{Arc, Mutex},
};

use c2pa::{
    dynamic_assertion::{DynamicAssertion, DynamicAssertionContent, PartialClaim},
    identity::{builder::CredentialHolder, x509::X509CredentialHolder, SignerPayload},
    status_tracker::{LogKind, StatusTracker},
    Builder, Context, HashedUri, Reader, Signer, SigningAlg,
};
use pki::{Cred, Pki};
use vh::common::{fixtures, guarded, hex, main_with, scratch, Rng, Run};
use vh::sign::definition;

fn main() {
    main_with("C33", run);
}

#[derive(Clone, Copy, PartialEq, Debug)]
enum Mutn {
    None,
    RefHash,        // one referenced hash changed (payload signed afterwards: a validly signed, re-targeted assertion)
    RefUrlUnknown,  // a referenced URL that is not in the claim
    Duplicate,      // one reference repeated
    NoHardBinding,  // references without any c2pa.hash.* assertion
    SigTypeOther,   // sig_type not known
    PayloadAfterSign, // referenced hash changed after signing (signature no longer covers the payload) … but claim kept in step
    SigFlip,        // a byte of the COSE signature value flipped
    SigGarbage,     // signature is not COSE
    Pad1,           // non-zero byte in pad1
    Pad2,           // non-zero byte in pad2
    RolesAfterSign, // role added to the payload after signing
}

const ALL: [Mutn; 12] = [
    Mutn::None,
    Mutn::RefHash,
    Mutn::RefUrlUnknown,
    Mutn::Duplicate,
    Mutn::NoHardBinding,
    Mutn::SigTypeOther,
    Mutn::PayloadAfterSign,
    Mutn::SigFlip,
    Mutn::SigGarbage,
    Mutn::Pad1,
    Mutn::Pad2,
    Mutn::RolesAfterSign,
];

struct Made {
    payload: SignerPayload,
    signature: Vec<u8>,
    pad1: Vec<u8>,
    pad2: Option<Vec<u8>>,
    /// protocol facts
    sig: &'static str,
    sigtype: &'static str,
}

fn is_hard_binding(u: &str) -> bool {
    u.rsplit_once('/').map(|(_, l)| l.starts_with("c2pa.hash.")).unwrap_or(false)
}

/// Build the identity assertion parts for `claim` (the claim's assertion list), mutated.
fn make(holder: &X509CredentialHolder, claim: &[HashedUri], pick: &[usize], m: Mutn, rng: &mut Rng) -> Option<Made> {
    // references: picked assertions, written relative (the claim may hold the absolute form)
    let rel = |u: &str| -> String {
        match u.find("/c2pa.assertions/") {
            Some(p) if u.contains("=/c2pa/") => format!("self#jumbf=c2pa.assertions/{}", &u[p + "/c2pa.assertions/".len()..]),
            _ => u.to_string(),
        }
    };
    let mut refs: Vec<HashedUri> = pick.iter().map(|&i| HashedUri::new(rel(&claim[i].url()), None, &claim[i].hash())).collect();
    if m == Mutn::NoHardBinding {
        refs.retain(|r| !is_hard_binding(&r.url()));
        if refs.is_empty() {
            return None;
        }
    }
    let victim = rng.below(refs.len() as u64) as usize;
    let bump = |r: &HashedUri| {
        let mut h = r.hash();
        h[0] ^= 0x5a;
        HashedUri::new(r.url(), None, &h)
    };
    match m {
        Mutn::RefHash => refs[victim] = bump(&refs[victim]),
        Mutn::RefUrlUnknown => {
            let r = &refs[victim];
            refs[victim] = HashedUri::new(format!("{}.x{}", r.url(), rng.below(100)), None, &r.hash());
        }
        Mutn::Duplicate => {
            let r = refs[victim].clone();
            refs.push(r);
        }
        _ => {}
    }
    let mut payload = SignerPayload {
        referenced_assertions: refs,
        sig_type: if m == Mutn::SigTypeOther { "cawg.verif.other".into() } else { "cawg.x509.cose".into() },
        roles: vec![],
    };
    let mut signature = holder.sign(&payload).ok()?;
    let mut sig = "ok";
    match m {
        Mutn::PayloadAfterSign => {
            // keep the payload consistent with the claim (so only the signature can notice):
            // change the *order* of the references
            if payload.referenced_assertions.len() < 2 {
                return None;
            }
            payload.referenced_assertions.reverse();
            sig = "mismatch";
        }
        Mutn::RolesAfterSign => {
            payload.roles.push("cawg.editor".into());
            sig = "mismatch";
        }
        Mutn::SigFlip => {
            // the COSE signature value is the last byte string of the (unpadded) structure
            let n = signature.len();
            signature[n - 1] ^= 0x01;
            sig = "mismatch";
        }
        Mutn::SigGarbage => {
            let n = rng.range(1, 64) as usize;
            signature = rng.bytes(n);
            sig = "parse";
        }
        _ => {}
    }
    let mut pad1 = vec![0u8; rng.below(40) as usize];
    let mut pad2 = if rng.chance(1, 3) { None } else { Some(vec![0u8; rng.below(12) as usize]) };
    if m == Mutn::Pad1 {
        pad1 = vec![0u8; rng.range(1, 40) as usize];
        let i = rng.below(pad1.len() as u64) as usize;
        pad1[i] = rng.range(1, 255) as u8;
    }
    if m == Mutn::Pad2 {
        let mut p = vec![0u8; rng.range(1, 12) as usize];
        let i = rng.below(p.len() as u64) as usize;
        p[i] = rng.range(1, 255) as u8;
        pad2 = Some(p);
    }
    Some(Made { payload, signature, pad1, pad2, sig, sigtype: if m == Mutn::SigTypeOther { "other" } else { "x509" } })
}

fn uris_str(v: &[HashedUri]) -> String {
    if v.is_empty() {
        "-".into()
    } else {
        v.iter().map(|u| format!("{}~{}", u.url(), hex(&u.hash()))).collect::<Vec<_>>().join(",")
    }
}

fn log_entries(log: &StatusTracker) -> Vec<(char, String)> {
    log.logged_items()
        .iter()
        .filter_map(|i| {
            let c = i.validation_status.as_ref()?.to_string();
            let k = match i.kind {
                LogKind::Success => 's',
                LogKind::Informational => 'i',
                LogKind::Failure => 'f',
            };
            Some((k, c))
        })
        .collect()
}

fn log_str(e: &[(char, String)]) -> String {
    if e.is_empty() {
        "-".into()
    } else {
        e.iter().map(|x| format!("{}:{}", x.0, x.1)).collect::<Vec<_>>().join(",")
    }
}

/// remapped credential entries the COSE verifier logs (oracle facts by construction)
fn sig_entries(made: &Made, trusted_list: Option<bool>) -> String {
    if made.sigtype != "x509" {
        return "-".into();
    }
    match made.sig {
        "parse" => "f:cawg.x509.signature.mismatch".into(),
        _ => match trusted_list {
            None => "-".into(), // trust list not consulted
            Some(true) => "s:cawg.x509.credential.trusted".into(),
            Some(false) => "f:cawg.x509.credential.untrusted".into(),
        },
    }
}

fn request(op: &str, made: &Made, claim: &[HashedUri], trusted_list: Option<bool>) -> String {
    format!(
        "C33 {op} refs={} claim={} sigtype={} pad1={} pad2={} sig={} sigentries={}",
        uris_str(&made.payload.referenced_assertions),
        uris_str(claim),
        made.sigtype,
        hex(&made.pad1),
        made.pad2.as_ref().map(|p| hex(p)).unwrap_or("none".into()),
        made.sig,
        sig_entries(made, trusted_list)
    )
}

fn settings_json(anchors: &str, cawg_anchor: Option<bool>, cawg_root: &str) -> String {
    let mut v = serde_json::json!({
        "verify": {"verify_trust": true, "ocsp_fetch": false, "remote_manifest_fetch": false, "verify_after_sign": false},
        "trust": {"trust_anchors": anchors},
        "core": {"decode_identity_assertions": true}
    });
    match cawg_anchor {
        None => v["cawg_trust"] = serde_json::json!({"verify_trust_list": false}),
        Some(true) => v["cawg_trust"] = serde_json::json!({"verify_trust_list": true, "trust_anchors": cawg_root}),
        Some(false) => v["cawg_trust"] = serde_json::json!({"verify_trust_list": true}),
    }
    v.to_string()
}

fn has_cawg_failure(e: &[(char, String)]) -> bool {
    e.iter().any(|x| x.0 == 'f' && x.1.starts_with("cawg."))
}

// ---------------------------------------------------------------- e2e plumbing

struct HarnessIdentity {
    holder: Arc<X509CredentialHolder>,
    mutn: Mutn,
    seed: u64,
    rec: Arc<Mutex<Option<(Made2, Vec<HashedUri>)>>>,
}

/// what the dynamic assertion wrote (for the request line)
#[derive(Clone)]
struct Made2 {
    refs: Vec<HashedUri>,
    pad1: Vec<u8>,
    pad2: Option<Vec<u8>>,
    sig: &'static str,
    sigtype: &'static str,
}

const RESERVE: usize = 6000;

impl DynamicAssertion for HarnessIdentity {
    fn label(&self) -> String {
        "cawg.identity".to_string()
    }

    fn reserve_size(&self) -> c2pa::Result<usize> {
        Ok(RESERVE)
    }

    fn content(&self, _label: &str, size: Option<usize>, claim: &PartialClaim) -> c2pa::Result<DynamicAssertionContent> {
        let claim_list: Vec<HashedUri> = claim.assertions().cloned().collect();
        let pick: Vec<usize> = (0..claim_list.len()).filter(|&i| !claim_list[i].url().contains("cawg.identity")).collect();
        let mut rng = Rng::new(self.seed);
        let made = make(&self.holder, &claim_list, &pick, self.mutn, &mut rng).ok_or(c2pa::Error::BadParam("mutation not applicable".into()))?;
        // pad to the reserved size exactly as the SDK's builder does (pad1, then pad2), then
        // put the mutated pad bytes in
        let target = size.unwrap_or(RESERVE);
        let build = |p1: Vec<u8>, p2: Option<Vec<u8>>| {
            c2pa::verif_hooks::c33::assertion_cbor(&c2pa::verif_hooks::c33::assertion_from_parts(made.payload.clone(), made.signature.clone(), p1, p2))
        };
        let base = build(vec![], None).len();
        if base + 21 > target {
            return Err(c2pa::Error::BadParam("reserve too small".into()));
        }
        let mut p1 = vec![0u8; target - base - 15];
        let l1 = build(p1.clone(), None).len();
        let mut p2 = vec![0u8; target - l1 - 6];
        if self.mutn == Mutn::Pad1 {
            let k = rng.below(p1.len() as u64) as usize;
            p1[k] = 7;
        }
        if self.mutn == Mutn::Pad2 {
            if p2.is_empty() {
                return Err(c2pa::Error::BadParam("no pad2 room".into()));
            }
            p2[0] = 9;
        }
        let out = build(p1.clone(), Some(p2.clone()));
        if out.len() != target {
            return Err(c2pa::Error::BadParam(format!("size {} != {target}", out.len())));
        }
        *self.rec.lock().unwrap() = Some((
            Made2 { refs: made.payload.referenced_assertions.clone(), pad1: p1, pad2: Some(p2), sig: made.sig, sigtype: made.sigtype },
            claim_list,
        ));
        Ok(DynamicAssertionContent::Cbor(out))
    }
}

struct IdSigner {
    inner: c2pa::BoxedSigner,
    holder: Arc<X509CredentialHolder>,
    mutn: Mutn,
    seed: u64,
    rec: Arc<Mutex<Option<(Made2, Vec<HashedUri>)>>>,
}

impl Signer for IdSigner {
    fn sign(&self, data: &[u8]) -> c2pa::Result<Vec<u8>> {
        self.inner.sign(data)
    }

    fn alg(&self) -> SigningAlg {
        self.inner.alg()
    }

    fn certs(&self) -> c2pa::Result<Vec<Vec<u8>>> {
        self.inner.certs()
    }

    fn reserve_size(&self) -> usize {
        self.inner.reserve_size()
    }

    fn dynamic_assertions(&self) -> Vec<Box<dyn DynamicAssertion>> {
        vec![Box::new(HarnessIdentity { holder: self.holder.clone(), mutn: self.mutn, seed: self.seed, rec: self.rec.clone() })]
    }
}

fn c2pa_signer(ee: &Cred, root: &Cred) -> c2pa::BoxedSigner {
    let mut chain = ee.cert_pem();
    chain.extend_from_slice(&root.cert_pem());
    c2pa::create_signer::from_keys(&chain, &ee.key_pem(), SigningAlg::Es256, None).expect("signer")
}

fn holder_for(ee: &Cred, root: &Cred) -> X509CredentialHolder {
    let raw = c2pa_raw_crypto::signer_from_private_key(&ee.key_pem(), SigningAlg::Es256).expect("raw signer");
    X509CredentialHolder::from_raw_signer(raw, vec![ee.cert_der(), root.cert_der()])
}

pub fn run(run: &mut Run, rng: &mut Rng) {
    run.rule = "every case carries an identity assertion signed by the SDK's X509CredentialHolder; non-trivial = a mutated or unmodified assertion reaches validate_partial_claim; distinct by (level, mutation, reference set, trust setting)".to_string();
    let thorough = run.thorough();
    let dir = scratch("c33");
    let pki = Pki::new(&dir);
    let t0 = pki::now();
    let day = 86400;
    let root_a = pki.root("root-a");
    let root_id = pki.root("root-id");
    let ee_claim = pki.issue(&root_a, "claim-signer", "v3_sign", t0 - day, t0 + 30 * day);
    let ee_id = pki.issue(&root_id, "identity-signer", "v3_sign", t0 - day, t0 + 30 * day);
    let anchors = String::from_utf8(root_a.cert_pem()).unwrap();
    let id_root_pem = String::from_utf8(root_id.cert_pem()).unwrap();
    let holder = Arc::new(holder_for(&ee_id, &root_id));

    // ---- vpc
    let labels = ["c2pa.hash.data", "c2pa.actions.v2", "c2pa.thumbnail.claim.jpeg", "stds.schema-org.CreativeWork", "c2pa.hash.bmff.v3", "c2pa.ingredient.v3", "c2pa.metadata", "org.verif.x__1"];
    let rounds = if thorough { 40 } else { 6 };
    for round in 0..rounds {
        // a claim: 2..7 assertions, the hard binding first or somewhere, relative or absolute URLs
        let n = rng.range(2, 7) as usize;
        let mut ls: Vec<&str> = labels.to_vec();
        for i in (1..ls.len()).rev() {
            ls.swap(i, rng.below(i as u64 + 1) as usize);
        }
        let mut ls: Vec<&str> = ls.into_iter().take(n).collect();
        if !ls.iter().any(|l| l.starts_with("c2pa.hash.")) {
            ls[0] = "c2pa.hash.data";
        }
        let absolute = rng.chance(1, 2);
        let claim: Vec<HashedUri> = ls
            .iter()
            .map(|l| {
                let url = if absolute { format!("self#jumbf=/c2pa/urn:c2pa:{:08x}/c2pa.assertions/{l}", rng.next() as u32) } else { format!("self#jumbf=c2pa.assertions/{l}") };
                HashedUri::new(url, None, &rng.bytes(32))
            })
            .collect();
        // referenced subset: always the hard binding, plus random others
        let pick: Vec<usize> = (0..claim.len()).filter(|&i| is_hard_binding(&claim[i].url()) || rng.chance(1, 2)).collect();
        for m in ALL {
            for trusted in [Some(true), Some(false), None] {
                if !thorough && trusted != Some(true) && round > 1 {
                    continue;
                }
                let Some(made) = make(&holder, &claim, &pick, m, rng) else { continue };
                let js = settings_json(&anchors, trusted, &id_root_pem);
                let req = request("vpc", &made, &claim, trusted);
                let (payload, signature, pad1, pad2, claim2) = (made.payload.clone(), made.signature.clone(), made.pad1.clone(), made.pad2.clone(), claim.clone());
                let out = guarded(move || {
                    let ctx = Context::new().with_settings(js.as_str()).expect("settings");
                    let ia = c2pa::verif_hooks::c33::assertion_from_parts(payload, signature, pad1, pad2);
                    let mut log = StatusTracker::default();
                    let r = c2pa::verif_hooks::c33::validate_partial_claim(&ia, &claim2, &mut log, &ctx);
                    (r.is_ok(), log_entries(&log))
                });
                run.count(&format!("vpc:{m:?}"));
                match out {
                    Err(p) => {
                        let i = run.case(req, "panic".into());
                        run.fail(i, "panic", p);
                    }
                    Ok((ok, entries)) => {
                        let i = run.case(req, format!("{} log={}", if ok { "ok" } else { "err" }, log_str(&entries)));
                        run.nontrivial(format!("vpc:{m:?}:{round}:{trusted:?}"));
                        if m == Mutn::None {
                            if !ok || !entries.iter().any(|e| e.1 == "cawg.identity.well-formed") {
                                run.fail(i, "cawg-valid-rejected", format!("unmodified identity assertion did not validate: {entries:?}"));
                            }
                        } else if !has_cawg_failure(&entries) {
                            let class = if m == Mutn::SigTypeOther { "cawg-sigtype-unknown-unreported" } else { "cawg-change-unreported" };
                            run.fail(i, class, format!("{m:?}: no cawg failure code (ok={ok}, {entries:?})"));
                        }
                    }
                }
            }
        }
    }

    // ---- e2e
    let src = std::fs::read(fixtures().join("IMG_0003.jpg")).expect("fixture");
    // baseline: the same claim signer without identity assertion
    let read = |asset: Vec<u8>, js: String| {
        guarded(move || {
            let ctx = Context::new().with_settings(js.as_str()).expect("settings");
            let r = Reader::from_context(ctx).with_stream("image/jpeg", Cursor::new(asset)).map_err(|e| format!("{e:?}"))?;
            let state = format!("{:?}", r.validation_state()).to_lowercase();
            let mut entries = vec![];
            if let Some(a) = r.validation_results().and_then(|v| v.active_manifest()) {
                for (k, l) in [('s', a.success()), ('i', a.informational()), ('f', a.failure())] {
                    for st in l {
                        entries.push((k, st.code().to_string()));
                    }
                }
            }
            Ok::<_, String>((state, entries))
        })
    };
    let e2e_muts: Vec<Mutn> = if thorough { ALL.to_vec() } else { vec![Mutn::None, Mutn::RefHash, Mutn::Duplicate, Mutn::NoHardBinding, Mutn::SigTypeOther, Mutn::SigFlip, Mutn::Pad1, Mutn::Pad2, Mutn::RolesAfterSign] };
    for m in e2e_muts {
        let rec = Arc::new(Mutex::new(None));
        let signer = IdSigner { inner: c2pa_signer(&ee_claim, &root_a), holder: holder.clone(), mutn: m, seed: rng.next(), rec: rec.clone() };
        let js_sign = settings_json(&anchors, Some(true), &id_root_pem);
        let src2 = src.clone();
        let signed = guarded(std::panic::AssertUnwindSafe(move || {
            let ctx = Context::new().with_settings(js_sign.as_str()).map_err(|e| format!("{e:?}"))?.with_signer(signer);
            let mut b = Builder::from_context(ctx).with_definition(definition("c33", "image/jpeg").as_str()).map_err(|e| format!("{e:?}"))?;
            let mut out = Cursor::new(Vec::new());
            b.save_to_stream("image/jpeg", &mut Cursor::new(src2), &mut out).map_err(|e| format!("{e:?}"))?;
            Ok::<_, String>(out.into_inner())
        }));
        let asset = match signed {
            Ok(Ok(a)) => a,
            other => {
                run.notes.push(format!("e2e {m:?}: signing failed: {:?}", other.map(|r| r.map(|_| ()).err())));
                continue;
            }
        };
        let Some((made2, claim_list)) = rec.lock().unwrap().clone() else {
            run.notes.push(format!("e2e {m:?}: dynamic assertion not recorded"));
            continue;
        };
        for trusted in [Some(true), Some(false)] {
            let out = read(asset.clone(), settings_json(&anchors, trusted, &id_root_pem));
            run.count(&format!("e2e:{m:?}"));
            let made = Made { payload: SignerPayload { referenced_assertions: made2.refs.clone(), sig_type: String::new(), roles: vec![] }, signature: vec![], pad1: made2.pad1.clone(), pad2: made2.pad2.clone(), sig: made2.sig, sigtype: made2.sigtype };
            match out {
                Err(p) => {
                    let i = run.case(request("e2e", &made, &claim_list, trusted), "panic".into());
                    run.fail(i, "panic", p);
                }
                Ok(Err(e)) => {
                    let i = run.case(request("e2e", &made, &claim_list, trusted), "read-error".into());
                    run.fail(i, "read-error", e);
                }
                Ok(Ok((state, entries))) => {
                    let mut cawg: Vec<(char, String)> = entries.iter().filter(|e| e.1.starts_with("cawg.")).cloned().collect();
                    cawg.sort_by_key(|e| format!("{}:{}", e.0, e.1));
                    let rest: Vec<(char, String)> = entries.iter().filter(|e| !e.1.starts_with("cawg.")).cloned().collect();
                    let req = format!("{} rest={}", request("e2e", &made, &claim_list, trusted), log_str(&rest));
                    let i = run.case(req, format!("{state} log={}", log_str(&cawg)));
                    run.nontrivial(format!("e2e:{m:?}:{trusted:?}"));
                    let other_failures = rest.iter().any(|e| e.0 == 'f' && e.1 != "signingCredential.untrusted");
                    if m == Mutn::None {
                        if !cawg.iter().any(|e| e.1 == "cawg.identity.well-formed") {
                            run.fail(i, "cawg-valid-rejected", format!("unmodified identity assertion did not validate: {cawg:?}"));
                        }
                    } else if !has_cawg_failure(&cawg) {
                        let class = if m == Mutn::SigTypeOther { "cawg-sigtype-unknown-unreported" } else { "cawg-change-unreported" };
                        run.fail(i, class, format!("{m:?}: no cawg failure code in the report ({cawg:?})"));
                    }
                    if state == "invalid" && !other_failures && has_cawg_failure(&cawg) {
                        let worst = cawg.iter().find(|e| e.0 == 'f' && !e.1.starts_with("cawg.x509.")).or(cawg.iter().find(|e| e.0 == 'f')).map(|e| e.1.clone()).unwrap_or_default();
                        run.fail(i, "cawg-failure-invalidates-manifest", format!("{m:?}: manifest Invalid although the only failures are CAWG ones ({worst})"));
                    }
                }
            }
        }
    }
    let _ = std::fs::remove_dir_all(&dir);
}
