//! C04 — validation state is derived soundly from validation codes.
//!
//! Request lines (see lean/C2paModel/Model/C04.lean):
//!   C04 ops base=<results> ops=<op;op;…|->      -> <state> <results>
//!   C04 legacy trust=<0|1> status=<-|[]|c,c,…>  -> <state>
//! <results> = A=<-|s,s;i,i;f,f> D=<-|[]|uri~s;i;f/uri~s;i;f>
//! op = <kind s|i|f>:<uri|->:<code>

use c2pa::{
    status_tracker::LogKind,
    validation_results::{IngredientDeltaValidationResult, StatusCodes, ValidationResults, ValidationState},
    validation_status::ValidationStatus,
    Context,
};

use vh::common::{main_with, Rng, Run};

fn main() {
    main_with("C04", run);
}

const TOLERATED: &str = "signingCredential.untrusted";

/// Every `pub const NAME: &str = "code";` in the validation_codes module, read from
/// the current source so that new codes are exercised as soon as they exist.
pub fn known_codes() -> Vec<String> {
    let src = std::fs::read_to_string("/repo/sdk/src/validation_results.rs").unwrap_or_default();
    let mut out = vec![];
    for line in src.lines() {
        let l = line.trim();
        if l.starts_with("pub const ") && l.contains(": &str = \"") {
            if let Some(i) = l.find("= \"") {
                let rest = &l[i + 3..];
                if let Some(j) = rest.find('"') {
                    let code = &rest[..j];
                    if !code.is_empty()
                        && code
                            .chars()
                            .all(|c| c.is_ascii_alphanumeric() || "._-".contains(c))
                    {
                        out.push(code.to_string());
                    }
                }
            }
        }
    }
    out.sort();
    out.dedup();
    out
}

fn near_misses() -> Vec<String> {
    [
        "cawg.x509",
        "cawg.x509.",
        "cawg.x50",
        "cawg.x509x.y",
        "Cawg.x509.a",
        "cawg.X509.a",
        "xcawg.x509.a",
        "cawg.x509.anything",
        "cawg.identity.pad.invalid",
        "signingCredential.untrusted",
        "signingCredential.untrusted.",
        "signingcredential.untrusted",
        "signingCredential.untruste",
        "claimSignature.validated",
        "claimSignature.insideValidity",
        "claimSignature.Validated",
        "claimSignature.validated.",
        "signingCredential.trusted",
        "signingCredential.trusted2",
        "x",
        "unknown.code",
    ]
    .iter()
    .map(|s| s.to_string())
    .collect()
}

fn st(code: &str) -> ValidationStatus {
    serde_json::from_value(serde_json::json!({ "code": code })).expect("status json")
}

fn kind_of(c: char) -> LogKind {
    match c {
        's' => LogKind::Success,
        'i' => LogKind::Informational,
        _ => LogKind::Failure,
    }
}

fn state_str(s: ValidationState) -> &'static str {
    match s {
        ValidationState::Invalid => "invalid",
        ValidationState::Valid => "valid",
        ValidationState::Trusted => "trusted",
    }
}

fn codes_str(v: &[ValidationStatus]) -> String {
    v.iter().map(|s| s.code().to_string()).collect::<Vec<_>>().join(",")
}

fn sc_str(sc: &StatusCodes) -> String {
    format!(
        "{};{};{}",
        codes_str(sc.success()),
        codes_str(sc.informational()),
        codes_str(sc.failure())
    )
}

pub fn results_str(r: &ValidationResults) -> String {
    let a = match r.active_manifest() {
        None => "-".to_string(),
        Some(sc) => sc_str(sc),
    };
    let d = match r.ingredient_deltas() {
        None => "-".to_string(),
        Some(v) if v.is_empty() => "[]".to_string(),
        Some(v) => v
            .iter()
            .map(|idv| format!("{}~{}", idv.ingredient_assertion_uri(), sc_str(idv.validation_deltas())))
            .collect::<Vec<_>>()
            .join("/"),
    };
    format!("A={a} D={d}")
}

struct Gen {
    known: Vec<String>,
    near: Vec<String>,
}

impl Gen {
    fn code(&self, rng: &mut Rng) -> String {
        match rng.below(10) {
            0..=4 => rng.pick(&self.known).clone(),
            5..=7 => rng.pick(&self.near).clone(),
            8 => TOLERATED.to_string(),
            _ => {
                let n = rng.range(1, 8) as usize;
                (0..n)
                    .map(|_| *rng.pick(&['a', 'b', '.', 'x', '5', '0', '9', 'c', 'w', 'g']))
                    .collect()
            }
        }
    }

    fn success_codes(&self, rng: &mut Rng) -> Vec<String> {
        let mut v = vec![];
        // mostly-valid: the three decisive codes are present with high probability
        if rng.chance(3, 4) {
            v.push("claimSignature.validated".to_string());
        }
        if rng.chance(3, 4) {
            v.push("claimSignature.insideValidity".to_string());
        }
        if rng.chance(1, 2) {
            v.push("signingCredential.trusted".to_string());
        }
        for _ in 0..rng.below(3) {
            v.push(self.code(rng));
        }
        // shuffle
        for i in (1..v.len()).rev() {
            let j = rng.below(i as u64 + 1) as usize;
            v.swap(i, j);
        }
        v
    }

    fn failure_codes(&self, rng: &mut Rng) -> Vec<String> {
        let mut v = vec![];
        match rng.below(6) {
            0 | 1 | 2 => {}
            3 => v.push(TOLERATED.to_string()),
            4 => {
                for _ in 0..rng.range(1, 3) {
                    v.push(if rng.chance(1, 2) {
                        TOLERATED.to_string()
                    } else {
                        format!("cawg.x509.{}", rng.pick(&["a", "signature.mismatch", "credential.untrusted", ""]))
                    });
                }
            }
            _ => {
                for _ in 0..rng.range(1, 3) {
                    v.push(self.code(rng));
                }
            }
        }
        v
    }

    fn status_codes(&self, rng: &mut Rng, active: bool) -> StatusCodes {
        let mut sc = StatusCodes::default();
        let succ = if active { self.success_codes(rng) } else { (0..rng.below(3)).map(|_| self.code(rng)).collect() };
        for c in succ {
            sc = sc.add_success_val(st(&c));
        }
        for _ in 0..rng.below(2) {
            sc = sc.add_informational_val(st(&self.code(rng)));
        }
        for c in self.failure_codes(rng) {
            sc = sc.add_failure_val(st(&c));
        }
        sc
    }

    fn results(&self, rng: &mut Rng) -> ValidationResults {
        let mut r = ValidationResults::default();
        if rng.chance(9, 10) {
            r = r.add_active_manifest(self.status_codes(rng, true));
        }
        let nd = match rng.below(8) {
            0..=2 => 0,
            3..=5 => 1,
            6 => 2,
            _ => 3,
        };
        for k in 0..nd {
            let uri = format!("u{}", if rng.chance(1, 6) { 0 } else { k });
            r = r.add_ingredient_delta(IngredientDeltaValidationResult::new(uri, self.status_codes(rng, false)));
        }
        // round-trip through serde half of the time: exercises the deserialisation glue
        if rng.chance(1, 2) {
            let v = serde_json::to_value(&r).expect("ser");
            r = serde_json::from_value(v).expect("de");
        }
        r
    }
}

/// The property evaluated directly on implementation data (independent of the model).
fn oracle(r: &ValidationResults, state: ValidationState) -> Option<String> {
    let tolerated = |c: &str| c == TOLERATED || c.starts_with("cawg.x509.");
    let all_fail: Vec<String> = r
        .active_manifest()
        .map(|a| a.failure().iter().map(|s| s.code().to_string()).collect::<Vec<_>>())
        .unwrap_or_default()
        .into_iter()
        .chain(
            r.ingredient_deltas()
                .map(|d| {
                    d.iter()
                        .flat_map(|i| i.validation_deltas().failure().iter().map(|s| s.code().to_string()))
                        .collect::<Vec<_>>()
                })
                .unwrap_or_default(),
        )
        .collect();
    let has = |c: &str| {
        r.active_manifest()
            .map(|a| a.success().iter().any(|s| s.code() == c))
            .unwrap_or(false)
    };
    let valid_ok = has("claimSignature.validated")
        && has("claimSignature.insideValidity")
        && all_fail.iter().all(|c| tolerated(c));
    let trusted_ok = valid_ok && has("signingCredential.trusted") && all_fail.is_empty();
    let expect = if trusted_ok {
        ValidationState::Trusted
    } else if valid_ok {
        ValidationState::Valid
    } else {
        ValidationState::Invalid
    };
    if expect != state {
        Some(format!(
            "state {} but the statement requires {} (failures: {:?})",
            state_str(state),
            state_str(expect),
            all_fail
        ))
    } else {
        None
    }
}

fn rank(s: ValidationState) -> u8 {
    match s {
        ValidationState::Invalid => 0,
        ValidationState::Valid => 1,
        ValidationState::Trusted => 2,
    }
}

pub fn run(run: &mut Run, rng: &mut Rng) {
    run.rule = "results generated mostly-valid (decisive success codes present w.p. 3/4, failures drawn from known codes ∪ near-misses ∪ tolerated ∪ random) with 0–3 deltas, then 0–4 add_status ops; a case is non-trivial when the base state or final state is not Invalid, or when a failure op hits a non-Invalid base; distinct by request text".to_string();
    let g = Gen {
        known: known_codes(),
        near: near_misses(),
    };
    run.notes.push(format!("known status codes scanned from source: {}", g.known.len()));
    let n = if run.thorough() { 400_000 } else { 30_000 };

    // exhaustive single-placement sweep: every known/near code × kind × place × 6 baselines
    let baselines: Vec<ValidationResults> = {
        let mk = |succ: &[&str], fail: &[&str], dfail: Option<&[&str]>| {
            let mut sc = StatusCodes::default();
            for c in succ {
                sc = sc.add_success_val(st(c));
            }
            for c in fail {
                sc = sc.add_failure_val(st(c));
            }
            let mut r = ValidationResults::default().add_active_manifest(sc);
            if let Some(df) = dfail {
                let mut d = StatusCodes::default();
                for c in df {
                    d = d.add_failure_val(st(c));
                }
                r = r.add_ingredient_delta(IngredientDeltaValidationResult::new("u0", d));
            }
            r
        };
        let v = "claimSignature.validated";
        let i = "claimSignature.insideValidity";
        let t = "signingCredential.trusted";
        vec![
            ValidationResults::default(),
            mk(&[v, i, t], &[], None),
            mk(&[v, i], &[], None),
            mk(&[v, i, t], &[], Some(&[])),
            mk(&[v, i], &[TOLERATED], Some(&[TOLERATED])),
            mk(&[v, t], &[], None),
            mk(&[i, t], &[], None),
            mk(&[v, i, t], &["cawg.x509.signature.mismatch"], None),
        ]
    };
    let mut all_codes = g.known.clone();
    all_codes.extend(g.near.clone());
    for base in &baselines {
        for code in &all_codes {
            for kind in ['s', 'i', 'f'] {
                for uri in ["-", "u0", "u1"] {
                    one_ops(run, base.clone(), vec![(kind, uri.to_string(), code.clone())]);
                }
            }
        }
    }
    run.count("exhaustive_single_placement");

    reader_cases(run, &g, rng);

    for _ in 0..n {
        let mut r = rng.fork();
        if r.chance(1, 12) {
            legacy(run, &g, &mut r);
            continue;
        }
        let base = g.results(&mut r);
        let nops = r.below(5) as usize;
        let ops: Vec<(char, String, String)> = (0..nops)
            .map(|_| {
                let kind = *r.pick(&['s', 'i', 'f', 'f']);
                let uri = match r.below(4) {
                    0 | 1 => "-".to_string(),
                    2 => "u0".to_string(),
                    _ => format!("u{}", r.below(4)),
                };
                let code = if kind == 'f' && r.chance(1, 3) {
                    TOLERATED.to_string()
                } else if kind == 's' && r.chance(1, 2) {
                    r.pick(&["claimSignature.validated", "claimSignature.insideValidity", "signingCredential.trusted"]).to_string()
                } else {
                    g.code(&mut r)
                };
                (kind, uri, code)
            })
            .collect();
        one_ops(run, base, ops);
    }
}

fn one_ops(run: &mut Run, base: ValidationResults, ops: Vec<(char, String, String)>) {
    let base_state = base.validation_state();
    let mut r = base.clone();
    let mut prev = base_state;
    let mut mono_fail: Option<String> = None;
    for (kind, uri, code) in &ops {
        let mut s = st(code).set_kind(kind_of(*kind));
        if uri != "-" {
            s = s.set_ingredient_uri(uri.clone());
        }
        r.add_status(s);
        let now = r.validation_state();
        let tolerated = code == TOLERATED || code.starts_with("cawg.x509.");
        if *kind == 'f' && !tolerated && now != ValidationState::Invalid {
            mono_fail = Some(format!("adding non-tolerated failure {code} gave {}", state_str(now)));
        }
        if *kind == 'f' && rank(now) > rank(prev) {
            mono_fail = Some(format!("adding failure {code} raised state {} -> {}", state_str(prev), state_str(now)));
        }
        prev = now;
    }
    let fin = r.validation_state();
    let ops_s = if ops.is_empty() {
        "-".to_string()
    } else {
        ops.iter().map(|(k, u, c)| format!("{k}:{u}:{c}")).collect::<Vec<_>>().join(";")
    };
    let req = format!("C04 ops {} ops={}", results_str(&base), ops_s);
    let imp = format!("{} {}", state_str(fin), results_str(&r));
    let nontrivial = base_state != ValidationState::Invalid || fin != ValidationState::Invalid;
    if nontrivial {
        run.nontrivial(req.clone());
    }
    run.count(&format!("final_{}", state_str(fin)));
    run.count(&format!("ops_{}", ops.len()));
    let idx = run.case(req, imp);
    if let Some(d) = oracle(&base, base_state) {
        run.fail(idx, "state-not-as-stated", format!("base: {d}"));
    }
    if let Some(d) = oracle(&r, fin) {
        run.fail(idx, "state-not-as-stated", format!("final: {d}"));
    }
    if let Some(d) = mono_fail {
        run.fail(idx, "failure-not-monotone", d);
    }
}

/// `Reader::validation_state()` on a reader that carries a results object: (a) deserialized
/// readers whose serialized `validation_state` field contradicts the results (a stale cached
/// value must not win), (b) real reads of fixtures, compared with the state of their own results.
fn reader_cases(run: &mut Run, g: &Gen, rng: &mut Rng) {
    let n = if run.thorough() { 20_000 } else { 2_000 };
    for _ in 0..n {
        let mut r = rng.fork();
        let results = g.results(&mut r);
        let stale = *r.pick(&["Invalid", "Valid", "Trusted", "-"]);
        let mut json = serde_json::json!({
            "manifests": {},
            "validation_results": serde_json::to_value(&results).expect("ser"),
        });
        if stale != "-" {
            json["validation_state"] = serde_json::Value::String(stale.to_string());
        }
        let reader: c2pa::Reader = match serde_json::from_value(json) {
            Ok(r) => r,
            Err(_) => continue,
        };
        let Some(rr) = reader.validation_results() else { continue };
        let state = reader.validation_state();
        let req = format!("C04 reader stale={} {}", stale, results_str(rr));
        let expect = rr.validation_state();
        if state != ValidationState::Invalid || expect != ValidationState::Invalid {
            run.nontrivial(req.clone());
        }
        run.count("reader_from_json");
        let idx = run.case(req, state_str(state).to_string());
        if let Some(d) = oracle(rr, state) {
            run.fail(idx, "reader-state-not-from-results", format!("Reader::validation_state (serialized field {stale}): {d}"));
        }
    }
    // real reads
    let dir = vh::common::fixtures();
    let mut files: Vec<std::path::PathBuf> = std::fs::read_dir(&dir)
        .map(|d| d.filter_map(|e| e.ok()).map(|e| e.path()).filter(|p| p.extension().map(|x| x == "jpg").unwrap_or(false)).collect())
        .unwrap_or_default();
    files.sort();
    for f in files.into_iter().take(if run.thorough() { 40 } else { 12 }) {
        let Ok(data) = std::fs::read(&f) else { continue };
        if data.len() > 600_000 {
            continue;
        }
        let res = vh::common::guarded(|| c2pa::Reader::from_context(Context::new()).with_stream("image/jpeg", std::io::Cursor::new(data)));
        if let Ok(Ok(reader)) = res {
            if let Some(rr) = reader.validation_results() {
                let state = reader.validation_state();
                // real ingredient URIs contain the protocol's separators: name them by position
                let a = rr.active_manifest().map(sc_str).unwrap_or_else(|| "-".to_string());
                let d = match rr.ingredient_deltas() {
                    None => "-".to_string(),
                    Some(v) if v.is_empty() => "[]".to_string(),
                    Some(v) => v.iter().enumerate().map(|(i, idv)| format!("u{i}~{}", sc_str(idv.validation_deltas()))).collect::<Vec<_>>().join("/"),
                };
                let req = format!("C04 reader stale=- A={a} D={d}");
                run.nontrivial(req.clone());
                run.count("reader_real_read");
                let idx = run.case(req, state_str(state).to_string());
                if let Some(d) = oracle(rr, state) {
                    run.fail(idx, "reader-state-not-from-results", format!("{}: {d}", f.display()));
                }
            }
        }
    }
}

fn legacy(run: &mut Run, g: &Gen, r: &mut Rng) {
    let trust = r.chance(1, 2);
    let status: Option<Vec<String>> = match r.below(5) {
        0 => None,
        1 => Some(vec![]),
        2 => Some(vec![TOLERATED.to_string(); r.range(1, 2) as usize]),
        _ => Some((0..r.range(1, 3)).map(|_| if r.chance(1, 2) { TOLERATED.to_string() } else { g.code(r) }).collect()),
    };
    let ctx = Context::new()
        .with_settings(serde_json::json!({"verify": {"verify_trust": trust}}).to_string().as_str())
        .expect("settings");
    let sts = status.as_ref().map(|v| v.iter().map(|c| st(c).set_kind(LogKind::Failure)).collect::<Vec<_>>());
    let reader = c2pa::verif_hooks::c04::reader_with_legacy_status(ctx, sts).expect("legacy reader");
    let state = reader.validation_state();
    let s = match &status {
        None => "-".to_string(),
        Some(v) if v.is_empty() => "[]".to_string(),
        Some(v) => v.join(","),
    };
    let req = format!("C04 legacy trust={} status={}", trust as u8, s);
    if state != ValidationState::Invalid {
        run.nontrivial(req.clone());
    }
    run.count(&format!("legacy_{}", state_str(state)));
    let idx = run.case(req, state_str(state).to_string());
    // oracle: not Invalid only if every listed code is the tolerated one
    let all_tol = status.as_ref().map(|v| v.iter().all(|c| c == TOLERATED)).unwrap_or(true);
    if (state != ValidationState::Invalid) != all_tol {
        run.fail(idx, "legacy-state", format!("legacy fallback gave {} for {:?}", state_str(state), status));
    }
    if state == ValidationState::Trusted && !trust {
        run.fail(idx, "legacy-state", "Trusted reported although trust was not verified".to_string());
    }
}
