//! C04 — validation state is derived soundly from validation codes.
//!
//! Request lines (see lean/C2paModel/Model/C04.lean):
//!   C04 ops base=<results> ops=<op;op;…|->      -> <state> <results>
//!   C04 legacy trust=<0|1> status=<-|[]|c,c,…>  -> <state>
//!   C04 fromstore active=<S> ing=<st;…|-> log=<item;…|->  -> <state> A=… D=<hexuri>~s;i;f/…
//!   C04 label uri=<S>                            -> <S>   (manifest_label_from_uri)
//! <results> = A=<-|s,s;i,i;f,f> D=<-|[]|uri~s;i;f/uri~s;i;f>
//! op = <kind s|i|f>:<uri|->:<code>
//! S = n | h<hex>;  st = <code>:<S url>:<kind>;  item = <code|->:<S err>:<kind>:<S label>:<S ingredient uri>

use c2pa::{
    status_tracker::LogKind,
    validation_results::{IngredientDeltaValidationResult, StatusCodes, ValidationResults, ValidationState},
    validation_status::ValidationStatus,
    Context,
};

use vh::common::{main_with, Rng, Run};

fn main() {
    main_with("C04", run);
}

const TOLERATED: &str = "signingCredential.untrusted";

/// Every `pub const NAME: &str = "code";` in the validation_codes module, read from
/// the current source so that new codes are exercised as soon as they exist.
pub fn known_codes() -> Vec<String> {
    let src = std::fs::read_to_string("/repo/sdk/src/validation_results.rs").unwrap_or_default();
    let mut out = vec![];
    for line in src.lines() {
        let l = line.trim();
        if l.starts_with("pub const ") && l.contains(": &str = \"") {
            if let Some(i) = l.find("= \"") {
                let rest = &l[i + 3..];
                if let Some(j) = rest.find('"') {
                    let code = &rest[..j];
                    if !code.is_empty()
                        && code
                            .chars()
                            .all(|c| c.is_ascii_alphanumeric() || "._-".contains(c))
                    {
                        out.push(code.to_string());
                    }
                }
            }
        }
    }
    out.sort();
    out.dedup();
    out
}

fn near_misses() -> Vec<String> {
    [
        "cawg.x509",
        "cawg.x509.",
        "cawg.x50",
        "cawg.x509x.y",
        "Cawg.x509.a",
        "cawg.X509.a",
        "xcawg.x509.a",
        "cawg.x509.anything",
        "cawg.identity.pad.invalid",
        "signingCredential.untrusted",
        "signingCredential.untrusted.",
        "signingcredential.untrusted",
        "signingCredential.untruste",
        "claimSignature.validated",
        "claimSignature.insideValidity",
        "claimSignature.Validated",
        "claimSignature.validated.",
        "signingCredential.trusted",
        "signingCredential.trusted2",
        "x",
        "unknown.code",
    ]
    .iter()
    .map(|s| s.to_string())
    .collect()
}

fn st(code: &str) -> ValidationStatus {
    serde_json::from_value(serde_json::json!({ "code": code })).expect("status json")
}

fn kind_of(c: char) -> LogKind {
    match c {
        's' => LogKind::Success,
        'i' => LogKind::Informational,
        _ => LogKind::Failure,
    }
}

fn state_str(s: ValidationState) -> &'static str {
    match s {
        ValidationState::Invalid => "invalid",
        ValidationState::Valid => "valid",
        ValidationState::Trusted => "trusted",
    }
}

fn codes_str(v: &[ValidationStatus]) -> String {
    v.iter().map(|s| s.code().to_string()).collect::<Vec<_>>().join(",")
}

fn sc_str(sc: &StatusCodes) -> String {
    format!(
        "{};{};{}",
        codes_str(sc.success()),
        codes_str(sc.informational()),
        codes_str(sc.failure())
    )
}

pub fn results_str(r: &ValidationResults) -> String {
    let a = match r.active_manifest() {
        None => "-".to_string(),
        Some(sc) => sc_str(sc),
    };
    let d = match r.ingredient_deltas() {
        None => "-".to_string(),
        Some(v) if v.is_empty() => "[]".to_string(),
        Some(v) => v
            .iter()
            .map(|idv| format!("{}~{}", idv.ingredient_assertion_uri(), sc_str(idv.validation_deltas())))
            .collect::<Vec<_>>()
            .join("/"),
    };
    format!("A={a} D={d}")
}

struct Gen {
    known: Vec<String>,
    near: Vec<String>,
}

impl Gen {
    fn code(&self, rng: &mut Rng) -> String {
        match rng.below(10) {
            0..=4 => rng.pick(&self.known).clone(),
            5..=7 => rng.pick(&self.near).clone(),
            8 => TOLERATED.to_string(),
            _ => {
                let n = rng.range(1, 8) as usize;
                (0..n)
                    .map(|_| *rng.pick(&['a', 'b', '.', 'x', '5', '0', '9', 'c', 'w', 'g']))
                    .collect()
            }
        }
    }

    fn success_codes(&self, rng: &mut Rng) -> Vec<String> {
        let mut v = vec![];
        // mostly-valid: the three decisive codes are present with high probability
        if rng.chance(3, 4) {
            v.push("claimSignature.validated".to_string());
        }
        if rng.chance(3, 4) {
            v.push("claimSignature.insideValidity".to_string());
        }
        if rng.chance(1, 2) {
            v.push("signingCredential.trusted".to_string());
        }
        for _ in 0..rng.below(3) {
            v.push(self.code(rng));
        }
        // shuffle
        for i in (1..v.len()).rev() {
            let j = rng.below(i as u64 + 1) as usize;
            v.swap(i, j);
        }
        v
    }

    fn failure_codes(&self, rng: &mut Rng) -> Vec<String> {
        let mut v = vec![];
        match rng.below(6) {
            0 | 1 | 2 => {}
            3 => v.push(TOLERATED.to_string()),
            4 => {
                for _ in 0..rng.range(1, 3) {
                    v.push(if rng.chance(1, 2) {
                        TOLERATED.to_string()
                    } else {
                        format!("cawg.x509.{}", rng.pick(&["a", "signature.mismatch", "credential.untrusted", ""]))
                    });
                }
            }
            _ => {
                for _ in 0..rng.range(1, 3) {
                    v.push(self.code(rng));
                }
            }
        }
        v
    }

    fn status_codes(&self, rng: &mut Rng, active: bool) -> StatusCodes {
        let mut sc = StatusCodes::default();
        let succ = if active { self.success_codes(rng) } else { (0..rng.below(3)).map(|_| self.code(rng)).collect() };
        for c in succ {
            sc = sc.add_success_val(st(&c));
        }
        for _ in 0..rng.below(2) {
            sc = sc.add_informational_val(st(&self.code(rng)));
        }
        for c in self.failure_codes(rng) {
            sc = sc.add_failure_val(st(&c));
        }
        sc
    }

    fn results(&self, rng: &mut Rng) -> ValidationResults {
        let mut r = ValidationResults::default();
        if rng.chance(9, 10) {
            r = r.add_active_manifest(self.status_codes(rng, true));
        }
        let nd = match rng.below(8) {
            0..=2 => 0,
            3..=5 => 1,
            6 => 2,
            _ => 3,
        };
        for k in 0..nd {
            let uri = format!("u{}", if rng.chance(1, 6) { 0 } else { k });
            r = r.add_ingredient_delta(IngredientDeltaValidationResult::new(uri, self.status_codes(rng, false)));
        }
        // round-trip through serde half of the time: exercises the deserialisation glue
        if rng.chance(1, 2) {
            let v = serde_json::to_value(&r).expect("ser");
            r = serde_json::from_value(v).expect("de");
        }
        r
    }
}

/// The property evaluated directly on implementation data (independent of the model).
fn oracle(r: &ValidationResults, state: ValidationState) -> Option<String> {
    let tolerated = |c: &str| c == TOLERATED || c.starts_with("cawg.x509.");
    let all_fail: Vec<String> = r
        .active_manifest()
        .map(|a| a.failure().iter().map(|s| s.code().to_string()).collect::<Vec<_>>())
        .unwrap_or_default()
        .into_iter()
        .chain(
            r.ingredient_deltas()
                .map(|d| {
                    d.iter()
                        .flat_map(|i| i.validation_deltas().failure().iter().map(|s| s.code().to_string()))
                        .collect::<Vec<_>>()
                })
                .unwrap_or_default(),
        )
        .collect();
    let has = |c: &str| {
        r.active_manifest()
            .map(|a| a.success().iter().any(|s| s.code() == c))
            .unwrap_or(false)
    };
    let valid_ok = has("claimSignature.validated")
        && has("claimSignature.insideValidity")
        && all_fail.iter().all(|c| tolerated(c));
    let trusted_ok = valid_ok && has("signingCredential.trusted") && all_fail.is_empty();
    let expect = if trusted_ok {
        ValidationState::Trusted
    } else if valid_ok {
        ValidationState::Valid
    } else {
        ValidationState::Invalid
    };
    if expect != state {
        Some(format!(
            "state {} but the statement requires {} (failures: {:?})",
            state_str(state),
            state_str(expect),
            all_fail
        ))
    } else {
        None
    }
}

fn rank(s: ValidationState) -> u8 {
    match s {
        ValidationState::Invalid => 0,
        ValidationState::Valid => 1,
        ValidationState::Trusted => 2,
    }
}

pub fn run(run: &mut Run, rng: &mut Rng) {
    run.rule = "results generated mostly-valid (decisive success codes present w.p. 3/4, failures drawn from known codes ∪ near-misses ∪ tolerated ∪ random) with 0–3 deltas, then 0–4 add_status ops; a case is non-trivial when the base state or final state is not Invalid, or when a failure op hits a non-Invalid base; from_store cases: real stores with 0–2 v3 ingredients carrying 0–3 recorded statuses, logs with the active manifest's decisive success items (mostly) plus 0–4 items (re-logged recorded statuses, ingredient-attributed decisive successes, err_val-only, codeless, failures, random), non-trivial when the state is not Invalid or a surviving non-tolerated failure item is present; distinct by request text".to_string();
    let g = Gen {
        known: known_codes(),
        near: near_misses(),
    };
    run.notes.push(format!("known status codes scanned from source: {}", g.known.len()));
    let n = if run.thorough() { 400_000 } else { 30_000 };

    // exhaustive single-placement sweep: every known/near code × kind × place × 6 baselines
    let baselines: Vec<ValidationResults> = {
        let mk = |succ: &[&str], fail: &[&str], dfail: Option<&[&str]>| {
            let mut sc = StatusCodes::default();
            for c in succ {
                sc = sc.add_success_val(st(c));
            }
            for c in fail {
                sc = sc.add_failure_val(st(c));
            }
            let mut r = ValidationResults::default().add_active_manifest(sc);
            if let Some(df) = dfail {
                let mut d = StatusCodes::default();
                for c in df {
                    d = d.add_failure_val(st(c));
                }
                r = r.add_ingredient_delta(IngredientDeltaValidationResult::new("u0", d));
            }
            r
        };
        let v = "claimSignature.validated";
        let i = "claimSignature.insideValidity";
        let t = "signingCredential.trusted";
        vec![
            ValidationResults::default(),
            mk(&[v, i, t], &[], None),
            mk(&[v, i], &[], None),
            mk(&[v, i, t], &[], Some(&[])),
            mk(&[v, i], &[TOLERATED], Some(&[TOLERATED])),
            mk(&[v, t], &[], None),
            mk(&[i, t], &[], None),
            mk(&[v, i, t], &["cawg.x509.signature.mismatch"], None),
        ]
    };
    let mut all_codes = g.known.clone();
    all_codes.extend(g.near.clone());
    for base in &baselines {
        for code in &all_codes {
            for kind in ['s', 'i', 'f'] {
                for uri in ["-", "u0", "u1"] {
                    one_ops(run, base.clone(), vec![(kind, uri.to_string(), code.clone())]);
                }
            }
        }
    }
    run.count("exhaustive_single_placement");

    reader_cases(run, &g, rng);
    legacy_fixed(run);
    from_store_cases(run, &g, rng);

    for _ in 0..n {
        let mut r = rng.fork();
        if r.chance(1, 12) {
            legacy(run, &g, &mut r);
            continue;
        }
        let base = g.results(&mut r);
        let nops = r.below(5) as usize;
        let ops: Vec<(char, String, String)> = (0..nops)
            .map(|_| {
                let kind = *r.pick(&['s', 'i', 'f', 'f']);
                let uri = match r.below(4) {
                    0 | 1 => "-".to_string(),
                    2 => "u0".to_string(),
                    _ => format!("u{}", r.below(4)),
                };
                let code = if kind == 'f' && r.chance(1, 3) {
                    TOLERATED.to_string()
                } else if kind == 's' && r.chance(1, 2) {
                    r.pick(&["claimSignature.validated", "claimSignature.insideValidity", "signingCredential.trusted"]).to_string()
                } else {
                    g.code(&mut r)
                };
                (kind, uri, code)
            })
            .collect();
        one_ops(run, base, ops);
    }
}

fn one_ops(run: &mut Run, base: ValidationResults, ops: Vec<(char, String, String)>) {
    let base_state = base.validation_state();
    let mut r = base.clone();
    let mut prev = base_state;
    let mut mono_fail: Option<String> = None;
    let mut inert_fail: Option<String> = None;
    for (kind, uri, code) in &ops {
        let mut s = st(code).set_kind(kind_of(*kind));
        if uri != "-" {
            s = s.set_ingredient_uri(uri.clone());
        }
        r.add_status(s);
        let now = r.validation_state();
        let tolerated = code == TOLERATED || code.starts_with("cawg.x509.");
        if *kind == 'f' && !tolerated && now != ValidationState::Invalid {
            mono_fail = Some(format!("adding non-tolerated failure {code} gave {}", state_str(now)));
        }
        if *kind == 'f' && rank(now) > rank(prev) {
            mono_fail = Some(format!("adding failure {code} raised state {} -> {}", state_str(prev), state_str(now)));
        }
        // inert placements: informational anywhere, success in an ingredient delta, and active
        // success codes other than the three decisive ones never change the state
        let decisive = ["claimSignature.validated", "claimSignature.insideValidity", "signingCredential.trusted"].contains(&code.as_str());
        let inert = *kind == 'i' || (*kind == 's' && (uri != "-" || !decisive));
        if inert && now != prev {
            inert_fail = Some(format!("inert status {kind}:{uri}:{code} changed state {} -> {}", state_str(prev), state_str(now)));
        }
        prev = now;
    }
    let fin = r.validation_state();
    let ops_s = if ops.is_empty() {
        "-".to_string()
    } else {
        ops.iter().map(|(k, u, c)| format!("{k}:{u}:{c}")).collect::<Vec<_>>().join(";")
    };
    let req = format!("C04 ops {} ops={}", results_str(&base), ops_s);
    let imp = format!("{} {}", state_str(fin), results_str(&r));
    let nontrivial = base_state != ValidationState::Invalid || fin != ValidationState::Invalid;
    if nontrivial {
        run.nontrivial(req.clone());
    }
    run.count(&format!("final_{}", state_str(fin)));
    run.count(&format!("ops_{}", ops.len()));
    let idx = run.case(req, imp);
    if let Some(d) = oracle(&base, base_state) {
        run.fail(idx, "state-not-as-stated", format!("base: {d}"));
    }
    if let Some(d) = oracle(&r, fin) {
        run.fail(idx, "state-not-as-stated", format!("final: {d}"));
    }
    if let Some(d) = mono_fail {
        run.fail(idx, "failure-not-monotone", d);
    }
    if let Some(d) = inert_fail {
        run.fail(idx, "inert-status-changed-state", d);
    }
}

/// `Reader::validation_state()` on a reader that carries a results object: (a) deserialized
/// readers whose serialized `validation_state` field contradicts the results (a stale cached
/// value must not win), (b) real reads of fixtures, compared with the state of their own results.
fn reader_cases(run: &mut Run, g: &Gen, rng: &mut Rng) {
    let n = if run.thorough() { 20_000 } else { 2_000 };
    for _ in 0..n {
        let mut r = rng.fork();
        let results = g.results(&mut r);
        let stale = *r.pick(&["Invalid", "Valid", "Trusted", "-"]);
        let mut json = serde_json::json!({
            "manifests": {},
            "validation_results": serde_json::to_value(&results).expect("ser"),
        });
        if stale != "-" {
            json["validation_state"] = serde_json::Value::String(stale.to_string());
        }
        let reader: c2pa::Reader = match serde_json::from_value(json) {
            Ok(r) => r,
            Err(_) => continue,
        };
        let Some(rr) = reader.validation_results() else { continue };
        let state = reader.validation_state();
        let req = format!("C04 reader stale={} {}", stale, results_str(rr));
        let expect = rr.validation_state();
        if state != ValidationState::Invalid || expect != ValidationState::Invalid {
            run.nontrivial(req.clone());
        }
        run.count("reader_from_json");
        let idx = run.case(req, state_str(state).to_string());
        if let Some(d) = oracle(rr, state) {
            run.fail(idx, "reader-state-not-from-results", format!("Reader::validation_state (serialized field {stale}): {d}"));
        }
    }
    // real reads
    let dir = vh::common::fixtures();
    let mut files: Vec<std::path::PathBuf> = std::fs::read_dir(&dir)
        .map(|d| d.filter_map(|e| e.ok()).map(|e| e.path()).filter(|p| p.extension().map(|x| x == "jpg").unwrap_or(false)).collect())
        .unwrap_or_default();
    files.sort();
    for f in files.into_iter().take(if run.thorough() { 40 } else { 12 }) {
        let Ok(data) = std::fs::read(&f) else { continue };
        if data.len() > 600_000 {
            continue;
        }
        let res = vh::common::guarded(|| c2pa::Reader::from_context(Context::new()).with_stream("image/jpeg", std::io::Cursor::new(data)));
        if let Ok(Ok(reader)) = res {
            if let Some(rr) = reader.validation_results() {
                let state = reader.validation_state();
                // real ingredient URIs contain the protocol's separators: name them by position
                let a = rr.active_manifest().map(sc_str).unwrap_or_else(|| "-".to_string());
                let d = match rr.ingredient_deltas() {
                    None => "-".to_string(),
                    Some(v) if v.is_empty() => "[]".to_string(),
                    Some(v) => v.iter().enumerate().map(|(i, idv)| format!("u{i}~{}", sc_str(idv.validation_deltas()))).collect::<Vec<_>>().join("/"),
                };
                let req = format!("C04 reader stale=- A={a} D={d}");
                run.nontrivial(req.clone());
                run.count("reader_real_read");
                let idx = run.case(req, state_str(state).to_string());
                if let Some(d) = oracle(rr, state) {
                    run.fail(idx, "reader-state-not-from-results", format!("{}: {d}", f.display()));
                }
            }
        }
    }
}

fn legacy(run: &mut Run, g: &Gen, r: &mut Rng) {
    let trust = r.chance(1, 2);
    let status: Option<Vec<String>> = match r.below(5) {
        0 => None,
        1 => Some(vec![]),
        2 => Some(vec![TOLERATED.to_string(); r.range(1, 2) as usize]),
        _ => Some((0..r.range(1, 3)).map(|_| if r.chance(1, 2) { TOLERATED.to_string() } else { g.code(r) }).collect()),
    };
    legacy_one(run, trust, status);
}

fn legacy_one(run: &mut Run, trust: bool, status: Option<Vec<String>>) {
    let ctx = Context::new()
        .with_settings(serde_json::json!({"verify": {"verify_trust": trust}}).to_string().as_str())
        .expect("settings");
    let sts = status.as_ref().map(|v| v.iter().map(|c| st(c).set_kind(LogKind::Failure)).collect::<Vec<_>>());
    let reader = c2pa::verif_hooks::c04::reader_with_legacy_status(ctx, sts).expect("legacy reader");
    let state = reader.validation_state();
    let s = match &status {
        None => "-".to_string(),
        Some(v) if v.is_empty() => "[]".to_string(),
        Some(v) => v.join(","),
    };
    let req = format!("C04 legacy trust={} status={}", trust as u8, s);
    if state != ValidationState::Invalid {
        run.nontrivial(req.clone());
    }
    run.count(&format!("legacy_{}", state_str(state)));
    let idx = run.case(req, state_str(state).to_string());
    // oracle: not Invalid only if every listed code is the tolerated one
    let all_tol = status.as_ref().map(|v| v.iter().all(|c| c == TOLERATED)).unwrap_or(true);
    if (state != ValidationState::Invalid) != all_tol {
        run.fail(idx, "legacy-state", format!("legacy fallback gave {} for {:?}", state_str(state), status));
    }
    if state == ValidationState::Trusted && !trust {
        run.fail(idx, "legacy-state", "Trusted reported although trust was not verified".to_string());
    }
    // "Trusted only if … there are no failures at all": the legacy list holds the failures
    let no_failures = status.as_ref().map(|v| v.is_empty()).unwrap_or(true);
    if state == ValidationState::Trusted && !no_failures {
        run.fail(idx, "legacy-trusted-with-failure", format!("legacy fallback gave Trusted although the list holds failures {:?}", status));
    }
    if state != ValidationState::Trusted && trust && no_failures {
        run.fail(idx, "legacy-state", format!("legacy fallback gave {} for trust verified and no failure", state_str(state)));
    }
}

/// the decisive legacy inputs, always present (the random stream reaches them only by chance)
fn legacy_fixed(run: &mut Run) {
    for trust in [false, true] {
        for status in [None, Some(vec![]), Some(vec![TOLERATED.to_string()]), Some(vec![TOLERATED.to_string(); 2]),
                       Some(vec!["assertion.dataHash.mismatch".to_string()]), Some(vec![TOLERATED.to_string(), "general.error".to_string()])] {
            legacy_one(run, trust, status);
        }
    }
}

// ---------------------------------------------------------------------------------------------
// from_store: real `Store` (unsigned claims, built through the c19/c20 hooks) + synthetic
// validation log -> `ValidationResults::from_store`; the model receives the abstraction
// (provenance label, flattened ingredient statuses) and the same log.

use c2pa::verif_hooks::{c19 as hk19, c20 as hk20, c34 as hk34};

fn hx(s: &str) -> String {
    let mut o = String::from("h");
    for b in s.bytes() {
        o.push_str(&format!("{b:02x}"));
    }
    o
}

fn hx_opt(s: Option<&str>) -> String {
    s.map(hx).unwrap_or_else(|| "n".to_string())
}

fn urn(tag: u32) -> String {
    format!("urn:c2pa:{:08x}-0000-4000-8000-000000000000", tag)
}

fn kind_char(k: &LogKind) -> char {
    match k {
        LogKind::Success => 's',
        LogKind::Informational => 'i',
        LogKind::Failure => 'f',
    }
}

struct Item {
    status: Option<String>,
    err: Option<String>,
    kind: char,
    label: String,
    ing_uri: Option<String>,
}

pub fn results_str_hex(r: &ValidationResults) -> String {
    let a = match r.active_manifest() {
        None => "-".to_string(),
        Some(sc) => sc_str(sc),
    };
    let d = match r.ingredient_deltas() {
        None => "-".to_string(),
        Some(v) if v.is_empty() => "[]".to_string(),
        Some(v) => v
            .iter()
            .map(|idv| format!("{}~{}", &hx(idv.ingredient_assertion_uri())[1..], sc_str(idv.validation_deltas())))
            .collect::<Vec<_>>()
            .join("/"),
    };
    format!("A={a} D={d}")
}

/// One from_store case. `ings` = per ingredient (manifest label, recorded statuses (code, url)).
fn from_store_one(run: &mut Run, active: Option<u32>, ings: &[(String, Vec<(String, Option<String>)>)], items: &[Item]) {
    let mut store = hk19::Store::new();
    let mut abs_ing: Vec<(String, Option<String>, char)> = vec![];
    let active_label = active.map(urn);
    if let Some(label) = &active_label {
        let Ok(mut claim) = hk19::Claim::new_with_user_guid("verif", label, 2) else { return };
        for (ilabel, sts) in ings {
            // recorded statuses go to the ingredient's validation results by their kind
            let mut vr = ValidationResults::default();
            for (code, url) in sts {
                let k = c2pa::validation_results::validation_codes::log_kind(code);
                let mut v = st(code).set_kind(k);
                if let Some(u) = url {
                    v = v.set_url(u.clone());
                }
                vr.add_status(v);
            }
            // the abstraction follows validation_status(): active success, informational, failure
            for k in ['s', 'i', 'f'] {
                for (code, url) in sts {
                    let kk = kind_char(&c2pa::validation_results::validation_codes::log_kind(code));
                    if kk == k {
                        // get_statuses: relative urls ("self#jumbf…") are made absolute with the ingredient's manifest label
                        let abs = url.as_ref().map(|u| if u.starts_with("self#jumbf") { hk34::to_absolute_uri(ilabel, u) } else { u.clone() });
                        abs_ing.push((code.clone(), abs, kk));
                    }
                }
            }
            let am = c2pa::HashedUri::new(hk19::to_manifest_uri(ilabel), Some("sha256".to_string()), &[7u8; 32]);
            if hk20::claim_add_ingredient_v3(&mut claim, c2pa::Relationship::ComponentOf, Some(am), None, Some(vr)).is_err() {
                return;
            }
        }
        hk19::store_insert_restored_claim(&mut store, label.clone(), claim);
    }
    let mut log = c2pa::status_tracker::StatusTracker::default();
    for it in items {
        let li = c2pa::status_tracker::LogItem {
            kind: kind_of(it.kind),
            label: std::borrow::Cow::Owned(it.label.clone()),
            description: std::borrow::Cow::Borrowed("verif"),
            err_val: it.err.clone().map(std::borrow::Cow::Owned),
            validation_status: it.status.clone().map(std::borrow::Cow::Owned),
            ingredient_uri: it.ing_uri.clone().map(std::borrow::Cow::Owned),
            ..Default::default()
        };
        log.add_non_error(li);
    }
    let res = vh::common::guarded(std::panic::AssertUnwindSafe(|| c2pa::verif_hooks::c04::results_from_store(&store, &log)));
    let ing_s = if abs_ing.is_empty() {
        "-".to_string()
    } else {
        abs_ing.iter().map(|(c, u, k)| format!("{c}:{}:{k}", hx_opt(u.as_deref()))).collect::<Vec<_>>().join(";")
    };
    let log_s = if items.is_empty() {
        "-".to_string()
    } else {
        items
            .iter()
            .map(|i| format!("{}:{}:{}:{}:{}", i.status.clone().unwrap_or_else(|| "-".to_string()), hx_opt(i.err.as_deref()), i.kind, hx(&i.label), hx_opt(i.ing_uri.as_deref())))
            .collect::<Vec<_>>()
            .join(";")
    };
    let req = format!("C04 fromstore active={} ing={} log={}", hx_opt(active_label.as_deref()), ing_s, log_s);
    let r = match res {
        Ok(r) => r,
        Err(_) => {
            let idx = run.case(req, "panic".to_string());
            run.fail(idx, "panic", "from_store panicked".to_string());
            return;
        }
    };
    let state = r.validation_state();
    run.count(&format!("fromstore_{}", state_str(state)));
    let imp = format!("{} {}", state_str(state), results_str_hex(&r));
    // ---- oracle on the implementation, from the log alone ----
    let tolerated = |c: &str| c == TOLERATED || c.starts_with("cawg.x509.");
    let is_active = |u: &str| active_label.is_some() && hk34::manifest_label_from_uri(u) == active_label;
    let recorded = |code: &str, url: &str, kind: char| abs_ing.iter().any(|(c, u, k)| c == code && u.as_deref() == Some(url) && *k == kind);
    let mut fails: Vec<(&'static str, String)> = vec![];
    let mut some_surviving_failure = false;
    for it in items {
        // the status this item must yield: (code, kind, ingredient uri)
        let (code, kind, iu): (String, char, Option<&str>) = match (&it.status, &it.err) {
            (Some(c), _) => (c.clone(), it.kind, it.ing_uri.as_deref()),
            (None, Some(_)) => (String::new(), 'f', None),
            (None, None) => continue,
        };
        if kind != 'f' || active_label.is_none() {
            continue;
        }
        let by_err = it.status.is_none();
        // retain predicate (after fixes/C20-from-store-active-claim-status-filter.patch): no ingredient uri, or about the
        // active manifest, or not recorded in an ingredient assertion
        let survives = iu.is_none() || is_active(&it.label) || !recorded(&code, &it.label, 'f');
        if by_err {
            // an err_val-only item (it never has an ingredient uri after from_log_item) must always be an
            // active failure with a non-tolerated code
            {
                some_surviving_failure = true;
                let n = r.active_manifest().map(|a| a.failure().iter().filter(|s| !tolerated(s.code()) && s.url() == Some(it.label.as_str())).count()).unwrap_or(0);
                if n == 0 {
                    fails.push(("store-failure-item-lost", format!("err_val-only item {:?} at {} left no non-tolerated active failure", it.err, it.label)));
                }
            }
            continue;
        }
        if !survives {
            continue;
        }
        some_surviving_failure |= !tolerated(&code);
        let placed = match iu {
            None => r.active_manifest().map(|a| a.failure().iter().any(|s| s.code() == code)).unwrap_or(false),
            Some(u) => r
                .ingredient_deltas()
                .map(|d| d.iter().any(|idv| idv.ingredient_assertion_uri() == u && idv.validation_deltas().failure().iter().any(|s| s.code() == code)))
                .unwrap_or(false),
        };
        if !placed {
            fails.push(("store-failure-item-lost", format!("failure item {code} at {} (ingredient uri {:?}) is not in the failure list its uri designates", it.label, iu)));
        }
    }
    let n_filtered = items
        .iter()
        .filter(|i| active_label.is_some() && i.status.is_some() && i.ing_uri.is_some() && !is_active(&i.label) && recorded(i.status.as_deref().unwrap_or(""), &i.label, i.kind))
        .count();
    if n_filtered > 0 {
        run.count("fromstore_with_item_filtered_as_recorded_in_ingredient");
    }
    if items.iter().any(|i| i.status.is_none() && i.err.is_some()) {
        run.count("fromstore_with_err_val_only_item");
    }
    if items.iter().any(|i| i.status.is_none() && i.err.is_none()) {
        run.count("fromstore_with_codeless_item");
    }
    if r.ingredient_deltas().map(|d| !d.is_empty()).unwrap_or(false) {
        run.count("fromstore_with_delta");
    }
    if some_surviving_failure && state != ValidationState::Invalid {
        fails.push(("store-failure-item-lost", format!("a non-tolerated failure item about the active manifest / not recorded in an ingredient is in the log but the state is {}", state_str(state))));
    }
    if state != ValidationState::Invalid {
        for need in ["claimSignature.validated", "claimSignature.insideValidity"] {
            if !items.iter().any(|i| i.status.as_deref() == Some(need) && i.kind == 's' && i.ing_uri.is_none()) {
                fails.push(("store-valid-without-own-signature", format!("state {} but the log has no success item {need} of the active manifest", state_str(state))));
            }
        }
    }
    if state == ValidationState::Trusted
        && !items.iter().any(|i| i.status.as_deref() == Some("signingCredential.trusted") && i.kind == 's' && i.ing_uri.is_none())
    {
        fails.push(("store-valid-without-own-signature", "Trusted but the log has no success item signingCredential.trusted of the active manifest".to_string()));
    }
    if active_label.is_none() && (state != ValidationState::Invalid || r.active_manifest().is_some()) {
        fails.push(("store-no-provenance", "no provenance claim but results are not empty/Invalid".to_string()));
    }
    if active_label.is_some() && r.active_manifest().is_none() {
        fails.push(("store-no-active-manifest", "provenance claim present but activeManifest absent".to_string()));
    }
    if let Some(d) = oracle(&r, state) {
        fails.push(("state-not-as-stated", format!("from_store: {d}")));
    }
    if state != ValidationState::Invalid || some_surviving_failure {
        run.nontrivial(req.clone());
    }
    let idx = run.case(req, imp);
    for (c, d) in fails {
        run.fail(idx, c, d);
    }
}

fn from_store_cases(run: &mut Run, g: &Gen, rng: &mut Rng) {
    let n = if run.thorough() { 60_000 } else { 4_000 };
    let sig = |l: &str| hk19::to_signature_uri(l);
    let asrt = |l: &str, a: &str| hk19::to_assertion_uri(l, a);
    let fail_codes = ["assertion.dataHash.mismatch", "assertion.hashedURI.mismatch", "claimSignature.mismatch", "general.error",
                      "signingCredential.untrusted", "cawg.x509.credential.untrusted", "cawg.ica.untrusted_issuer", "ingredient.manifest.missing",
                      "timeStamp.mismatch", "signingCredential.expired"];
    for _ in 0..n {
        let mut r = rng.fork();
        let active = if r.chance(1, 25) { None } else { Some(1u32) };
        let al = urn(1);
        let n_ing = r.below(3) as usize;
        let ing_labels: Vec<String> = (0..n_ing).map(|k| urn(2 + k as u32)).collect();
        // url pool: active-manifest urls, ingredient-manifest urls, relative urls, junk
        let url = |r: &mut Rng| -> String {
            match r.below(12) {
                0..=3 => sig(&al),
                4 => asrt(&al, "c2pa.hash.data"),
                5 | 6 if n_ing > 0 => sig(&ing_labels[r.below(n_ing as u64) as usize]),
                7 | 8 if n_ing > 0 => asrt(&ing_labels[r.below(n_ing as u64) as usize], "c2pa.hash.data"),
                9 => "self#jumbf=c2pa.assertions/c2pa.hash.data".to_string(),
                10 => r.pick(&["Cose_Sign1", "", "c2pa/x", "self#jumbf=/c2pa", "a=b=c", "/c2pa/", "self#jumbf=/C2PA/x/y"]).to_string(),
                _ => asrt(&urn(9), "c2pa.actions"),
            }
        };
        let mut ings: Vec<(String, Vec<(String, Option<String>)>)> = vec![];
        for l in &ing_labels {
            let k = r.below(4) as usize;
            let mut sts = vec![];
            for _ in 0..k {
                let code = if r.chance(2, 3) { r.pick(&fail_codes).to_string() } else { g.code(&mut r) };
                let u = match r.below(6) {
                    0 => None,
                    1 => Some("self#jumbf=c2pa.assertions/c2pa.hash.data".to_string()),
                    2 => Some("self#jumbf=c2pa.signature".to_string()),
                    _ => Some(url(&mut r)),
                };
                sts.push((code, u));
            }
            ings.push((l.clone(), sts));
        }
        let ing_uri = |r: &mut Rng| -> Option<String> {
            if n_ing > 0 && r.chance(2, 3) { Some(asrt(&al, &format!("c2pa.ingredient.v3__{}", r.below(3)))) } else if r.chance(1, 6) { Some("x".to_string()) } else { None }
        };
        let mut items: Vec<Item> = vec![];
        if r.chance(5, 6) {
            for c in ["claimSignature.validated", "claimSignature.insideValidity"] {
                if r.chance(9, 10) {
                    items.push(Item { status: Some(c.to_string()), err: None, kind: 's', label: sig(&al), ing_uri: None });
                }
            }
            if r.chance(1, 2) {
                items.push(Item { status: Some("signingCredential.trusted".to_string()), err: None, kind: 's', label: sig(&al), ing_uri: None });
            }
        }
        for _ in 0..r.below(5) {
            let it = match r.below(10) {
                // a failure that an ingredient already recorded (same code + url): must be filtered unless about the active manifest
                0 | 1 if ings.iter().any(|(_, s)| !s.is_empty()) => {
                    let (il, sts) = r.pick(&ings.iter().filter(|(_, s)| !s.is_empty()).cloned().collect::<Vec<_>>()).clone();
                    let (c, u) = r.pick(&sts).clone();
                    let u = u.map(|u| if u.starts_with("self#jumbf") { hk34::to_absolute_uri(&il, &u) } else { u }).unwrap_or_else(|| sig(&il));
                    let k = if r.chance(4, 5) { kind_char(&c2pa::validation_results::validation_codes::log_kind(&c)) } else { 'f' };
                    Item { status: Some(c), err: None, kind: k, label: u, ing_uri: ing_uri(&mut r) }
                }
                // ingredient successes that would be decisive if they reached the active manifest
                2 => Item { status: Some(r.pick(&["claimSignature.validated", "claimSignature.insideValidity", "signingCredential.trusted"]).to_string()), err: None, kind: 's',
                            label: if n_ing > 0 { sig(&ing_labels[0]) } else { sig(&urn(9)) }, ing_uri: Some(asrt(&al, "c2pa.ingredient.v3")) },
                // err_val-only and codeless items
                3 => Item { status: None, err: Some(r.pick(&["ClaimMissing", "ClaimMissing { label }", "AssertionMissing { url }", "AssertionDecoding(x)", "HashMismatch(\"d\")", "RemoteManifestFetch(u)", "PrereleaseError", "OtherError", "", "hashMismatch"]).to_string()),
                            kind: *r.pick(&['f', 'f', 's', 'i']), label: url(&mut r), ing_uri: ing_uri(&mut r) },
                4 => Item { status: None, err: None, kind: *r.pick(&['f', 'f', 's', 'i']), label: url(&mut r), ing_uri: ing_uri(&mut r) },
                5 | 6 => Item { status: Some(r.pick(&fail_codes).to_string()), err: if r.chance(1, 3) { Some("HashMismatch(x)".to_string()) } else { None }, kind: 'f', label: url(&mut r), ing_uri: ing_uri(&mut r) },
                _ => Item { status: Some(g.code(&mut r)), err: None, kind: *r.pick(&['s', 'i', 'f']), label: url(&mut r), ing_uri: ing_uri(&mut r) },
            };
            items.push(it);
        }
        // shuffle
        for i in (1..items.len()).rev() {
            let j = r.below(i as u64 + 1) as usize;
            items.swap(i, j);
        }
        from_store_one(run, active, &ings, &items);
    }
    run.count("from_store_cases");
    // manifest_label_from_uri on the url shapes used above and on junk
    let shapes = ["", "c2pa", "c2pa/", "c2pa/x", "/c2pa/x", "self#jumbf=/c2pa/x/y", "self#jumbf=c2pa/x", "a=b=c2pa/q", "a=c2pa/q/r=s", "=", "==", "/", "//", "x/c2pa/y",
                  "self#jumbf=/C2PA/x", "Cose_Sign1", "self#jumbf=c2pa.assertions/c2pa.hash.data", "self#jumbf=/c2pa/urn:c2pa:1/c2pa.assertions/a"];
    for u in shapes.iter().map(|s| s.to_string()).chain((0..if run.thorough() { 20_000 } else { 2_000 }).map(|_| {
        let n = rng.below(14) as usize;
        (0..n).map(|_| *rng.pick(&["/", "=", "c2pa", "c2pa/", "x", "self#jumbf", "urn:c2pa:1", ".", "a"])).collect::<String>()
    })) {
        let got = vh::common::guarded(|| hk34::manifest_label_from_uri(&u));
        let req = format!("C04 label uri={}", hx(&u));
        match got {
            Ok(l) => {
                if l.is_some() {
                    run.nontrivial(req.clone());
                }
                run.case(req, hx_opt(l.as_deref()));
            }
            Err(_) => {
                let idx = run.case(req, "panic".to_string());
                run.fail(idx, "panic", format!("manifest_label_from_uri panicked on {u:?}"));
            }
        }
    }
}
