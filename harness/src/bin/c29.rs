//! C29 — resource files are confined to the manifest directory.
//!
//! Request lines (see lean/C2paModel/Model/C29.lean), every string hex-encoded:
//!   C29 sanitize   p=<str>                         -> ok:<str> | bad
//!   C29 uri        uri=<str> label=<str|none>      -> ok:<str> | bad
//!   C29 archive    name=<str> am=<str|none>,…      -> ignored | ok:<store>=<key>+… | bad   (Builder::with_archive;
//!                                                     store = b (builder) | <ingredient index>; am = active_manifest per ingredient)
//!   C29 export     claim=<str> label=<str>         -> ok:<rel path> | bad        (Reader::to_folder)
//!   C29 normalize  p=<str>                         -> <str>
//!   C29 components p=<str>                         -> R|C|P|N<str>,…       (std::path, trusted base)
//!   C29 parent     p=<str>                         -> none | some:<str>    (std::path, trusted base)
//!   C29 <fsop> <ctx> id=<str> [data=<str>]
//!     <ctx>  = pre=<case dir> cwd=<dir> tree=<node;node…|-> base=<str> root=<str|none> mem=<id>:<bytes>,…|-
//!     node   = d:<rel>:- | f:<rel>:<content> | l:<rel>:<target>      (rel to the case dir)
//!     fsop   = canon   -> none | some:<abs>                      (fs::canonicalize, trusted base)
//!              resolve -> ok:<str> | bad | io                    (resolve_within_root)
//!              get     -> found:<content> | nf:<payload of ResourceNotFound>
//!              ws      -> ok:<content> | nf | io
//!              exists  -> true | false
//!              pfi     -> none | some:<str>
//!              add     -> ok|bad|io diff=<abs>=<d|f:content|l:target>,… | -
//!              tofolder claim=<str> label=<str> data=<str>      (Reader::to_folder(base); the contents of
//!                         manifest_store.json / manifest_data.c2pa are canonicalised to "J" / "C")
//!                      -> ok|bad|io diff=…
//!
//! The trees are created for real below `common::scratch`; the tree description sent to the
//! model is a snapshot of what is on disk immediately before the operation.
//!
//! Sandbox rule: every file-system case runs inside its own *case area* below the scratch
//! directory, and before the implementation is called `stays_in` walks the path a check-free
//! implementation would use (`base.join(id)`, following the links of the tree like the kernel):
//! a case is only run when even that path — every directory it would create and the final node —
//! lies inside the case area. An escape is therefore always visible in the snapshot of the case
//! area and can never touch anything outside the scratch directory, also when the code under
//! test is broken (mutation runs).

use std::{
    collections::BTreeMap,
    ffi::OsStr,
    fs,
    io::Cursor,
    os::unix::{ffi::OsStrExt, fs::symlink},
    path::{Component, Path, PathBuf},
};

use c2pa::{verif_hooks::c29 as hk, Error, ResourceStore};
use vh::common::{guarded, hex, main_with, scratch, Rng, Run};

fn main() {
    main_with("C29", run);
}

#[derive(Clone, PartialEq, Eq, Debug)]
enum Node {
    Dir,
    File(Vec<u8>),
    Link(Vec<u8>),
}

/// physical snapshot of a directory: path relative to it (bytes) -> node; links not followed
type Snap = BTreeMap<Vec<u8>, Node>;

fn snap_into(dir: &Path, rel: &[u8], out: &mut Snap) {
    let Ok(rd) = fs::read_dir(dir) else { return };
    for e in rd.flatten() {
        let name = e.file_name();
        let mut r = rel.to_vec();
        if !r.is_empty() {
            r.push(b'/');
        }
        r.extend_from_slice(name.as_bytes());
        let p = e.path();
        let Ok(md) = fs::symlink_metadata(&p) else { continue };
        if md.file_type().is_symlink() {
            let t = fs::read_link(&p).map(|t| t.as_os_str().as_bytes().to_vec()).unwrap_or_default();
            out.insert(r, Node::Link(t));
        } else if md.is_dir() {
            out.insert(r.clone(), Node::Dir);
            snap_into(&p, &r, out);
        } else {
            out.insert(r, Node::File(fs::read(&p).unwrap_or_default()));
        }
    }
}

fn snapshot(dir: &Path) -> Snap {
    let mut s = Snap::new();
    snap_into(dir, b"", &mut s);
    s
}

fn node_str(n: &Node) -> String {
    match n {
        Node::Dir => "d".to_string(),
        Node::File(c) => format!("f:{}", hex(c)),
        Node::Link(t) => format!("l:{}", hex(t)),
    }
}

fn tree_desc(s: &Snap) -> String {
    if s.is_empty() {
        return "-".to_string();
    }
    s.iter()
        .map(|(k, n)| match n {
            Node::Dir => format!("d:{}:-", hex(k)),
            Node::File(c) => format!("f:{}:{}", hex(k), hex(c)),
            Node::Link(t) => format!("l:{}:{}", hex(k), hex(t)),
        })
        .collect::<Vec<_>>()
        .join(";")
}

fn pb(b: &[u8]) -> PathBuf {
    PathBuf::from(OsStr::from_bytes(b))
}

fn bytes(p: &Path) -> Vec<u8> {
    p.as_os_str().as_bytes().to_vec()
}

/// hex, with `-` for the empty string (the model's `hx`)
fn hx(b: &[u8]) -> String {
    if b.is_empty() {
        "-".to_string()
    } else {
        hex(b)
    }
}

/// The sandbox guard. Where would `path` (relative paths start at `cwd`) lead a check-free
/// `create_dir_all(parent)` + `write`, following the symbolic links of the tree the way the kernel
/// does (names that do not exist are taken as they would be created)? `true` iff every step of the
/// way is an ancestor of `area` or inside it, and the end is inside `area`. Independent of the
/// code under test.
fn stays_in(area: &Path, cwd: &Path, path: &[u8]) -> bool {
    use std::collections::VecDeque;
    let comps = |b: &[u8]| -> Vec<Vec<u8>> {
        b.split(|c| *c == b'/').filter(|s| !s.is_empty() && *s != b".").map(|s| s.to_vec()).collect()
    };
    let mut cur: PathBuf = if path.first() == Some(&b'/') { PathBuf::from("/") } else { cwd.to_path_buf() };
    let mut pending: VecDeque<Vec<u8>> = comps(path).into();
    let mut links = 0;
    let ok_here = |c: &Path| c.starts_with(area) || area.starts_with(c);
    if !ok_here(&cur) {
        return false;
    }
    while let Some(c) = pending.pop_front() {
        if c == b".." {
            cur.pop();
        } else {
            let next = cur.join(pb(&c));
            match fs::symlink_metadata(&next) {
                Ok(md) if md.file_type().is_symlink() => {
                    links += 1;
                    if links > 40 {
                        return true; // ELOOP for the kernel too: nothing is reached through this path
                    }
                    let t = fs::read_link(&next).map(|t| bytes(&t)).unwrap_or_default();
                    if t.first() == Some(&b'/') {
                        cur = PathBuf::from("/");
                    }
                    for x in comps(&t).into_iter().rev() {
                        pending.push_front(x);
                    }
                }
                Ok(md) if md.is_dir() => cur = next,
                Ok(_) => {
                    // a regular file: overwritten if it is the end of the path, ENOTDIR otherwise
                    return next.starts_with(area);
                }
                Err(_) => {
                    // does not exist: would be created
                    if !next.starts_with(area) {
                        return false;
                    }
                    cur = next;
                }
            }
        }
        if !ok_here(&cur) {
            return false;
        }
    }
    cur.starts_with(area)
}

/// One configured store over one case directory.
#[derive(Clone)]
struct Cfg {
    /// everything the write oracle watches (contains `d`)
    area: PathBuf,
    d: PathBuf,
    base: Vec<u8>,
    root: Option<Vec<u8>>,
    kind: &'static str,
    /// resources put into the in-memory map before the base path is set
    mem: Vec<(String, Vec<u8>)>,
}

impl Cfg {
    fn store(&self) -> ResourceStore {
        let mut rs = ResourceStore::new();
        for (k, v) in &self.mem {
            // no base path yet: goes to the in-memory map, whatever the identifier looks like
            let _ = rs.add(k.clone(), v.clone());
        }
        rs.set_base_path(pb(&self.base));
        if let Some(r) = &self.root {
            rs.set_resource_root(pb(r));
        }
        rs
    }

    fn root_path(&self) -> PathBuf {
        pb(self.root.as_ref().unwrap_or(&self.base))
    }

    fn ctx(&self, snap: &Snap) -> String {
        // `snap` is a snapshot of `self.area`
        // (the map is a HashMap keyed by identifier: a later entry with the same identifier
        // replaces the earlier one; `gen_mem` never repeats an identifier)
        let mem = if self.mem.is_empty() {
            "-".to_string()
        } else {
            self.mem.iter().map(|(k, v)| format!("{}:{}", hx(k.as_bytes()), hx(v))).collect::<Vec<_>>().join(",")
        };
        format!(
            "pre={} cwd={} tree={} base={} root={} mem={}",
            hex(&bytes(&self.area)),
            hex(&bytes(&self.d)),
            tree_desc(snap),
            hex(&self.base),
            self.root.as_ref().map(|r| hex(r)).unwrap_or_else(|| "none".to_string()),
            mem
        )
    }
}

const NAMES: &[&str] = &["a", "b", "c", "f", "g", "k"];

struct Tree {
    /// relative paths (to the case dir) of directories, per side
    dirs: Vec<String>,
    files: Vec<String>,
    links: Vec<String>,
}

fn rel_from(from_dir: &str, to: &str) -> String {
    // relative path from directory `from_dir` to `to` (both relative to the case dir, clean)
    let f: Vec<&str> = from_dir.split('/').filter(|s| !s.is_empty()).collect();
    let t: Vec<&str> = to.split('/').filter(|s| !s.is_empty()).collect();
    let mut i = 0;
    while i < f.len() && i < t.len() && f[i] == t[i] {
        i += 1;
    }
    let mut parts: Vec<String> = vec!["..".to_string(); f.len() - i];
    parts.extend(t[i..].iter().map(|s| s.to_string()));
    if parts.is_empty() {
        ".".to_string()
    } else {
        parts.join("/")
    }
}

fn gen_tree(rng: &mut Rng, d: &Path, counter: &mut u64) -> Tree {
    let mut t = Tree { dirs: vec!["root".into(), "out".into()], files: vec![], links: vec![] };
    fs::create_dir_all(d.join("root")).unwrap();
    fs::create_dir_all(d.join("out")).unwrap();
    // a sentinel is always there
    fs::write(d.join("out/s"), b"SENTINEL-s").unwrap();
    t.files.push("out/s".into());
    let n = rng.range(2, 11);
    for _ in 0..n {
        let inside = rng.chance(2, 3);
        let side = if inside { "root" } else { "out" };
        let parents: Vec<String> =
            t.dirs.iter().filter(|p| p.as_str() == side || p.starts_with(&format!("{side}/"))).cloned().collect();
        let parent = rng.pick(&parents).clone();
        let name = *rng.pick(NAMES);
        let rel = format!("{parent}/{name}");
        if fs::symlink_metadata(d.join(&rel)).is_ok() {
            continue;
        }
        *counter += 1;
        match rng.below(10) {
            0..=2 => {
                fs::create_dir(d.join(&rel)).unwrap();
                t.dirs.push(rel);
            }
            3..=5 => {
                let content = if inside { format!("inside-{counter}") } else { format!("SENTINEL-{counter}") };
                fs::write(d.join(&rel), content).unwrap();
                t.files.push(rel);
            }
            _ => {
                let all: Vec<String> = t.dirs.iter().chain(t.files.iter()).chain(t.links.iter()).cloned().collect();
                let other_side: Vec<String> = all
                    .iter()
                    .filter(|p| inside != (p.as_str() == "root" || p.starts_with("root/")))
                    .cloned()
                    .collect();
                let dabs = |r: &str| format!("{}/{}", d.display(), r);
                let target: String = match rng.below(16) {
                    0..=2 => dabs(rng.pick(&other_side).as_str()),
                    3 | 4 => dabs(rng.pick(&all).as_str()),
                    5..=7 => rel_from(&parent, rng.pick(&all).as_str()),
                    8 => rel_from(&parent, rng.pick(&other_side).as_str()),
                    9 => {
                        // dangling, outside or inside
                        let s = *rng.pick(&["out", "root", "out/nx"]);
                        if rng.chance(1, 2) { dabs(&format!("{s}/n{}", rng.below(3))) } else { rel_from(&parent, &format!("{s}/n{}", rng.below(3))) }
                    }
                    10 => (*rng.pick(NAMES)).to_string(), // sibling: chain, loop or dangling
                    11 => name.to_string(),               // self loop
                    // (never further up than three levels: the case area is five levels above `d`)
                    12 => (*rng.pick(&[".", "..", "../..", "../../..", "./", "a/", ".//a", "../out/../root"])).to_string(),
                    13 => format!("{}/../{}", rel_from(&parent, rng.pick(&other_side).as_str()), rng.pick(NAMES)),
                    14 => format!("{}/", rel_from(&parent, rng.pick(&all).as_str())),
                    _ => format!("../out/../root/{}", rng.pick(NAMES)),
                };
                if symlink(&target, d.join(&rel)).is_ok() {
                    t.links.push(rel);
                }
            }
        }
    }
    t
}

fn gen_cfg(rng: &mut Rng, area: &Path, d: &Path, t: &Tree) -> Cfg {
    let ds = bytes(d);
    let cat = |tail: &str| {
        let mut v = ds.clone();
        v.extend_from_slice(tail.as_bytes());
        v
    };
    let inside_dirs: Vec<&String> = t.dirs.iter().filter(|p| p.starts_with("root/")).collect();
    let (base, root, kind): (Vec<u8>, Option<Vec<u8>>, &'static str) = match rng.below(22) {
        0..=9 => (cat("/root"), None, "plain"),
        10 | 11 => {
            let sub = if inside_dirs.is_empty() || rng.chance(1, 4) { "root/a".to_string() } else { (*rng.pick(&inside_dirs)).clone() };
            (cat(&format!("/{sub}")), Some(cat("/root")), "nested")
        }
        12 => (cat("/root/"), None, "trailing-slash"),
        13 => (cat(*rng.pick(&["/./root", "/root/.", "//root", "/root//", "/root/./"])), None, "dots"),
        14 => {
            let sub = if inside_dirs.is_empty() { "root/a".to_string() } else { (*rng.pick(&inside_dirs)).clone() };
            (cat(&format!("/{sub}/..")), if rng.chance(1, 2) { Some(cat("/root")) } else { None }, "dotdot-base")
        }
        15 => {
            let _ = symlink("root", d.join("bl"));
            (cat("/bl"), None, "symlinked-base")
        }
        16 => (cat("/root/nx"), if rng.chance(1, 2) { Some(cat("/root")) } else { None }, "missing-base"),
        17 => (
            (*rng.pick(&["root", "./root", "root/", "."])).as_bytes().to_vec(),
            if rng.chance(1, 3) { Some(b"root".to_vec()) } else { None },
            "relative",
        ),
        18 => (cat("/root"), Some(cat("/root/a")), "base-outside-root"),
        19 => (cat("/root"), Some(ds.clone()), "wide-root"),
        20 => {
            let _ = symlink("out", d.join("root/ol"));
            (cat("/root/ol"), Some(cat("/root")), "base-is-escaping-link")
        }
        _ => (cat("/root"), Some(cat("/root")), "explicit-root"),
    };
    Cfg { area: area.to_path_buf(), d: d.to_path_buf(), base, root, kind, mem: vec![] }
}

const WEIRD: &[&str] = &["...", "..a", "a..", " ", "%2e%2e", "..%2f", "é", "a\\b", "..\\", "\\", "a:b", "-", "~"];

fn gen_seg(rng: &mut Rng) -> String {
    match rng.below(20) {
        0..=9 => (*rng.pick(NAMES)).to_string(),
        10..=12 => "..".to_string(),
        13 => ".".to_string(),
        14 => String::new(),
        15 => (*rng.pick(WEIRD)).to_string(),
        16 => format!("n{}", rng.below(3)),
        _ => (*rng.pick(NAMES)).to_string(),
    }
}

/// identifiers for the read side, relative to `base_rel` (the base directory relative to the case dir)
fn gen_id(rng: &mut Rng, d: &Path, snap: &Snap, base_rel: &str) -> String {
    let keys: Vec<String> = snap.keys().map(|k| String::from_utf8_lossy(k).to_string()).collect();
    match rng.below(20) {
        0..=6 => {
            // towards an existing node, expressed relative to the base
            let k = rng.pick(&keys).clone();
            let mut id = rel_from(base_rel, &k);
            match rng.below(8) {
                0 => id.push('/'),
                1 => id = format!("./{id}"),
                2 => id = format!("{}/../{id}", rng.pick(NAMES)),
                3 => id.push_str(&format!("/{}", rng.pick(NAMES))),
                4 => id.push_str("/.."),
                5 => id = id.replace('/', "//"),
                _ => {}
            }
            id
        }
        7 | 8 => {
            // through a link into whatever it points to
            let links: Vec<&String> = keys.iter().filter(|k| matches!(snap.get(k.as_bytes()), Some(Node::Link(_)))).collect();
            if links.is_empty() {
                gen_seg(rng)
            } else {
                let l = rel_from(base_rel, rng.pick(&links).as_str());
                format!("{l}/{}", if rng.chance(1, 4) { "s".to_string() } else { gen_seg(rng) })
            }
        }
        9 => format!("{}/{}", d.display(), rng.pick(&keys)), // absolute
        10 => String::new(),
        11 => {
            // long chains
            let n = rng.range(5, 14);
            (0..n).map(|_| if rng.chance(1, 2) { "..".to_string() } else { gen_seg(rng) }).collect::<Vec<_>>().join("/")
        }
        12 => format!("../out/{}", rng.pick(&["s", "a", "n0", "f"])),
        _ => {
            let n = rng.range(1, 4);
            let mut id = (0..n).map(|_| gen_seg(rng)).collect::<Vec<_>>().join("/");
            if rng.chance(1, 20) {
                // absolute, but inside the case area (the guard `stays_in` drops what is not)
                id = format!("{}/{}/{id}", d.display(), rng.pick(&["root", "out", "."]));
            }
            if rng.chance(1, 12) {
                id.push('/');
            }
            id
        }
    }
}

/// identifiers for `add`: mostly clean, aimed at links, new names and existing nodes
fn gen_add_id(rng: &mut Rng, d: &Path, snap: &Snap, base_rel: &str) -> String {
    let keys: Vec<String> = snap.keys().map(|k| String::from_utf8_lossy(k).to_string()).collect();
    let under_base: Vec<String> = keys
        .iter()
        .filter(|k| k.starts_with(&format!("{base_rel}/")))
        .map(|k| k[base_rel.len() + 1..].to_string())
        .collect();
    let fresh = |rng: &mut Rng| format!("n{}", rng.below(4));
    match rng.below(16) {
        0..=4 if !under_base.is_empty() => {
            let k = rng.pick(&under_base).clone();
            match rng.below(5) {
                0 => k,
                1 | 2 => format!("{k}/{}", fresh(rng)),
                3 => format!("{k}/{}/{}", fresh(rng), fresh(rng)),
                _ => format!("{k}/{}", rng.pick(NAMES)),
            }
        }
        5 | 6 => fresh(rng),
        7 => format!("{}/{}", fresh(rng), fresh(rng)),
        8 => format!("./{}/./{}", rng.pick(NAMES), fresh(rng)),
        9 => format!("{}/{}/{}", rng.pick(NAMES), rng.pick(NAMES), fresh(rng)),
        10 => (*rng.pick(NAMES)).to_string(),
        _ => gen_id(rng, d, snap, base_rel),
    }
}

fn err_class(e: &Error) -> &'static str {
    match e {
        Error::ResourceNotFound(_) => "nf",
        Error::BadParam(_) => "bad",
        Error::IoError(_) => "io",
        _ => "err",
    }
}

/// result of a read-side operation: canonical reply + the full observable (with error text)
struct Obs {
    reply: String,
    full: String,
    content: Option<Vec<u8>>,
}

fn do_read(cfg: &Cfg, op: &str, id: &str) -> Obs {
    let rs = cfg.store();
    match op {
        "get" => match rs.get(id) {
            Ok(c) => Obs { reply: format!("found:{}", hx(&c)), full: format!("found:{}", hx(&c)), content: Some(c.to_vec()) },
            // the payload of ResourceNotFound is part of the answer (it is an identifier or a path, not a message)
            Err(Error::ResourceNotFound(w)) => Obs { reply: format!("nf:{}", hx(w.as_bytes())), full: format!("nf:{w}"), content: None },
            Err(e) => Obs { reply: err_class(&e).to_string(), full: format!("{}:{e}", err_class(&e)), content: None },
        },
        "ws" => {
            let mut out = Cursor::new(Vec::<u8>::new());
            match rs.write_stream(id, &mut out) {
                Ok(_) => {
                    let c = out.into_inner();
                    Obs { reply: format!("ok:{}", hx(&c)), full: format!("ok:{}", hx(&c)), content: Some(c) }
                }
                Err(e) => {
                    // an I/O error text may legitimately name the OS error; only the class is compared
                    Obs { reply: err_class(&e).to_string(), full: format!("{}:{e}", err_class(&e)), content: None }
                }
            }
        }
        "exists" => {
            let b = rs.exists(id);
            Obs { reply: b.to_string(), full: b.to_string(), content: None }
        }
        "pfi" => {
            let r = match rs.path_for_id(id) {
                Some(p) => format!("some:{}", hex(&bytes(&p))),
                None => "none".to_string(),
            };
            Obs { reply: r.clone(), full: r, content: None }
        }
        "resolve" => {
            let r = match hk::resolve_within_root(&pb(&cfg.base), &cfg.root_path(), id) {
                Ok(p) => format!("ok:{}", hex(&bytes(&p))),
                Err(e) => err_class(&e).to_string(),
            };
            Obs { reply: r.clone(), full: r, content: None }
        }
        _ => unreachable!(),
    }
}

/// physical location, relative to the case dir, of everything really below `real_root`
fn under(real: &Path, real_root: &Path) -> bool {
    real.starts_with(real_root)
}

fn has_link_or_dotdot(cfg: &Cfg, id: &str) -> bool {
    if id.split('/').any(|s| s == "..") {
        return true;
    }
    let joined = pb(&cfg.base).join(id);
    joined.ancestors().any(|a| a.is_symlink())
}

const READ_OPS: &[&str] = &["get", "ws", "exists", "pfi", "resolve"];

/// Run one read-side op, record the case, evaluate the oracle. Returns the canonical reply and
/// the full observable (with error texts).
fn read_case(run: &mut Run, cfg: &Cfg, snap: &Snap, op: &str, id: &str) -> (String, String) {
    let obs = match guarded({
        let (cfg, op, id) = (cfg.clone(), op.to_string(), id.to_string());
        move || do_read(&cfg, &op, &id)
    }) {
        Ok(o) => o,
        Err(p) => {
            let idx = run.case(format!("C29 {op} {} id={}", cfg.ctx(snap), hex(id.as_bytes())), "panic".into());
            run.fail(idx, "panic", p);
            return ("panic".into(), "panic".into());
        }
    };
    let req = format!("C29 {op} {} id={}", cfg.ctx(snap), hex(id.as_bytes()));
    if has_link_or_dotdot(cfg, id) && !id.contains('\\') && !id.starts_with('/') && !id.is_empty() {
        run.nontrivial(format!("{op} {} {}", cfg.ctx(snap), id));
    }
    run.count(&format!("{op}:{}", obs.reply.split(':').next().unwrap_or("")));
    run.count(&format!("cfg:{}", cfg.kind));
    let idx = run.case(req, obs.reply.clone());

    // ---- property oracle, on the implementation and the real file system only ----
    let real_root = fs::canonicalize(cfg.root_path()).ok();
    let joined = pb(&cfg.base).join(id);
    if let Some(c) = &obs.content {
        // the bytes handed out must be those of a regular file really below the real root
        let in_mem = cfg.mem.iter().any(|(k, v)| k == id && v == c);
        let ok = in_mem
            || match &real_root {
                None => false,
                Some(rr) => snap.iter().any(|(k, n)| {
                    matches!(n, Node::File(fc) if fc == c) && under(&cfg.area.join(pb(k)), rr)
                }),
            };
        if in_mem {
            run.count("read:from-memory");
        }
        if !ok {
            run.fail(idx, "read-outside-root", format!("{op}({id:?}) returned {:?}, not the content of any file below the real root {:?}", String::from_utf8_lossy(c), real_root));
        }
    }
    if op == "exists" && obs.reply == "true" {
        let ok = cfg.mem.iter().any(|(k, _)| k == id)
            || match (&real_root, fs::canonicalize(&joined)) {
                (Some(rr), Ok(t)) => under(&t, rr),
                _ => false,
            };
        if !ok {
            run.fail(idx, "exists-outside-root", format!("exists({id:?}) = true but the real location is not below the real root"));
        }
    }
    if op == "pfi" || op == "resolve" {
        if let Some(h) = obs.reply.strip_prefix("some:").or_else(|| obs.reply.strip_prefix("ok:")) {
            let p = pb(&vh::common::unhex(h));
            if let Ok(t) = fs::canonicalize(&p) {
                let ok = real_root.as_ref().map(|rr| under(&t, rr)).unwrap_or(false);
                if !ok {
                    run.fail(idx, "path-outside-root", format!("{op}({id:?}) handed out {p:?}, which really is {t:?}"));
                }
            }
        }
    }
    (obs.reply, obs.full)
}

fn canon_case(run: &mut Run, cfg: &Cfg, snap: &Snap, path: &[u8]) {
    let r = match fs::canonicalize(pb(path)) {
        Ok(p) => format!("some:{}", hex(&bytes(&p))),
        Err(_) => "none".to_string(),
    };
    run.count("canon");
    run.case(format!("C29 canon {} id={}", cfg.ctx(snap), hex(path)), r);
}

fn diff_str(d: &Path, before: &Snap, after: &Snap) -> (String, Vec<PathBuf>) {
    let mut entries: Vec<(String, String)> = vec![];
    let mut changed = vec![];
    for (k, n) in after {
        if before.get(k) != Some(n) {
            let abs = d.join(pb(k));
            entries.push((hex(&bytes(&abs)), node_str(n)));
            changed.push(abs);
        }
    }
    for k in before.keys() {
        if !after.contains_key(k) {
            let abs = d.join(pb(k));
            entries.push((hex(&bytes(&abs)), "gone".to_string()));
            changed.push(abs);
        }
    }
    entries.sort();
    let s = if entries.is_empty() { "-".to_string() } else { entries.iter().map(|(a, b)| format!("{a}={b}")).collect::<Vec<_>>().join(",") };
    (s, changed)
}

fn add_case(run: &mut Run, cfg: &Cfg, id: &str, data: &[u8], class: &str) {
    if !safe(cfg, id) {
        run.count("sandbox:add-skipped");
        return;
    }
    let area_before = snapshot(&cfg.area);
    let real_root_before = fs::canonicalize(cfg.root_path()).ok();
    let res = guarded({
        let (cfg, id, data) = (cfg.clone(), id.to_string(), data.to_vec());
        move || {
            let mut rs = cfg.store();
            rs.add(id, data).map(|_| ()).map_err(|e| err_class(&e))
        }
    });
    let area_after = snapshot(&cfg.area);
    let (diff, changed) = diff_str(&cfg.area, &area_before, &area_after);
    let req = format!("C29 add {} id={} data={}", cfg.ctx(&area_before), hex(id.as_bytes()), hex(data));
    let outcome = match &res {
        Ok(Ok(())) => "ok",
        Ok(Err(c)) => c,
        Err(_) => "panic",
    };
    run.count(&format!("add:{outcome}"));
    if outcome == "bad" && hk::sanitize_archive_path(id).is_ok() {
        // lexically clean, refused by the containment checks
        run.count("add:refused-by-containment");
    }
    if outcome == "ok" && changed.len() > 1 {
        run.count("add:ok-created-directories");
    }
    run.count(&format!("cfg:{}", cfg.kind));
    if has_link_or_dotdot(cfg, id) && !id.contains('\\') && !id.starts_with('/') && !id.is_empty() {
        run.nontrivial(format!("add {} {}", cfg.ctx(&area_before), id));
    }
    let idx = run.case(req, format!("{outcome} diff={diff}"));
    if let Err(p) = &res {
        run.fail(idx, "panic", p.clone());
    }
    // ---- property oracle: nothing outside the real root was created or modified ----
    let real_root_after = fs::canonicalize(cfg.root_path()).ok();
    for c in &changed {
        let ok = [&real_root_before, &real_root_after].iter().any(|rr| rr.as_ref().map(|rr| under(c, rr)).unwrap_or(false));
        if !ok {
            run.fail(idx, class, format!("add({id:?}) changed {c:?}, which is not below the real root {real_root_before:?}"));
        }
    }
}

/// The F7 witnesses (Props: `unchecked_write_escapes`), replayed on the implementation.
fn f7_replay(run: &mut Run, base_dir: &Path) {
    let d = base_dir.join("f7");
    for (i, id) in ["link/x", "link/sub/y", "dl", "ls", "dl2/z", "il/ok", "ok/deep/er"].iter().enumerate() {
        let _ = fs::remove_dir_all(&d);
        fs::create_dir_all(d.join("root/in")).unwrap();
        fs::create_dir_all(d.join("out")).unwrap();
        fs::write(d.join("out/secret"), b"SENTINEL-secret").unwrap();
        symlink(d.join("out"), d.join("root/link")).unwrap();
        symlink(d.join("out/secret"), d.join("root/ls")).unwrap();
        symlink(d.join("out/nonexist"), d.join("root/dl")).unwrap();
        symlink(d.join("out/nonexist/sub"), d.join("root/dl2")).unwrap();
        symlink("in", d.join("root/il")).unwrap();
        let cfg = Cfg { area: d.clone(), d: d.clone(), base: bytes(&d.join("root")), root: None, kind: "f7", mem: vec![] };
        add_case(run, &cfg, id, format!("W-f7-{i}").as_bytes(), "write-escape-symlink");
    }
    // a base path with `..` after a directory that does not exist yet: nothing below root/ resolves
    // before `create_dir_all` has made `missing/`, afterwards `link` does
    for (i, (base, id)) in [("root/missing/..", "link/x"), ("root/missing/..", "link/sub/y"), ("root/missing/../in/..", "dl"), ("root/missing/..", "in/ok")].iter().enumerate() {
        let _ = fs::remove_dir_all(&d);
        fs::create_dir_all(d.join("root/in")).unwrap();
        fs::create_dir_all(d.join("out")).unwrap();
        symlink(d.join("out"), d.join("root/link")).unwrap();
        symlink(d.join("out/nonexist"), d.join("root/dl")).unwrap();
        let cfg = Cfg { area: d.clone(), d: d.clone(), base: bytes(&d.join(base)), root: Some(bytes(&d.join("root"))), kind: "f7", mem: vec![] };
        add_case(run, &cfg, id, format!("W-f7b-{i}").as_bytes(), "write-escape-symlink");
    }
    let _ = fs::remove_dir_all(&d);
}

/// The witnesses of `reads_reveal_outside_existence`, `write_stream_reveals_outside_existence`,
/// `get_reveals_outside_existence` (`root/k -> out/s`, with and without `out/s`) and of
/// `exists_reveals_outside_existence` (`root/k -> out/l -> root/f`, with and without `out/l`),
/// replayed on the implementation: each operation is asked the same question on the two trees,
/// which differ outside the root only.
fn leak_replay(run: &mut Run, top: &Path) {
    let d = top.join("leak");
    for (op, chain) in [("pfi", false), ("ws", false), ("get", false), ("exists", false), ("exists", true), ("get", true)] {
        let mut answers: Vec<String> = vec![];
        for with_outside in [true, false] {
            let _ = fs::remove_dir_all(&d);
            fs::create_dir_all(d.join("root")).unwrap();
            fs::create_dir_all(d.join("out")).unwrap();
            if chain {
                fs::write(d.join("root/f"), b"inside-f").unwrap();
                symlink(d.join("out/l"), d.join("root/k")).unwrap();
                if with_outside {
                    symlink(d.join("root/f"), d.join("out/l")).unwrap();
                }
            } else {
                symlink(d.join("out/s"), d.join("root/k")).unwrap();
                if with_outside {
                    fs::write(d.join("out/s"), b"SENTINEL-s").unwrap();
                }
            }
            let cfg = Cfg { area: d.clone(), d: d.clone(), base: bytes(&d.join("root")), root: None, kind: "leak", mem: vec![] };
            std::env::set_current_dir(&d).unwrap();
            let snap = snapshot(&d);
            let (reply, _) = read_case(run, &cfg, &snap, op, "k");
            answers.push(reply);
        }
        run.count(&format!("leak-replay:{op}:{}", if answers[0] != answers[1] { "differs" } else { "same" }));
        if answers[0] != answers[1] {
            let idx = run.reqs.len() - 1;
            run.fail(
                idx,
                "outside-existence-leak",
                format!(
                    "{op}(\"k\") answers {:?} with and {:?} without {} (a node outside the root; nothing else differs)",
                    answers[0],
                    answers[1],
                    if chain { "the link out/l" } else { "the file out/s" }
                ),
            );
        }
    }
    let _ = std::env::set_current_dir(top);
    let _ = fs::remove_dir_all(&d);
}

/// One `Reader::to_folder(dest)` on the tree of `cfg` (`cfg.base` = the destination folder), with a
/// reader holding one claim with one data box `label`. Records the case, evaluates the oracle:
/// nothing outside the real destination folder was created or modified.
fn tofolder_case(run: &mut Run, cfg: &Cfg, reader: c2pa::Reader, claim: &str, label: &str, data: &[u8], class: &str) {
    // sandbox rule for the three paths a check-free implementation would write
    let cl = claim.replace(':', "_");
    let dest = pb(&cfg.base);
    let worst = [
        dest.join("manifest_store.json"),
        dest.join("manifest_data.c2pa"),
        dest.join(format!("{cl}/c2pa.databoxes/{label}")),
        dest.join(label),
    ];
    if !worst.iter().all(|w| stays_in(&cfg.area, &cfg.d, &bytes(w))) {
        run.count("sandbox:tofolder-skipped");
        return;
    }
    let json = reader.json();
    let before = snapshot(&cfg.area);
    let real_before = fs::canonicalize(&dest).ok();
    let res = guarded({
        let dest = dest.clone();
        std::panic::AssertUnwindSafe(move || reader.to_folder(&dest).map_err(|e| err_class(&e)))
    });
    let after = snapshot(&cfg.area);
    // canonical contents: the two manifest files are "J" and "C"
    let canon_after: Snap = after
        .iter()
        .map(|(k, n)| {
            let n = match n {
                Node::File(c) if before.get(k) == Some(n) || c == data => n.clone(),
                Node::File(c) if c == json.as_bytes() => Node::File(b"J".to_vec()),
                Node::File(_) => Node::File(b"C".to_vec()),
                other => other.clone(),
            };
            (k.clone(), n)
        })
        .collect();
    let (diff, changed) = diff_str(&cfg.area, &before, &canon_after);
    let outcome = match &res {
        Ok(Ok(())) => "ok",
        Ok(Err(c)) => c,
        Err(_) => "panic",
    };
    run.count(&format!("tofolder:{outcome}"));
    run.count(&format!("tofolder-cfg:{}", cfg.kind));
    if dest.join(&cl).ancestors().any(|a| a.is_symlink()) || dest.join("manifest_store.json").is_symlink() {
        run.nontrivial(format!("tofolder {} {label}", cfg.ctx(&before)));
    }
    let idx = run.case(
        format!(
            "C29 tofolder {} claim={} label={} data={}",
            cfg.ctx(&before),
            hex(claim.as_bytes()),
            hex(label.as_bytes()),
            hex(data)
        ),
        format!("{outcome} diff={diff}"),
    );
    if let Err(p) = &res {
        run.fail(idx, "panic", p.clone());
    }
    let real_after = fs::canonicalize(&dest).ok();
    for c in &changed {
        // below the real folder — or a directory created on the way to a folder that did not exist yet
        let ok = [&real_before, &real_after].iter().any(|rr| rr.as_ref().map(|rr| under(c, rr)).unwrap_or(false))
            || (real_before.is_none()
                && real_after.as_ref().map(|ra| ra.starts_with(c)).unwrap_or(false)
                && fs::symlink_metadata(c).map(|m| m.is_dir()).unwrap_or(false));
        if !ok {
            run.fail(idx, class, format!("to_folder({dest:?}) with data box {label:?} changed {c:?}, which is not below the real folder {real_after:?}"));
        }
    }
}

/// `unchecked_write_escapes` replayed on `Reader::to_folder`: symbolic links already present in the
/// destination folder, at each of the places `to_folder` writes to.
fn tofolder_replay(run: &mut Run, top: &Path) {
    let d = top.join("tf");
    for plant in 0..8 {
        let _ = fs::remove_dir_all(&d);
        fs::create_dir_all(d.join("dest/in")).unwrap();
        fs::create_dir_all(d.join("out")).unwrap();
        fs::write(d.join("out/secret"), b"SENTINEL-secret").unwrap();
        let data = format!("X-tf-{plant}");
        let Ok((reader, claim)) = hk::reader_with_databox("box.bin", data.as_bytes()) else { continue };
        let cl = claim.replace(':', "_");
        match plant {
            0 => symlink(d.join("out"), d.join(format!("dest/{cl}"))).unwrap(),
            1 => {
                fs::create_dir_all(d.join(format!("dest/{cl}"))).unwrap();
                symlink("../../out", d.join(format!("dest/{cl}/c2pa.databoxes"))).unwrap();
            }
            2 => {
                fs::create_dir_all(d.join(format!("dest/{cl}/c2pa.databoxes"))).unwrap();
                symlink(d.join("out/secret"), d.join(format!("dest/{cl}/c2pa.databoxes/box.bin"))).unwrap();
            }
            3 => {
                fs::create_dir_all(d.join(format!("dest/{cl}/c2pa.databoxes"))).unwrap();
                symlink(d.join("out/new"), d.join(format!("dest/{cl}/c2pa.databoxes/box.bin"))).unwrap();
            }
            4 => symlink(d.join("out/secret"), d.join("dest/manifest_store.json")).unwrap(),
            5 => symlink(d.join("out/new.c2pa"), d.join("dest/manifest_data.c2pa")).unwrap(),
            6 => symlink("in", d.join(format!("dest/{cl}"))).unwrap(), // stays inside: allowed
            _ => {}                                                      // nothing planted
        }
        let cfg = Cfg { area: d.clone(), d: d.clone(), base: bytes(&d.join("dest")), root: None, kind: "tf-replay", mem: vec![] };
        std::env::set_current_dir(&d).unwrap();
        tofolder_case(run, &cfg, reader, &claim, "box.bin", data.as_bytes(), "export-escape-symlink");
    }
    let _ = std::env::set_current_dir(top);
    let _ = fs::remove_dir_all(&d);
}

/// `Reader::to_folder` into a folder of the random tree of `cfg`, sometimes with a symbolic link
/// planted where `to_folder` is going to write.
fn tofolder_random(run: &mut Run, rng: &mut Rng, cfg: &Cfg, counter: &mut u64) {
    let d = &cfg.d;
    let dsnap = snapshot(d);
    let below_root: Vec<String> = dsnap
        .iter()
        .filter(|(k, n)| k.starts_with(b"root/") && !matches!(n, Node::File(_)))
        .map(|(k, _)| String::from_utf8_lossy(k).to_string())
        .collect();
    let dest_rel: String = match rng.below(8) {
        0..=2 => "root".into(),
        3 | 4 if !below_root.is_empty() => rng.pick(&below_root).clone(),
        5 => format!("root/n{}", rng.below(3)),
        6 => format!("root/n{}/deep", rng.below(3)),
        _ => "root/".into(),
    };
    let dest = d.join(&dest_rel);
    let mut label: String = match rng.below(8) {
        0..=3 => (*rng.pick(NAMES)).to_string(),
        4 => "a/b".into(),
        5 => format!("../{}", rng.pick(NAMES)),
        6 => format!("{}/{}", rng.pick(NAMES), rng.pick(NAMES)),
        _ => gen_seg(rng),
    };
    if label.is_empty() {
        label = "x".into();
    }
    *counter += 1;
    let data = format!("X{counter}");
    let Ok((reader, claim)) = hk::reader_with_databox(&label, data.as_bytes()) else { return };
    let cl = claim.replace(':', "_");
    let inside_area = fs::canonicalize(&dest).map(|r| r.starts_with(&cfg.area) && r.is_dir()).unwrap_or(false);
    if inside_area {
        let target: String = match rng.below(6) {
            0 | 1 => format!("{}/out", d.display()),
            2 => format!("{}/out/s", d.display()),
            3 => format!("{}/out/nx{}", d.display(), rng.below(2)),
            4 => format!("{}/root", d.display()),
            _ => "../out".into(),
        };
        let first = label.split('/').find(|s| !s.is_empty() && *s != "." && *s != "..").unwrap_or("x").to_string();
        match rng.below(12) {
            0 | 1 => {
                let _ = symlink(&target, dest.join(&cl));
            }
            2 => {
                let _ = fs::create_dir_all(dest.join(&cl));
                let _ = symlink(&target, dest.join(format!("{cl}/c2pa.databoxes")));
            }
            3 => {
                let _ = fs::create_dir_all(dest.join(format!("{cl}/c2pa.databoxes")));
                let _ = symlink(&target, dest.join(format!("{cl}/c2pa.databoxes/{first}")));
            }
            4 => {
                let _ = symlink(&target, dest.join("manifest_store.json"));
            }
            5 => {
                let _ = symlink(&target, dest.join("manifest_data.c2pa"));
            }
            _ => {}
        }
    }
    let tcfg = Cfg { area: cfg.area.clone(), d: d.clone(), base: bytes(&dest), root: None, kind: "tofolder", mem: vec![] };
    tofolder_case(run, &tcfg, reader, &claim, &label, data.as_bytes(), "export-outside-folder");
}

/// the tree directory `d` sits this far below its case area, so that identifiers and links may
/// climb a few levels without leaving the area
const DEPTH: &str = "w/x/y/z/t";

/// the sandbox rule for a store operation on `id` (see `stays_in`)
fn safe(cfg: &Cfg, id: &str) -> bool {
    id.is_empty() || stays_in(&cfg.area, &cfg.d, &bytes(&pb(&cfg.base).join(id)))
}

/// draw identifiers until one obeys the sandbox rule
fn gen_safe(run: &mut Run, rng: &mut Rng, cfg: &Cfg, mut g: impl FnMut(&mut Rng) -> String) -> String {
    for _ in 0..12 {
        let id = g(rng);
        if safe(cfg, &id) {
            return id;
        }
        run.count("sandbox:identifier-redrawn");
    }
    "n0".to_string()
}

fn one_tree(run: &mut Run, rng: &mut Rng, top: &Path, n: u64, counter: &mut u64) {
    // the case area `area` is what the write oracle watches; no link of the tree leads out of it
    let area = top.join(format!("c{n}"));
    let d = area.join(DEPTH);
    let _ = fs::remove_dir_all(&area);
    fs::create_dir_all(&d).unwrap();
    let t = gen_tree(rng, &d, counter);
    let mut cfg = gen_cfg(rng, &area, &d, &t);
    std::env::set_current_dir(&d).unwrap();
    let snap = snapshot(&area);
    let dsnap = snapshot(&d);
    let base_rel = {
        let b = String::from_utf8_lossy(&cfg.base).to_string();
        let ds = format!("{}/", d.display());
        let r = b.strip_prefix(&ds).unwrap_or(&b).to_string();
        // clean it for `rel_from`
        let mut out: Vec<&str> = vec![];
        for s in r.split('/') {
            match s {
                "" | "." => {}
                ".." => {
                    out.pop();
                }
                x => out.push(x),
            }
        }
        if out.first() == Some(&"bl") {
            out[0] = "root";
        }
        out.join("/")
    };

    // ---- read side ----
    let n_ids = rng.range(4, 9);
    let ids: Vec<String> =
        (0..n_ids).map(|_| gen_safe(run, rng, &cfg, |rng| gen_id(rng, &d, &dsnap, &base_rel))).collect();
    // sometimes the store already holds something in memory (added before the base path was set),
    // under one of the identifiers about to be asked for — hostile ones included
    if rng.chance(1, 5) {
        let k = rng.range(1, 2) as usize;
        for i in 0..k {
            let id = rng.pick(&ids).clone();
            if !cfg.mem.iter().any(|(m, _)| *m == id) {
                cfg.mem.push((id, format!("MEM-{i}").into_bytes()));
            }
        }
    }
    let mut first: Vec<(String, String, (String, String))> = vec![];
    for id in &ids {
        for op in READ_OPS {
            if *op == "resolve" && rng.chance(1, 2) {
                continue;
            }
            let full = read_case(run, &cfg, &snap, op, id);
            first.push((op.to_string(), id.clone(), full));
        }
        if rng.chance(1, 2) && !id.is_empty() && !id.starts_with('/') {
            canon_case(run, &cfg, &snap, &bytes(&pb(&cfg.base).join(id)));
        }
    }

    // ---- non-interference probe: change something that is really outside the real root and
    // observe the same read operations again ----
    if let Ok(rr) = fs::canonicalize(cfg.root_path()) {
        if !under(&d.join("out"), &rr) {
            match rng.below(3) {
                0 => {
                    let _ = fs::remove_file(d.join("out/s"));
                }
                1 => {
                    for k in 0..3 {
                        let _ = fs::write(d.join(format!("out/n{k}")), format!("SENTINEL-new-{k}"));
                    }
                }
                _ => {
                    // remove every regular file below out/
                    for (k, n) in &dsnap {
                        if k.starts_with(b"out/") && matches!(n, Node::File(_)) {
                            let _ = fs::remove_file(d.join(pb(k)));
                        }
                    }
                }
            }
            let snap2 = snapshot(&area);
            if snap2 != snap {
                let mut reported = false;
                for (op, id, (reply1, full1)) in &first {
                    let (reply2, full2) = read_case(run, &cfg, &snap2, op, id);
                    // the answer itself (found / not found, true / false, Some / None, error class)
                    if &reply2 != reply1 {
                        run.count("probe:answer-differs");
                        if !reported {
                            reported = true;
                            let idx = run.reqs.len() - 1;
                            run.fail(
                                idx,
                                "outside-existence-leak",
                                format!("{op}({id:?}) answered {reply1:?} before and {reply2:?} after files really outside the real root were added/removed (only those)"),
                            );
                        }
                    } else if &full2 != full1 {
                        // same answer, different error text: counted, not held against the code
                        run.count("probe:error-text-differs");
                    }
                }
                run.count("probe:trees");
            }
        }
    }

    // ---- write side ----
    let n_adds = rng.range(2, 6);
    for _ in 0..n_adds {
        let snap_now = snapshot(&d);
        let id = gen_safe(run, rng, &cfg, |rng| gen_add_id(rng, &d, &snap_now, &base_rel));
        *counter += 1;
        let data = format!("W{counter}");
        add_case(run, &cfg, &id, data.as_bytes(), "write-outside-root");
        // a read back through the store, on the new tree
        if rng.chance(1, 3) {
            let snap_after = snapshot(&area);
            read_case(run, &cfg, &snap_after, "get", &id);
        }
    }
    // ---- export: Reader::to_folder into a folder of this tree ----
    if rng.chance(1, 2) {
        tofolder_random(run, rng, &cfg, counter);
    }
    let _ = std::env::set_current_dir(top);
    let _ = fs::remove_dir_all(&area);
}

// ---------------------------------------------------------------------------------------------
// pure functions

fn gen_path_string(rng: &mut Rng) -> String {
    let n = match rng.below(10) {
        0 => 0,
        1..=6 => rng.range(1, 4),
        _ => rng.range(4, 12),
    };
    let mut segs: Vec<String> = (0..n)
        .map(|_| match rng.below(16) {
            0..=5 => (*rng.pick(&["a", "b", "resources", "thumb.jpg", "c2pa.assertions", "x"])).to_string(),
            6..=8 => "..".to_string(),
            9 | 10 => ".".to_string(),
            11 => String::new(),
            _ => (*rng.pick(WEIRD)).to_string(),
        })
        .collect();
    if rng.chance(1, 6) {
        segs.insert(0, String::new());
    }
    if rng.chance(1, 8) {
        segs.push(String::new());
    }
    segs.join("/")
}

fn only_normal(p: &str) -> bool {
    !p.is_empty()
        && !p.contains('\\')
        && !Path::new(p).is_absolute()
        && Path::new(p).components().all(|c| matches!(c, Component::Normal(_)))
        && p.split('/').all(|s| s != ".." && s != "." && !s.is_empty())
}

fn pure_cases(run: &mut Run, rng: &mut Rng, n: u64) {
    for _ in 0..n {
        let p = gen_path_string(rng);
        match rng.below(6) {
            0 | 1 => {
                let r = hk::sanitize_archive_path(&p);
                let reply = match &r {
                    Ok(s) => format!("ok:{}", hex(s.as_bytes())),
                    Err(_) => "bad".to_string(),
                };
                run.count(if r.is_ok() { "sanitize:ok" } else { "sanitize:bad" });
                if p.contains("..") || p.contains('\\') || p.starts_with('/') {
                    run.nontrivial(format!("sanitize {p}"));
                }
                let idx = run.case(format!("C29 sanitize p={}", hex(p.as_bytes())), reply);
                if let Ok(s) = &r {
                    if !only_normal(s) {
                        run.fail(idx, "sanitize-lets-traversal-through", format!("sanitize_archive_path({p:?}) = {s:?}"));
                    }
                }
            }
            2 => {
                let uri = match rng.below(5) {
                    0 => format!("self#jumbf=/c2pa/{p}"),
                    1 | 2 => format!("self#jumbf={p}"),
                    3 => format!("self#jumbf=/c2pa/urn:uuid:1234:{p}"),
                    _ => p.clone(),
                };
                let label: Option<String> = match rng.below(4) {
                    0 => None,
                    1 => Some("urn:uuid:abcd".to_string()),
                    _ => Some(gen_path_string(rng)),
                };
                let r = hk::uri_to_path(&uri, label.as_deref());
                let reply = match &r {
                    Ok(pp) => format!("ok:{}", hex(&bytes(pp))),
                    Err(_) => "bad".to_string(),
                };
                run.count(if r.is_ok() { "uri:ok" } else { "uri:bad" });
                let idx = run.case(
                    format!(
                        "C29 uri uri={} label={}",
                        hex(uri.as_bytes()),
                        label.as_ref().map(|l| hex(l.as_bytes())).unwrap_or_else(|| "none".into())
                    ),
                    reply,
                );
                if let Ok(pp) = &r {
                    if !only_normal(&pp.to_string_lossy()) {
                        run.fail(idx, "export-path-lets-traversal-through", format!("uri_to_path({uri:?}, {label:?}) = {pp:?}"));
                    }
                }
            }
            3 => {
                let r = hk::normalize_lexically(Path::new(&p));
                run.count("normalize");
                run.case(format!("C29 normalize p={}", hex(p.as_bytes())), hex(&bytes(&r)));
            }
            4 => {
                let comps: Vec<String> = Path::new(&p)
                    .components()
                    .map(|c| match c {
                        Component::RootDir => "R".to_string(),
                        Component::CurDir => "C".to_string(),
                        Component::ParentDir => "P".to_string(),
                        Component::Normal(n) => format!("N{}", hex(n.as_bytes())),
                        Component::Prefix(_) => "X".to_string(),
                    })
                    .collect();
                run.count("components");
                run.case(format!("C29 components p={}", hex(p.as_bytes())), comps.join(","));
            }
            _ => {
                let r = match Path::new(&p).parent() {
                    None => "none".to_string(),
                    Some(q) => format!("some:{}", hex(&bytes(q))),
                };
                run.count("parent");
                run.case(format!("C29 parent p={}", hex(p.as_bytes())), r);
            }
        }
    }
}


// ---------------------------------------------------------------------------------------------
// archive import and export, end to end

/// `active_manifest` of the two ingredients of the archived definition
const AMS: [Option<&str>; 2] = [Some("a:b"), None];

/// One old-format (zip) builder archive with `manifest.json` (two ingredients) and one more entry
/// called `name`.
fn zip_with(name: &str) -> Option<(Vec<u8>, String)> {
    use std::io::Write;
    let mut zw = zip::ZipWriter::new(Cursor::new(Vec::<u8>::new()));
    let opt = zip::write::SimpleFileOptions::default().compression_method(zip::CompressionMethod::Stored);
    zw.start_file("manifest.json", opt).ok()?;
    zw.write_all(br#"{"format":"","instance_id":"","ingredients":[{"title":"i0","format":"image/jpeg","active_manifest":"a:b"},{"title":"i1","format":"image/jpeg"}],"assertions":[],"no_embed":false,"timestamp_manifest_labels":[]}"#).ok()?;
    zw.start_file(name, opt).ok()?;
    zw.write_all(b"resource bytes").ok()?;
    let bytes = zw.finish().ok()?.into_inner();
    // the name as the reading side reports it
    let mut za = zip::ZipArchive::new(Cursor::new(bytes.clone())).ok()?;
    let seen = za.by_index(1).ok()?.name().to_string();
    Some((bytes, seen))
}

fn archive_cases(run: &mut Run, rng: &mut Rng, top: &Path, n: u64) {
    let d = top.join("arch");
    fs::create_dir_all(d.join("root")).unwrap();
    fs::create_dir_all(d.join("out")).unwrap();
    fs::write(d.join("out/s"), b"SENTINEL-s").unwrap();
    std::env::set_current_dir(d.join("root")).unwrap();
    let am = AMS.iter().map(|a| a.map(|a| hex(a.as_bytes())).unwrap_or_else(|| "none".to_string())).collect::<Vec<_>>().join(",");
    for _ in 0..n {
        let tail = gen_path_string(rng);
        let idx = *rng.pick(&["0", "1", "2", "+1", "-0", "01", "", "x", "1x", "18446744073709551615", "18446744073709551616", " 1"]);
        let name = match rng.below(16) {
            0 => tail.clone(),
            1 => format!("resources/{}", rng.pick(&["a.jpg", "..", ".", "", "a\\b", "../x", "x/../../y"])),
            2 => format!("resource/{tail}"),
            3..=7 => format!("resources/{tail}"),
            8 | 9 => format!("ingredients/{idx}/{tail}"),
            10 => format!("ingredients/{idx}"),
            11 => format!("ingredients/{idx}/{}", rng.pick(&["t.jpg", "..", ".", "", "a\\b", "x/y", "x/../../y"])),
            12 => format!("ingredients/{tail}"),
            13 => format!("manifests/{}", rng.pick(&["a_b", "a_b_c", "a:b", "a_", "x", "..", "", "a_b/..", "a_b/x", "a\\b"])),
            _ => format!("manifests/{tail}"),
        };
        let Some((bytes, seen)) = zip_with(&name) else { continue };
        let before = snapshot(&d);
        let r = guarded(move || {
            c2pa::Builder::from_context(c2pa::Context::new())
                .with_archive(Cursor::new(bytes))
                .map(|b| {
                    // every identifier stored anywhere: the builder's store and each ingredient's
                    let mut ids: Vec<(String, String)> =
                        hk::builder_resource_ids(&b).into_iter().map(|k| ("b".to_string(), k)).collect();
                    ids.sort();
                    for (i, ing) in b.definition.ingredients.iter().enumerate() {
                        let mut ks: Vec<String> = ing.resources().resources().keys().cloned().collect();
                        ks.sort();
                        ids.extend(ks.into_iter().map(|k| (i.to_string(), k)));
                    }
                    ids
                })
                .map_err(|_| ())
        });
        let after = snapshot(&d);
        let reply = match &r {
            Ok(Ok(ids)) if ids.is_empty() => "ignored".to_string(),
            Ok(Ok(ids)) => format!("ok:{}", ids.iter().map(|(st, k)| format!("{st}={}", hx(k.as_bytes()))).collect::<Vec<_>>().join("+")),
            Ok(Err(())) => "bad".to_string(),
            Err(_) => "panic".to_string(),
        };
        run.count(&format!("archive:{}:{}", seen.split('/').next().unwrap_or(""), reply.split(':').next().unwrap_or("")));
        if seen.contains("..") || seen.contains('\\') {
            run.nontrivial(format!("archive {seen}"));
        }
        let idx = run.case(format!("C29 archive name={} am={am}", hex(seen.as_bytes())), reply);
        if let Err(p) = &r {
            run.fail(idx, "panic", p.clone());
        }
        if let Ok(Ok(ids)) = &r {
            for (st, id) in ids {
                // a single plain name — or nothing at all, in an ingredient's store
                let single = only_normal(id) && !id.contains('/');
                if !(single || (st != "b" && id.is_empty())) {
                    run.fail(idx, "archive-key-lets-traversal-through", format!("archive entry {seen:?} stored under {id:?} (store {st})"));
                }
            }
        }
        if before != after {
            run.fail(idx, "archive-import-touches-disk", format!("importing an archive with entry {seen:?} changed the working directory tree"));
        }
    }
    let _ = std::env::set_current_dir(top);
    let _ = fs::remove_dir_all(&d);
}

fn export_cases(run: &mut Run, rng: &mut Rng, top: &Path, n: u64) {
    let d = top.join("exp");
    // the destination folder sits deep inside the watched directory `d`, so that labels may climb
    const PAD: &str = "e/e/e/e/e/e/e/e";
    let dest_rel = format!("{PAD}/dest");
    for i in 0..n {
        let _ = fs::remove_dir_all(&d);
        fs::create_dir_all(d.join("out")).unwrap();
        fs::create_dir_all(d.join(PAD)).unwrap();
        fs::write(d.join("out/s"), b"SENTINEL-s").unwrap();
        let dest = d.join(&dest_rel);
        let tail = gen_path_string(rng);
        let label = match rng.below(6) {
            0 => format!("../{tail}"),
            1 => {
                if rng.chance(1, 9) {
                    // absolute, but inside the watched directory
                    format!("{}/out/abs", d.display())
                } else {
                    (*rng.pick(&["x.bin", "..", ".", "a/b", "../../out/s", "../../../../../../../../../../../out/s", "a\\b", "a:b"])).to_string()
                }
            }
            _ => tail,
        };
        if label.is_empty() {
            continue;
        }
        let data = format!("X{i}");
        let Ok((reader, claim)) = hk::reader_with_databox(&label, data.as_bytes()) else { continue };
        // sandbox rule: what a check-free implementation would write stays inside `d`
        let cl = claim.replace(':', "_");
        let worst = [dest.join(format!("{cl}/c2pa.databoxes/{label}")), dest.join(&label), dest.join(format!("{cl}/{label}"))];
        if !worst.iter().all(|w| stays_in(&d, &d, &bytes(w))) {
            run.count("sandbox:export-skipped");
            continue;
        }
        let before = snapshot(&d);
        let r = guarded({
            let dest = dest.clone();
            std::panic::AssertUnwindSafe(move || reader.to_folder(&dest).map_err(|_| ()))
        });
        let after = snapshot(&d);
        // what was created besides the two manifest files
        let mut created: Vec<Vec<u8>> = vec![];
        let mut outside: Vec<String> = vec![];
        let dest_key = dest_rel.clone();
        let dest_pre = format!("{dest_rel}/");
        for (k, n) in &after {
            if before.get(k) == Some(n) {
                continue;
            }
            let ks = String::from_utf8_lossy(k).to_string();
            if !(ks == dest_key || ks.starts_with(&dest_pre)) {
                outside.push(ks);
            } else if let Node::File(c) = n {
                if c == data.as_bytes() {
                    created.push(k[dest_pre.len()..].to_vec());
                }
            }
        }
        for k in before.keys() {
            if !after.contains_key(k) {
                outside.push(String::from_utf8_lossy(k).to_string());
            }
        }
        let reply = match &r {
            Ok(Ok(())) if created.len() == 1 => format!("ok:{}", hex(&created[0])),
            Ok(Ok(())) => format!("ok-but-{}-files", created.len()),
            Ok(Err(())) => "bad".to_string(),
            Err(_) => "panic".to_string(),
        };
        run.count(&format!("export:{}", reply.split(':').next().unwrap_or("")));
        if label.contains("..") || label.contains('\\') || label.starts_with('/') {
            run.nontrivial(format!("export {label}"));
        }
        let idx = run.case(format!("C29 export claim={} label={}", hex(claim.as_bytes()), hex(label.as_bytes())), reply);
        if let Err(p) = &r {
            run.fail(idx, "panic", p.clone());
        }
        if !outside.is_empty() {
            run.fail(idx, "export-outside-folder", format!("to_folder with data box label {label:?} changed {outside:?} outside the destination folder"));
        }
        for c in &created {
            if !only_normal(&String::from_utf8_lossy(c)) {
                run.fail(idx, "export-path-lets-traversal-through", format!("to_folder wrote {:?}", String::from_utf8_lossy(c)));
            }
        }
    }
    let _ = fs::remove_dir_all(&d);
}

pub fn run(run: &mut Run, rng: &mut Rng) {
    run.rule = "random trees (2–11 nodes besides root/ and out/; dirs, files, symlinks with absolute/relative/chained/looping/dangling/escaping targets) created for real; identifiers from a traversal grammar aimed at existing nodes and links; a file-system case is non-trivial when the identifier passes the syntactic front checks and contains `..` or goes through a symlink of the tree; a to_folder case when a symbolic link sits where to_folder writes; a sanitize case when the input has `..`, a backslash or a leading `/`; an archive case when the entry name has `..` or a backslash; distinct by (tree, configuration, op, identifier); every case obeys the sandbox rule (a check-free implementation would stay inside the case area)".to_string();
    let top = fs::canonicalize(scratch("c29")).expect("scratch");
    let trees = if run.thorough() { 8000 } else { 1000 };
    let pure = if run.thorough() { 200_000 } else { 12_000 };

    f7_replay(run, &top);
    leak_replay(run, &top);
    tofolder_replay(run, &top);
    pure_cases(run, rng, pure);
    archive_cases(run, rng, &top, if run.thorough() { 6000 } else { 600 });
    export_cases(run, rng, &top, if run.thorough() { 6000 } else { 600 });
    let mut counter = 0u64;
    for n in 0..trees {
        let mut r = rng.fork();
        one_tree(run, &mut r, &top, n, &mut counter);
    }
    let _ = std::env::set_current_dir("/");
    let _ = fs::remove_dir_all(&top);
}
