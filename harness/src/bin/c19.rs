//! C19 — ingredient graph validation terminates and rejects malformed graphs.
//!
//! Request lines (see lean/C2paModel/Model/C19.lean):
//!   C19 gcrm lim=<L> stop=<0|1> root=0 g=<graph>   -> <out> map=… refs=… log=… path=…
//!   C19 ic lim=<L> depth=<d> root=0 g=<graph>      -> <out> visited=… log=…
//!   C19 hb lim=<L> root=0 g=<graph>                -> found=<l>|none
//!   C19 validate lim=<L> root=0 g=<graph>          -> <out> log=… scope=<a|i per log event>
//!   C19 e2e lim=<L> root=0 [prerec=1] g=<graph>    -> clean|flagged|err:<out>
//!     (prerec=1: every ingredient assertion naming a missing manifest pre-records the status
//!      ingredient.manifest.missing for it, as validation_status (v2) or validationResults (v3))
//! <graph> = node/node/… ; node = <update><hasHash><sigOk>:<ing>,<ing>… ;
//! ing = <p|c><target|->[h]   (p = parentOf, h = hashed URI carries the target's real box hash)

use std::{collections::HashSet, time::Instant};

use c2pa::{
    assertions::DataHash,
    status_tracker::{ErrorBehavior, StatusTracker},
    verif_hooks::{c19 as hk, c20 as hk20},
    ClaimGeneratorInfo, Context, EphemeralSigner, Error, HashedUri, Signer,
};
use vh::common::{guarded, main_with, Rng, Run};

fn main() {
    if let Ok(spec) = std::env::var("C19_PROBE") {
        probe_child(&spec);
        return;
    }
    if let Ok(spec) = std::env::var("C19_DEBUG") {
        // C19_DEBUG="<prerec>;<graph>": print the Reader's validation results for one graph
        let (pre, gs) = spec.split_once(';').expect("prerec;graph");
        let g: Graph = gs
            .split('/')
            .map(|nd| {
                let (fl, ings) = nd.split_once(':').expect("node");
                let f: Vec<char> = fl.chars().collect();
                Node {
                    update: f[0] == '1',
                    has_hash: f[1] == '1',
                    sig_ok: f[2] == '1',
                    ings: ings
                        .split(',')
                        .filter(|s| !s.is_empty())
                        .map(|s| {
                            let parent = s.starts_with('p');
                            let hash_ok = s.ends_with('h');
                            let body = s[1..].trim_end_matches('h');
                            Ing { target: body.parse().ok(), parent, hash_ok }
                        })
                        .collect(),
                }
            })
            .collect();
        let e = E2e::new();
        let jumbf = e.build(&g, pre.parse().unwrap()).expect("build");
        match e.read(&jumbf) {
            Err(err) => println!("err {err:?}"),
            Ok(r) => println!("{:?}\n{}", r.validation_state(), serde_json::to_string_pretty(r.validation_results().unwrap()).unwrap()),
        }
        return;
    }
    main_with("C19", run);
}

/// update manifests 0 → 1 → … → n-2 linked by parentOf, ending in the claim n-1 that carries the
/// hash; the root lists every claim in reverse order first, so `get_claim_referenced_manifests`
/// reaches each claim at depth ≤ 2 while the hash-binding search follows the whole chain.
fn hb_deep(n: usize) -> Graph {
    let mut g: Graph = (0..n)
        .map(|u| Node {
            ings: if u + 1 < n { vec![Ing { target: Some(u + 1), parent: true, hash_ok: false }] } else { vec![] },
            update: u + 1 < n,
            has_hash: u + 1 == n,
            sig_ok: true,
        })
        .collect();
    let mut first: Vec<Ing> = (2..n).rev().map(|t| Ing { target: Some(t), parent: false, hash_ok: false }).collect();
    first.append(&mut g[0].ings);
    g[0].ings = first;
    g
}

/// the accepted DAG of `dag_not_over_deep`: chain 0 → 1 → … → n-1, but the root lists every claim
/// in reverse order first, so each claim is first reached at depth ≤ 2
fn long_path_short_walk(n: usize) -> Graph {
    let mut g = chain(n);
    g[0].ings = (1..n).rev().map(|t| edge(0, t, n)).collect();
    g
}

/// Run one walk in a child process on a thread with `kib` KiB of stack. A stack overflow aborts
/// the child; that is an oracle failure (class `stack-overflow`), never a harness failure.
fn probe(run: &mut Run, lim: usize, kind: &str, n: usize, kib: usize) {
    let exe = std::env::current_exe().expect("exe");
    let out = std::process::Command::new(exe)
        .env("C19_PROBE", format!("{kind},{n},{kib}"))
        .output()
        .expect("probe child");
    let stdout = String::from_utf8_lossy(&out.stdout).to_string();
    let reply = stdout.lines().find_map(|l| l.strip_prefix("PROBE ")).map(|s| s.to_string());
    let (g, op) = match kind {
        "hb-deep" => (hb_deep(n), "validate"),
        "hb-deep-reader" => (hb_deep(n), "e2e"),
        "flat-long-path" => (long_path_short_walk(n), "validate"),
        "e2e-chain" => (chain(n), "e2e"),
        _ => (chain(n), "validate"),
    };
    let req = format!("C19 {op} lim={lim} root=0 g={}", graph_str(&g));
    run.count(&format!("stack_probe_{kind}"));
    run.nontrivial(req.clone());
    match reply {
        Some(r) if out.status.success() => {
            let f = facts(&g);
            let fails = oracle(if op == "e2e" { &Op::E2e { prerec: 0 } } else { &Op::Validate }, &g, &f, lim, &r);
            let wrong = r == "flat-store-wrong";
            let idx = run.case(req, r);
            for (class, detail) in fails {
                run.fail(idx, class, detail);
            }
            if wrong {
                run.fail(idx, "flat-store-wrong", format!("{kind} with {n} claims: the extracted ingredient store of claim 1 does not hold exactly the claims 1..{}", n - 1));
            }
        }
        _ => {
            let err = String::from_utf8_lossy(&out.stderr);
            let idx = run.case(req, "crash".into());
            run.fail(
                idx,
                "stack-overflow",
                format!(
                    "{kind} with {n} claims on a {kib} KiB stack: child ended with {:?}: {}",
                    out.status,
                    err.lines().last().unwrap_or("")
                ),
            );
        }
    }
}

/// Child process of the stack probe: `kind,n,stack_kib`. Prints the reply; a stack overflow
/// kills the process with a signal, which the parent observes.
fn probe_child(spec: &str) {
    let p: Vec<&str> = spec.split(',').collect();
    let (kind, n, kib) = (p[0].to_string(), p[1].parse::<usize>().unwrap(), p[2].parse::<usize>().unwrap());
    let sig = fixed_signature();
    let g = match kind.as_str() {
        "hb-deep" | "hb-deep-gcrm" | "hb-deep-hb" | "hb-deep-reader" => hb_deep(n),
        "flat-long-path" => long_path_short_walk(n),
        _ => chain(n),
    };
    let lim = hk::MAX_INGREDIENT_DEPTH;
    let mut env = Env { sig, ctx: Context::new(), lim, e2e: None };
    // everything that needs little stack happens here; only the walk runs on the small stack
    let reply = if kind == "flat-long-path" {
        // the store is accepted by the graph walkers (every claim is first reached at depth ≤ 2);
        // reading happens on a big stack, only the extraction of claim 1's flat ingredient store
        // (path 1 → 2 → … → n-1) runs on the small one
        let store = build_store(&env, &g);
        let jumbf = hk::store_to_jumbf(&store, 0).expect("jumbf");
        let asset = std::fs::read(vh::common::fixtures().join("IMG_0003.jpg")).expect("fixture");
        let reader = std::thread::scope(|sc| {
            std::thread::Builder::new()
                .stack_size(256 << 20)
                .spawn_scoped(sc, || {
                    c2pa::Reader::from_context(Context::new()).with_manifest_data_and_stream(
                        &jumbf,
                        "image/jpeg",
                        std::io::Cursor::new(&asset),
                    )
                })
                .expect("spawn")
                .join()
                .expect("read")
        });
        // the reply compared with the model is that of `verify_store` on the same store (the
        // claims carry the harness signature, so the Reader's state itself is Invalid)
        let state = std::thread::scope(|sc| {
            std::thread::Builder::new()
                .stack_size(256 << 20)
                .spawn_scoped(sc, || run_validate(&env, &store))
                .expect("spawn")
                .join()
                .expect("validate")
        });
        match reader {
            Err(err) => format!("err:{}", err_class(&err).0),
            Ok(r) => {
                let r = &r;
                let extracted = std::thread::scope(|sc| {
                    std::thread::Builder::new()
                        .stack_size(kib << 10)
                        .spawn_scoped(sc, || {
                            let mut sink = std::io::Cursor::new(Vec::new());
                            r.resource_to_stream(&label(1), &mut sink).map(|_| sink.into_inner())
                        })
                        .expect("spawn")
                        .join()
                        .unwrap_or_else(|_| Err(Error::OtherError("panic".into())))
                });
                // the flat store of claim 1 holds exactly the claims 1 … n-1
                let ok = match extracted {
                    Ok(bytes) => {
                        let mut log = StatusTracker::default();
                        hk::store_from_jumbf(&bytes, &mut log, &Context::new()).map(|s| s.claims().len()).unwrap_or(0) == n - 1
                    }
                    Err(_) => false,
                };
                if ok { state } else { "flat-store-wrong".to_string() }
            }
        }
    } else if kind == "hb-deep-reader" {
        // public API path: serialise the (unsigned-content) store and read it back
        let store = build_store(&env, &g);
        let jumbf = hk::store_to_jumbf(&store, 0).expect("jumbf");
        let asset = std::fs::read(vh::common::fixtures().join("IMG_0003.jpg")).expect("fixture");
        std::thread::scope(|sc| {
            std::thread::Builder::new()
                .stack_size(kib << 10)
                .spawn_scoped(sc, || {
                    match c2pa::Reader::from_context(Context::new()).with_manifest_data_and_stream(
                        &jumbf,
                        "image/jpeg",
                        std::io::Cursor::new(&asset),
                    ) {
                        Err(err) => format!("err:{}", err_class(&err).0),
                        Ok(r) => match r.validation_state() {
                            c2pa::ValidationState::Invalid => "flagged".into(),
                            _ => "clean".into(),
                        },
                    }
                })
                .expect("spawn")
                .join()
                .unwrap_or_else(|_| "panic".into())
        })
    } else if kind == "e2e-chain" {
        env.e2e = Some(E2e::new());
        let e = env.e2e.as_ref().unwrap();
        let jumbf = e.build(&g, 0).expect("build");
        std::thread::scope(|sc| {
            std::thread::Builder::new()
                .stack_size(kib << 10)
                .spawn_scoped(sc, || match e.read(&jumbf) {
                    Err(err) => format!("err:{}", err_class(&err).0),
                    Ok(r) => match r.validation_state() {
                        c2pa::ValidationState::Invalid => "flagged".into(),
                        _ => "clean".into(),
                    },
                })
                .expect("spawn")
                .join()
                .unwrap_or_else(|_| "panic".into())
        })
    } else {
        let store = build_store(&env, &g);
        std::thread::scope(|sc| {
            std::thread::Builder::new()
                .stack_size(kib << 10)
                .spawn_scoped(sc, || {
                    let r = match kind.as_str() {
                        "hb-deep-gcrm" => run_gcrm(&env, &store, false),
                        "hb-deep-hb" => run_hb(&store),
                        _ => run_validate(&env, &store),
                    };
                    r
                })
                .expect("spawn")
                .join()
                .unwrap_or_else(|_| "panic".into())
        })
    };
    println!("PROBE {reply}");
}

#[derive(Clone, Debug)]
struct Ing {
    target: Option<usize>,
    parent: bool,
    hash_ok: bool,
}

#[derive(Clone, Debug)]
struct Node {
    ings: Vec<Ing>,
    update: bool,
    has_hash: bool,
    sig_ok: bool,
}

type Graph = Vec<Node>;

fn graph_str(g: &Graph) -> String {
    if g.is_empty() {
        return "-".into();
    }
    g.iter()
        .map(|n| {
            format!(
                "{}{}{}:{}",
                n.update as u8,
                n.has_hash as u8,
                n.sig_ok as u8,
                n.ings
                    .iter()
                    .map(|i| format!(
                        "{}{}{}",
                        if i.parent { 'p' } else { 'c' },
                        i.target.map(|t| t.to_string()).unwrap_or("-".into()),
                        if i.hash_ok { "h" } else { "" }
                    ))
                    .collect::<Vec<_>>()
                    .join(",")
            )
        })
        .collect::<Vec<_>>()
        .join("/")
}

fn label(i: usize) -> String {
    format!("urn:c2pa:{:08x}-0000-4000-8000-{:012x}", i, i)
}

/// node index encoded in a manifest label occurring anywhere in `s`
fn node_of(s: &str) -> Option<usize> {
    let k = s.find("urn:c2pa:")?;
    let h = s.get(k + 9..k + 17)?;
    usize::from_str_radix(h, 16).ok()
}

struct Env {
    sig: Vec<u8>,
    ctx: Context,
    lim: usize,
    e2e: Option<E2e>,
}

fn fixed_signature() -> Vec<u8> {
    let signer = EphemeralSigner::new("c19.verif.test").expect("signer");
    let mut c = hk::Claim::new_with_user_guid("verif", &label(0xffff), 2).expect("claim");
    c.add_claim_generator_info(ClaimGeneratorInfo::new("verif"));
    c.build().expect("build");
    let mut settings = c2pa::Settings::default();
    settings.verify.verify_after_sign = false;
    c2pa::cose_sign::sign_claim(&c.data().expect("data"), &signer, signer.reserve_size(), &settings).expect("sign")
}

/// Build a real `Store` whose claims realise `g` (claim i has label `label(i)`; node 0 is the
/// provenance claim). Nodes are committed in descending order so that an ingredient of node u
/// pointing at v > u can carry v's real manifest box hash.
fn build_store(env: &Env, g: &Graph) -> hk::Store {
    let mut store = hk::Store::new();
    for i in (0..g.len()).rev() {
        let n = &g[i];
        let mut c = hk::Claim::new_with_user_guid("verif", &label(i), 2).expect("claim");
        c.add_claim_generator_info(ClaimGeneratorInfo::new("verif"));
        if n.update {
            hk::claim_set_update_manifest(&mut c, true);
        }
        if n.has_hash {
            let mut dh = DataHash::new("jumbf manifest", "sha256");
            dh.set_hash(vec![7u8; 32]);
            c.add_assertion(&dh).expect("datahash");
        }
        for ing in &n.ings {
            let uri = ing.target.map(|t| {
                let hash = if ing.hash_ok {
                    let tc = store.get_claim(&label(t)).expect("hash_ok only for committed targets");
                    hk::store_manifest_box_hashes(&store, tc).0
                } else {
                    vec![0u8; 32]
                };
                HashedUri::new(hk::to_manifest_uri(&label(t)), Some("sha256".into()), &hash)
            });
            hk::claim_add_ingredient_v2(&mut c, "ingredient", "image/jpeg", ing.parent, uri).expect("ingredient assertion");
        }
        c.build().expect("build");
        if n.sig_ok {
            hk::claim_set_signature_val(&mut c, env.sig.clone());
        }
        hk::store_insert_restored_claim(&mut store, label(i), c);
    }
    store
}

fn err_class(e: &Error) -> (&'static str, Option<Vec<usize>>) {
    match e {
        Error::CyclicIngredients { claim_label_path } => (
            "cyclic",
            Some(claim_label_path.iter().filter_map(|l| node_of(l)).collect()),
        ),
        Error::InvalidAsset(m) if m.contains("ingredient chain depth") => ("too-deep", None),
        Error::ClaimMissing { .. } => ("missing", None),
        Error::ClaimVerification(m) if m.contains("is missing") => ("missing", None),
        Error::ClaimMissingHardBinding => ("no-binding", None),
        Error::ProvenanceMissing => ("no-claim", None),
        _ => ("verify-failed", None),
    }
}

/// Canonical event list from a validation log: only the codes the walkers themselves emit.
fn events(log: &StatusTracker) -> Vec<String> {
    events_scoped(log).into_iter().map(|(e, _)| e).collect()
}

/// events with the scope they were logged in: `true` = an ingredient URI was on the tracker's
/// stack (`push_ingredient_uri`), i.e. `ValidationResults::from_store` may filter the status
fn events_scoped(log: &StatusTracker) -> Vec<(String, bool)> {
    let mut out: Vec<(String, bool)> = vec![];
    for it in log.logged_items() {
        let sc = it.ingredient_uri.is_some();
        let code = it.validation_status.as_deref().unwrap_or("");
        let n = node_of(&it.label).map(|n| n.to_string()).unwrap_or("?".into());
        // a failure code that was not logged as a failure is a different event
        let failure = matches!(it.kind, c2pa::status_tracker::LogKind::Failure);
        if !failure && code != "ingredient.manifest.validated" {
            if ["ingredient.manifest.missing", "ingredient.manifest.mismatch", "claim.hardBindings.missing"].contains(&code) {
                out.push((format!("!{code}:{n}"), sc));
            }
            continue;
        }
        match code {
            "ingredient.manifest.missing" => out.push((format!("M{n}"), sc)),
            "ingredient.manifest.mismatch" => out.push((format!("H{n}"), sc)),
            "ingredient.manifest.validated" => out.push((format!("G{n}"), sc)),
            // `verify_internal` logs this once per `verify_claim` (the harness signature never
            // matches); the unlabelled item of a failed COSE parse is not a completed verify
            "claimSignature.mismatch" if n != "?" => out.push((format!("V{n}"), sc)),
            "claim.hardBindings.missing" => out.push((format!("B{n}"), sc)),
            "assertion.ingredient.malformed" if it.description.contains("cyclic") => out.push((format!("C{n}"), sc)),
            _ => {}
        }
    }
    out
}

fn list(v: &[String]) -> String {
    if v.is_empty() {
        "-".into()
    } else {
        v.join(",")
    }
}

fn nums(mut v: Vec<usize>) -> String {
    v.sort();
    list(&v.iter().map(|x| x.to_string()).collect::<Vec<_>>())
}

fn run_gcrm(env: &Env, store: &hk::Store, stop: bool) -> String {
    let claim = store.get_claim(&label(0)).expect("root");
    let mut svi = hk::Svi::new();
    let mut log = if stop {
        StatusTracker::with_error_behavior(ErrorBehavior::StopOnFirstError)
    } else {
        StatusTracker::default()
    };
    let r = hk::get_claim_referenced_manifests(claim, store, &mut svi, true, &mut log);
    let _ = env;
    let (out, path) = match &r {
        Ok(()) => ("ok", None),
        Err(e) => err_class(e),
    };
    let map: Vec<usize> = svi.manifest_labels().iter().filter_map(|l| node_of(l)).collect();
    let mut refs: Vec<(usize, usize)> = svi
        .ingredient_references()
        .iter()
        .map(|(a, b)| (node_of(a).unwrap_or(usize::MAX), node_of(b).unwrap_or(usize::MAX)))
        .collect();
    refs.sort();
    refs.dedup();
    let refs: Vec<String> = refs.iter().map(|(a, b)| format!("{a}<{b}")).collect();
    let path = match path {
        Some(p) => list(&p.iter().map(|x| x.to_string()).collect::<Vec<_>>()),
        None => "-".into(),
    };
    format!("{out} map={} refs={} log={} path={}", nums(map), list(&refs), list(&events(&log)), path)
}

fn run_ic(env: &Env, store: &hk::Store, depth: usize) -> String {
    let claim = store.get_claim(&label(0)).expect("root");
    let svi = hk::Svi::new();
    let mut log = StatusTracker::default();
    let mut visited = HashSet::new();
    visited.insert(label(0));
    let r = hk::ingredient_checks(store, claim, &svi, &mut log, depth, &env.ctx, &mut visited);
    let out = match &r {
        Ok(()) => "ok",
        Err(e) => err_class(e).0,
    };
    let vis: Vec<usize> = visited.iter().filter_map(|l| node_of(l)).collect();
    format!("{out} visited={} log={}", nums(vis), list(&events(&log)))
}

fn run_hb(store: &hk::Store) -> String {
    let claim = store.get_claim(&label(0)).expect("root");
    match hk::get_hash_binding_manifest(store, claim) {
        Some(l) => format!("found={}", node_of(&l).map(|n| n.to_string()).unwrap_or("?".into())),
        None => "none".into(),
    }
}

fn run_validate(env: &Env, store: &hk::Store) -> String {
    let mut log = StatusTracker::default();
    let r = hk::verify_store(store, &mut log, &env.ctx);
    let out = match &r {
        Ok(()) => "ok",
        Err(e) => err_class(e).0,
    };
    let ev = events_scoped(&log);
    let scope: String = ev.iter().map(|(_, sc)| if *sc { 'i' } else { 'a' }).collect();
    format!(
        "{out} log={} scope={}",
        list(&ev.iter().map(|(e, _)| e.clone()).collect::<Vec<_>>()),
        if scope.is_empty() { "-".to_string() } else { scope }
    )
}


// ---------------------------------------------------------------------------------------
// graph facts, computed independently of both the implementation and the model
// ---------------------------------------------------------------------------------------

struct Facts {
    /// nodes reachable from node 0 through references to existing claims
    reach: Vec<bool>,
    /// number of ingredient assertions that carry a manifest reference
    edges: usize,
    /// a reachable node lies on a directed cycle (Kahn elimination on the reachable subgraph)
    cyc: bool,
    /// labels ≥ n referenced from reachable nodes
    dangling: Vec<usize>,
    /// number of distinct claims on the walk 0 → first ingredient → first ingredient …
    head_chain: usize,
    /// number of ingredient assertions of reachable claims that name a missing manifest
    dangling_edges: usize,
    /// number of ingredient assertions of reachable claims that name an existing claim
    reach_edges: usize,
    /// the distinct (target, referencing claim) pairs of those
    ref_pairs: Vec<(usize, usize)>,
    /// largest breadth-first distance (in edges) from node 0 to a reachable claim: some claim is
    /// *over-deep* — every path from the root to it has at least `lim` edges — iff this is ≥ lim
    max_dist: usize,
    /// largest `dist(u) + 1` over the references u → v (v an existing claim) of reachable claims:
    /// the shallowest depth at which the reference *can* be followed, whatever the order
    max_edge_dist: usize,
    /// the nesting depth the walk in ingredient order reaches: depth-first from node 0, ingredient
    /// assertions in order, every claim expanded at its first arrival only; the largest depth
    /// (= number of claims on the path above) of any arrival, first or repeated. Only meaningful
    /// for graphs without a reachable cycle.
    walk_max: usize,
}

fn walk_arrivals(g: &Graph, u: usize, depth: usize, memo: &mut [bool], on_path: &mut [bool], maxd: &mut usize) {
    *maxd = (*maxd).max(depth);
    if memo[u] {
        return;
    }
    memo[u] = true;
    on_path[u] = true;
    for i in &g[u].ings {
        if let Some(t) = i.target {
            if t < g.len() && !on_path[t] {
                walk_arrivals(g, t, depth + 1, memo, on_path, maxd);
            }
        }
    }
    on_path[u] = false;
}

fn facts(g: &Graph) -> Facts {
    let n = g.len();
    let mut reach = vec![false; n];
    let mut stack = vec![];
    if n > 0 {
        reach[0] = true;
        stack.push(0usize);
    }
    while let Some(u) = stack.pop() {
        for i in &g[u].ings {
            if let Some(t) = i.target {
                if t < n && !reach[t] {
                    reach[t] = true;
                    stack.push(t);
                }
            }
        }
    }
    let mut edges = 0;
    let mut indeg = vec![0usize; n];
    let mut dangling = vec![];
    for u in 0..n {
        for i in &g[u].ings {
            if let Some(t) = i.target {
                edges += 1;
                if reach[u] {
                    if t < n {
                        indeg[t] += 1;
                    } else {
                        dangling.push(t);
                    }
                }
            }
        }
    }
    dangling.sort();
    dangling.dedup();
    let mut removed = vec![false; n];
    let mut q: Vec<usize> = (0..n).filter(|&u| reach[u] && indeg[u] == 0).collect();
    while let Some(u) = q.pop() {
        removed[u] = true;
        for i in &g[u].ings {
            if let Some(t) = i.target {
                if t < n {
                    indeg[t] -= 1;
                    if indeg[t] == 0 {
                        q.push(t);
                    }
                }
            }
        }
    }
    let cyc = (0..n).any(|u| reach[u] && !removed[u]);
    let mut seen = vec![false; n];
    let mut head_chain = 0;
    let mut u = 0;
    while u < n && !seen[u] {
        seen[u] = true;
        head_chain += 1;
        match g[u].ings.first().and_then(|i| i.target) {
            Some(t) if t < n => u = t,
            _ => break,
        }
    }
    let mut dangling_edges = 0;
    let mut reach_edges = 0;
    let mut ref_pairs = vec![];
    for u in 0..n {
        if !reach[u] {
            continue;
        }
        for i in &g[u].ings {
            match i.target {
                Some(t) if t < n => {
                    reach_edges += 1;
                    ref_pairs.push((t, u));
                }
                Some(_) => dangling_edges += 1,
                None => {}
            }
        }
    }
    ref_pairs.sort();
    ref_pairs.dedup();
    let mut dist = vec![usize::MAX; n];
    let mut queue = std::collections::VecDeque::new();
    if n > 0 {
        dist[0] = 0;
        queue.push_back(0usize);
    }
    while let Some(u) = queue.pop_front() {
        for i in &g[u].ings {
            if let Some(t) = i.target {
                if t < n && dist[t] == usize::MAX {
                    dist[t] = dist[u] + 1;
                    queue.push_back(t);
                }
            }
        }
    }
    let max_dist = dist.iter().filter(|d| **d != usize::MAX).max().copied().unwrap_or(0);
    let mut max_edge_dist = 0;
    for u in 0..n {
        if reach[u] && g[u].ings.iter().any(|i| matches!(i.target, Some(t) if t < n)) {
            max_edge_dist = max_edge_dist.max(dist[u] + 1);
        }
    }
    let mut walk_max = 0;
    if n > 0 {
        walk_arrivals(g, 0, 0, &mut vec![false; n], &mut vec![false; n], &mut walk_max);
    }
    Facts { reach, edges, cyc, dangling, head_chain, dangling_edges, reach_edges, ref_pairs, max_dist, max_edge_dist, walk_max }
}

// ---------------------------------------------------------------------------------------
// one job = one graph, several operations on the same real store
// ---------------------------------------------------------------------------------------

#[derive(Clone)]
enum Op {
    Gcrm { stop: bool },
    Ic { depth: usize },
    Hb,
    Validate,
    /// really signed store, serialised, read back through `Reader`. `prerec`: 0 = plain v2
    /// ingredient assertions; 2 / 3 = every ingredient assertion naming a missing manifest
    /// pre-records `ingredient.manifest.missing` for it, as `validation_status` of a v2
    /// assertion / as `validationResults` of a v3 assertion
    E2e { prerec: u8 },
}

#[derive(Clone)]
struct Job {
    g: Graph,
    ops: Vec<Op>,
    tag: &'static str,
}

struct CaseOut {
    req: String,
    imp: String,
    fails: Vec<(&'static str, String)>,
    ms: f64,
}

fn field<'a>(reply: &'a str, key: &str) -> Vec<&'a str> {
    for tok in reply.split(' ') {
        if let Some(v) = tok.strip_prefix(key) {
            if let Some(v) = v.strip_prefix('=') {
                return if v == "-" { vec![] } else { v.split(',').collect() };
            }
        }
    }
    vec![]
}

/// The property evaluated on the implementation's reply, using only `facts` of the input.
fn oracle(op: &Op, g: &Graph, f: &Facts, lim: usize, reply: &str) -> Vec<(&'static str, String)> {
    let mut fails = vec![];
    let out = reply.split(' ').next().unwrap_or("");
    let log = field(reply, "log");
    let rejected = out != "ok";
    // a linear chain of more than `lim` claims on the first-ingredient spine: the depth error
    let over = f.head_chain > lim;
    // the general notion: some reachable claim has no path of fewer than `lim` edges from the
    // root (wherever the long paths hang, whatever the labels): never Ok
    let over_all = f.max_dist >= lim || f.max_edge_dist >= lim;
    // "nests deeper than the limit" as the validator walks it: the depth-first walk in ingredient
    // order arrives somewhere (first visit or not) with `lim` claims above it
    let walk_over = !f.cyc && f.walk_max >= lim;
    match op {
        Op::Gcrm { stop } => {
            if f.cyc && !(out == "cyclic" || out == "too-deep" || (*stop && out == "missing")) {
                fails.push(("cycle-accepted", format!("reachable cycle but outcome {out}")));
            }
            if over && out != "too-deep" && !(*stop && out == "missing") {
                fails.push(("deep-chain-accepted", format!("head chain of {} claims (limit {lim}) but outcome {out}", f.head_chain)));
            }
            if over_all && !(out == "too-deep" || (f.cyc && out == "cyclic") || (*stop && out == "missing")) {
                fails.push(("over-deep-accepted", format!("a claim at distance {} from the root (limit {lim}) but outcome {out}", f.max_dist)));
            }
            if walk_over && !(out == "too-deep" || (*stop && out == "missing")) {
                fails.push(("walk-depth-limit-accepted", format!("the walk in ingredient order nests {} deep (limit {lim}) but outcome {out}", f.walk_max)));
            }
            if !f.cyc && f.walk_max < lim && out == "too-deep" {
                fails.push(("depth-error-without-deep-walk", format!("the walk in ingredient order nests only {} deep (limit {lim}) but outcome {out}", f.walk_max)));
            }
            if out == "ok" {
                // exact step counts of a completed walk: every reachable claim is expanded once,
                // so each dangling reference is logged exactly once (a re-expansion regression
                // shows up here, not only in the wall clock) and nothing else is logged
                let m = log.iter().filter(|e| e.starts_with('M')).count();
                if m != f.dangling_edges || log.len() != f.dangling_edges {
                    fails.push(("steps-exceed-bound", format!("{m} missing-manifest items / {} log items for {} dangling references of reachable claims", log.len(), f.dangling_edges)));
                }
                let want: Vec<String> = f.ref_pairs.iter().map(|(a, b)| format!("{a}<{b}")).collect();
                let got: Vec<String> = field(reply, "refs").iter().map(|s| s.to_string()).collect();
                if want != got {
                    fails.push(("references-not-edge-set", format!("ingredient_references {got:?} differ from the edges of the reachable claims {want:?}")));
                }
                for d in &f.dangling {
                    if !log.contains(&format!("M{d}").as_str()) {
                        fails.push(("dangling-not-logged", format!("missing manifest {d} not logged")));
                    }
                }
                let map: Vec<usize> = field(reply, "map").iter().filter_map(|x| x.parse().ok()).collect();
                for u in 0..g.len() {
                    if f.reach[u] != map.contains(&u) {
                        fails.push(("visited-not-reachable-set", format!("claim {u}: reachable={} visited={}", f.reach[u], map.contains(&u))));
                        break;
                    }
                }
                if *stop && !f.dangling.is_empty() {
                    fails.push(("dangling-accepted", "StopOnFirstError log but Ok with a missing manifest".into()));
                }
            }
            if log.len() > f.edges {
                fails.push(("steps-exceed-bound", format!("{} log items for {} edges", log.len(), f.edges)));
            }
        }
        Op::Ic { .. } => {
            let v = log.iter().filter(|e| e.starts_with('V')).count();
            if v > f.edges || log.len() > 2 * f.edges {
                fails.push(("steps-exceed-bound", format!("{v} verify_claim calls for {} edges", f.edges)));
            }
            if out == "ok" {
                // a completed walk looks every reference of every reachable claim up exactly once
                let m = log.iter().filter(|e| e.starts_with('M')).count();
                if v != f.reach_edges || m != f.dangling_edges {
                    fails.push(("steps-exceed-bound", format!("{v} verify_claim calls / {m} missing-manifest items for {} references to claims / {} dangling references of reachable claims", f.reach_edges, f.dangling_edges)));
                }
            }
            if !["ok", "too-deep", "verify-failed"].contains(&out) {
                fails.push(("unexpected-outcome", format!("ingredient_checks returned {out}")));
            }
        }
        Op::Hb => {
            if let Some(l) = reply.strip_prefix("found=") {
                match l.parse::<usize>() {
                    Ok(l) if l < g.len() && !g[l].update && g[l].has_hash => {}
                    _ => fails.push(("binding-unsound", format!("binding manifest {l} is not a non-update claim with a hash assertion"))),
                }
            }
        }
        Op::E2e { .. } => {
            // the statement itself: a cyclic, dangling or over-deep graph is never reported Valid
            if reply == "clean" && (f.cyc || !f.dangling.is_empty() || over || over_all || walk_over) {
                fails.push(("malformed-reported-valid", format!("Reader reports Valid/Trusted for a graph with cycle={} dangling={:?} head_chain={} max_dist={}", f.cyc, f.dangling, f.head_chain, f.max_dist)));
            }
            if over_all && !(reply == "err:too-deep" || (f.cyc && reply == "err:cyclic")) {
                fails.push(("over-deep-accepted", format!("a claim at distance {} from the root (limit {lim}) but Reader gives {reply}", f.max_dist)));
            }
            if walk_over && reply != "err:too-deep" {
                fails.push(("walk-depth-limit-accepted", format!("the walk in ingredient order nests {} deep (limit {lim}) but Reader gives {reply}", f.walk_max)));
            }
            if f.cyc && !(reply == "err:cyclic" || reply == "err:too-deep") {
                fails.push(("cycle-accepted", format!("reachable cycle but Reader gives {reply}")));
            }
            if over && reply != "err:too-deep" {
                fails.push(("deep-chain-accepted", format!("head chain of {} claims (limit {lim}) but Reader gives {reply}", f.head_chain)));
            }
        }
        Op::Validate => {
            if f.cyc && !(out == "cyclic" || out == "too-deep") {
                fails.push(("cycle-accepted", format!("reachable cycle but outcome {out}")));
            }
            if over && out != "too-deep" {
                fails.push(("deep-chain-accepted", format!("head chain of {} claims (limit {lim}) but outcome {out}", f.head_chain)));
            }
            if over_all && !(out == "too-deep" || (f.cyc && out == "cyclic")) {
                fails.push(("over-deep-accepted", format!("a claim at distance {} from the root (limit {lim}) but outcome {out}", f.max_dist)));
            }
            if walk_over && out != "too-deep" {
                fails.push(("walk-depth-limit-accepted", format!("the walk in ingredient order nests {} deep (limit {lim}) but outcome {out}", f.walk_max)));
            }
            if !rejected {
                // the failure that keeps a dangling graph Invalid must be logged in the scope of
                // the active claim: only such a status is exempt from the from_store filter
                let scope = field(reply, "scope").first().copied().unwrap_or("");
                for d in &f.dangling {
                    let key = format!("M{d}");
                    let active = log.iter().zip(scope.chars()).any(|(e, sc)| *e == key && sc == 'a');
                    if !active {
                        fails.push(("dangling-not-logged-in-active-scope", format!("missing manifest {d} is only logged with an ingredient URI (droppable by a pre-recorded status)")));
                    }
                }
                for d in &f.dangling {
                    if !log.contains(&format!("M{d}").as_str()) {
                        fails.push(("dangling-not-logged", format!("missing manifest {d} not logged")));
                    }
                }
                let flagged = log.iter().any(|e| ["M", "H", "C", "B"].contains(&&e[..1]));
                if !flagged && (f.cyc || !f.dangling.is_empty() || over || over_all || walk_over) {
                    fails.push(("malformed-reported-clean", "cyclic/dangling/over-deep graph validated without a graph failure".into()));
                }
            }
        }
    }
    fails
}

fn process(env: &Env, job: &Job) -> Vec<CaseOut> {
    let gs = graph_str(&job.g);
    let f = facts(&job.g);
    let store = build_store(env, &job.g);
    let mut out = vec![];
    for op in &job.ops {
        let t = Instant::now();
        let (req, imp) = match op {
            Op::Gcrm { stop } => (
                format!("C19 gcrm lim={} stop={} root=0 g={gs}", env.lim, *stop as u8),
                guarded(std::panic::AssertUnwindSafe(|| run_gcrm(env, &store, *stop))),
            ),
            Op::Ic { depth } => (
                format!("C19 ic lim={} depth={depth} root=0 g={gs}", env.lim),
                guarded(std::panic::AssertUnwindSafe(|| run_ic(env, &store, *depth))),
            ),
            Op::Hb => (
                format!("C19 hb lim={} root=0 g={gs}", env.lim),
                guarded(std::panic::AssertUnwindSafe(|| run_hb(&store))),
            ),
            Op::Validate => (
                format!("C19 validate lim={} root=0 g={gs}", env.lim),
                guarded(std::panic::AssertUnwindSafe(|| run_validate(env, &store))),
            ),
            Op::E2e { prerec } => (
                format!("C19 e2e lim={} root=0{} g={gs}", env.lim, if *prerec > 0 { " prerec=1" } else { "" }),
                guarded(std::panic::AssertUnwindSafe(|| run_e2e(env, &job.g, *prerec))),
            ),
        };
        let ms = t.elapsed().as_secs_f64() * 1e3;
        match imp {
            Ok(imp) => {
                let fails = oracle(op, &job.g, &f, env.lim, &imp);
                out.push(CaseOut { req, imp, fails, ms });
            }
            Err(p) => out.push(CaseOut { req, imp: "panic".into(), fails: vec![("panic", p)], ms }),
        }
    }
    out
}

// ---------------------------------------------------------------------------------------
// worker with a wall-clock budget per job (termination oracle)
// ---------------------------------------------------------------------------------------

struct Worker {
    tx: std::sync::mpsc::Sender<Job>,
    rx: std::sync::mpsc::Receiver<Vec<CaseOut>>,
}

fn spawn_worker(sig: Vec<u8>, lim: usize) -> Worker {
    let (tx, jrx) = std::sync::mpsc::channel::<Job>();
    let (rtx, rx) = std::sync::mpsc::channel::<Vec<CaseOut>>();
    std::thread::Builder::new()
        .stack_size(64 << 20)
        .spawn(move || {
            let mut env = Env { sig, ctx: Context::new(), lim, e2e: None };
            while let Ok(job) = jrx.recv() {
                if env.e2e.is_none() && job.ops.iter().any(|o| matches!(o, Op::E2e { .. })) {
                    env.e2e = Some(E2e::new());
                }
                if rtx.send(process(&env, &job)).is_err() {
                    break;
                }
            }
        })
        .expect("spawn");
    Worker { tx, rx }
}

struct Exec {
    sig: Vec<u8>,
    lim: usize,
    worker: Worker,
    max_ms: f64,
}

impl Exec {
    fn submit(&mut self, run: &mut Run, job: Job) {
        let f = facts(&job.g);
        let budget = std::time::Duration::from_millis(20_000 + 40 * (job.g.len() + f.edges) as u64);
        let malformed = f.cyc || !f.dangling.is_empty() || f.head_chain > self.lim || f.max_dist >= self.lim || f.walk_max >= self.lim;
        if !f.cyc && f.walk_max >= self.lim && f.max_dist < self.lim {
            run.count("graph_deep_walk_with_short_path");
        }
        run.count(&format!("graphs_{}", job.tag));
        run.count(if f.cyc { "graph_cyclic" } else { "graph_acyclic" });
        if !f.dangling.is_empty() {
            run.count("graph_dangling");
        }
        if f.head_chain > self.lim {
            run.count("graph_over_limit_chain");
        }
        if f.max_dist >= self.lim {
            run.count("graph_over_deep_claim");
            if f.head_chain <= self.lim {
                run.count("graph_over_deep_claim_off_the_head_chain");
            }
        }
        self.worker.tx.send(job.clone()).expect("worker alive");
        match self.worker.rx.recv_timeout(budget) {
            Ok(cases) => {
                for c in cases {
                    self.max_ms = self.max_ms.max(c.ms);
                    let outcome = c.imp.split(' ').next().unwrap_or("").to_string();
                    let opname = c.req.split(' ').nth(1).unwrap_or("").to_string();
                    let outcome = if outcome.starts_with("found=") { "found".to_string() } else { outcome };
                    run.count(&format!("{opname}_{outcome}"));
                    if malformed || f.edges > 0 {
                        run.nontrivial(c.req.clone());
                    }
                    let idx = run.case(c.req, c.imp);
                    for (class, detail) in c.fails {
                        run.fail(idx, class, detail);
                    }
                }
            }
            Err(_) => {
                // the call did not return within the budget: abandon the worker
                let req = format!("C19 validate lim={} root=0 g={}", self.lim, graph_str(&job.g));
                let idx = run.case(req, "timeout".into());
                run.fail(idx, "timeout", format!("no result within {budget:?} for a graph of {} claims / {} edges", job.g.len(), f.edges));
                self.worker = spawn_worker(self.sig.clone(), self.lim);
            }
        }
    }
}

// ---------------------------------------------------------------------------------------
// generators
// ---------------------------------------------------------------------------------------

fn node(ings: Vec<Ing>) -> Node {
    Node { ings, update: false, has_hash: true, sig_ok: true }
}

fn edge(u: usize, t: usize, n: usize) -> Ing {
    Ing { target: Some(t), parent: false, hash_ok: t > u && t < n }
}

/// every digraph on `n` claims (self references included); with `dangling` every claim may
/// additionally reference the missing manifest `n`.
fn exhaustive(n: usize, dangling: bool) -> impl Iterator<Item = Graph> {
    let cols = n + dangling as usize;
    let bits = n * cols;
    (0u64..(1u64 << bits)).map(move |m| {
        (0..n)
            .map(|u| node((0..cols).filter(|v| m >> (u * cols + v) & 1 == 1).map(|v| edge(u, v, n)).collect()))
            .collect()
    })
}

fn random_graph(r: &mut Rng, n: usize) -> (Graph, &'static str) {
    let style = r.below(6);
    let mut g: Graph = (0..n)
        .map(|_| Node { ings: vec![], update: false, has_hash: true, sig_ok: true })
        .collect();
    let tag;
    match style {
        0 => {
            tag = "random_sparse";
            for u in 0..n {
                for _ in 0..r.below(4) {
                    let t = if r.chance(1, 15) { n + r.below(3) as usize } else { r.below(n as u64) as usize };
                    g[u].ings.push(edge(u, t, n));
                }
            }
        }
        1 | 2 => {
            tag = if style == 1 { "random_dag" } else { "random_dag_back_edges" };
            for u in 0..n.saturating_sub(1) {
                for _ in 0..r.range(1, 3) {
                    // mostly near successors: long paths and shared sub-graphs
                    let span = if r.chance(2, 3) { 3 } else { n - u - 1 };
                    let t = u + 1 + r.below(span.min(n - u - 1).max(1) as u64) as usize;
                    g[u].ings.push(edge(u, t, n));
                }
            }
            if style == 2 {
                for _ in 0..r.range(1, 3) {
                    let u = r.below(n as u64) as usize;
                    let t = r.below(u as u64 + 1) as usize;
                    g[u].ings.push(edge(u, t, n));
                }
            }
        }
        3 => {
            tag = "random_tree_dangling";
            for u in 1..n {
                let p = r.below(u as u64) as usize;
                g[p].ings.push(edge(p, u, n));
            }
            for _ in 0..r.below(3) {
                let u = r.below(n as u64) as usize;
                g[u].ings.push(edge(u, n + r.below(2) as usize, n));
            }
        }
        4 => {
            tag = "random_update_chain";
            // update manifests linked by parentOf, for the hash-binding search
            for u in 0..n {
                g[u].update = r.chance(4, 5);
                g[u].has_hash = r.chance(1, 2);
                if u + 1 < n {
                    if r.chance(1, 4) {
                        g[u].ings.push(Ing { target: Some(r.below(n as u64) as usize), parent: false, hash_ok: false });
                    }
                    let t = if r.chance(9, 10) { u + 1 } else { r.below(n as u64) as usize };
                    g[u].ings.push(Ing { target: Some(t), parent: true, hash_ok: t > u });
                }
            }
        }
        _ => {
            tag = "random_dense_small_range";
            for u in 0..n {
                for _ in 0..r.below(5) {
                    let t = r.below((n as u64).min(6)) as usize;
                    g[u].ings.push(edge(u, t, n));
                }
            }
        }
    }
    // flag noise
    for u in 0..n {
        if style != 4 {
            if r.chance(1, 8) {
                g[u].update = true;
            }
            if r.chance(1, 6) {
                g[u].has_hash = false;
            }
        }
        if u > 0 && r.chance(1, 25) {
            g[u].sig_ok = false;
        }
        let k = g[u].ings.len();
        for i in 0..k {
            if r.chance(1, 4) {
                g[u].ings[i].parent = true;
            }
            if r.chance(1, 12) {
                g[u].ings[i].target = None;
                g[u].ings[i].hash_ok = false;
            }
            if g[u].ings[i].hash_ok && r.chance(1, 6) {
                g[u].ings[i].hash_ok = false;
            }
        }
        if r.chance(1, 5) && k > 1 {
            let j = r.below(k as u64) as usize;
            g[u].ings.swap(0, j);
        }
    }
    (g, tag)
}

fn chain(n: usize) -> Graph {
    (0..n).map(|u| node(if u + 1 < n { vec![edge(u, u + 1, n)] } else { vec![] })).collect()
}

/// Relabel the claims by a random permutation that keeps the root at 0 (the walkers must not
/// depend on labels being in path order). A hashed URI can only carry the target's real box hash
/// when the target is committed first, i.e. has the larger index.
fn permute(r: &mut Rng, g: &Graph) -> Graph {
    let n = g.len();
    let mut perm: Vec<usize> = (0..n).collect();
    for i in (2..n).rev() {
        let j = 1 + r.below(i as u64) as usize;
        perm.swap(i, j);
    }
    let mut out: Graph = (0..n).map(|_| node(vec![])).collect();
    for u in 0..n {
        let mut nd = g[u].clone();
        for i in nd.ings.iter_mut() {
            if let Some(t) = i.target {
                if t < n {
                    i.target = Some(perm[t]);
                    i.hash_ok = i.hash_ok && perm[t] > perm[u];
                }
            }
        }
        out[perm[u]] = nd;
    }
    out
}

/// The root lists `k` leaf ingredients first; a chain of `m` claims hangs off its ingredient
/// number `k + 1`: the last claim of the chain is `m` edges away from the root.
fn deep_off_branch(k: usize, m: usize) -> Graph {
    let n = 1 + k + m;
    let mut g: Graph = (0..n).map(|_| node(vec![])).collect();
    for l in 1..=k {
        g[0].ings.push(edge(0, l, n));
    }
    g[0].ings.push(edge(0, k + 1, n));
    for j in 0..m.saturating_sub(1) {
        let u = k + 1 + j;
        g[u].ings.push(edge(u, u + 1, n));
    }
    g
}

/// A complete binary tree of depth `d` (ingredients in order left, right); a chain of `m` claims
/// hangs off its last leaf: the end of the chain is `d + m` edges away from the root.
fn deep_off_tree(d: usize, m: usize) -> Graph {
    let tree = (1usize << (d + 1)) - 1;
    let n = tree + m;
    let mut g: Graph = (0..n).map(|_| node(vec![])).collect();
    for u in 0..tree {
        for c in [2 * u + 1, 2 * u + 2] {
            if c < tree {
                g[u].ings.push(edge(u, c, n));
            }
        }
    }
    let mut u = tree - 1;
    for j in 0..m {
        g[u].ings.push(edge(u, tree + j, n));
        u = tree + j;
    }
    g
}

/// Chain 0 → 1 → … → m, and the root also references claim `j` of the chain directly, listed
/// before (`first`) or after the chain: `j` has a short path, yet the chain nests `j` deep.
fn chain_shortcut(m: usize, j: usize, first: bool) -> Graph {
    let mut g = chain(m + 1);
    let e = edge(0, j, m + 1);
    if first {
        g[0].ings.insert(0, e);
    } else {
        g[0].ings.push(e);
    }
    g
}

/// Diamond over a long chain: root → a directly and root → b1 → … → bk → a, a → leaf; the short
/// side listed first or last.
fn long_diamond(k: usize, first: bool) -> Graph {
    // 0 root, 1..=k the b's, k+1 = a, k+2 = leaf
    let n = k + 3;
    let mut g: Graph = (0..n).map(|_| node(vec![])).collect();
    g[0].ings.push(edge(0, 1, n));
    for b in 1..=k {
        g[b].ings.push(edge(b, b + 1, n));
    }
    g[k + 1].ings.push(edge(k + 1, k + 2, n));
    let e = edge(0, k + 1, n);
    if first {
        g[0].ings.insert(0, e);
    } else {
        g[0].ings.push(e);
    }
    g
}

/// the graphs in which a deeply nested claim also has a short path, around the limit
fn short_and_deep(lim: usize) -> Vec<(Graph, &'static str)> {
    let mut v = vec![];
    for first in [true, false] {
        for m in [lim - 1, lim, lim + 1] {
            v.push((chain_shortcut(m, m, first), "chain_shortcut_to_tail"));
        }
        for (m, j) in [(lim + 5, lim - 1), (lim + 5, lim), (lim + 5, lim + 1), (2 * lim - 4, lim - 2)] {
            v.push((chain_shortcut(m, j, first), "chain_shortcut_to_middle"));
        }
        for k in [lim - 3, lim - 2, lim - 1, lim] {
            v.push((long_diamond(k, first), "diamond_over_long_chain"));
        }
    }
    v
}

/// `levels` levels of two claims, each claim referencing both claims of the next level
/// (2^levels paths to the bottom); with `dangling` the bottom claims reference a missing manifest.
/// With the memo map / visited set every claim is expanded once: the exact step counts of the
/// oracle (`steps-exceed-bound`) catch a re-expansion without waiting for the wall clock.
fn ladder(levels: usize, dangling: bool) -> Graph {
    let n = 1 + 2 * levels;
    let mut g: Graph = (0..n).map(|_| node(vec![])).collect();
    g[0].ings = vec![edge(0, 1, n), edge(0, 2, n)];
    for l in 0..levels {
        for u in [1 + 2 * l, 2 + 2 * l] {
            if l + 1 < levels {
                g[u].ings = vec![edge(u, 3 + 2 * l, n), edge(u, 4 + 2 * l, n)];
            } else if dangling {
                g[u].ings = vec![edge(u, n + 3, n)];
            }
        }
    }
    g
}

fn all_ops() -> Vec<Op> {
    vec![Op::Gcrm { stop: false }, Op::Gcrm { stop: true }, Op::Ic { depth: 0 }, Op::Hb, Op::Validate]
}

pub fn run(run: &mut Run, rng: &mut Rng) {
    run.rule = "a case is one walker operation (gcrm / ingredient_checks / hash-binding search / verify_store) on a real Store built from a generated graph; non-trivial when the graph has at least one manifest reference or is malformed (reachable cycle, missing manifest, head chain longer than the limit); distinct by request text".to_string();
    let sig = fixed_signature();
    let lim = hk::MAX_INGREDIENT_DEPTH;
    run.notes.push(format!("MAX_INGREDIENT_DEPTH read from the code: {lim}"));
    let mut ex = Exec { sig: sig.clone(), lim, worker: spawn_worker(sig, lim), max_ms: 0.0 };
    let thorough = run.thorough();

    // 1. exhaustive small digraphs
    let max_n = if thorough { 4 } else { 3 };
    for n in 1..=max_n {
        for g in exhaustive(n, false) {
            ex.submit(run, Job { g, ops: all_ops(), tag: "exhaustive" });
        }
    }
    for n in 1..=3 {
        if n == 3 && !thorough {
            // quick: sample the 3-claim graphs with a dangling column
            let all: Vec<Graph> = exhaustive(3, true).collect();
            for _ in 0..600 {
                let g = all[rng.below(all.len() as u64) as usize].clone();
                ex.submit(run, Job { g, ops: all_ops(), tag: "exhaustive_dangling_sampled" });
            }
        } else {
            for g in exhaustive(n, true) {
                ex.submit(run, Job { g, ops: all_ops(), tag: "exhaustive_dangling" });
            }
        }
    }

    // 2. chains around the limit and other limit shapes
    for n in lim.saturating_sub(2)..=lim + 3 {
        ex.submit(run, Job { g: chain(n), ops: all_ops(), tag: "chain" });
        // closing the chain: a cycle longer than / equal to / shorter than the limit
        let mut g = chain(n);
        g[n - 1].ings.push(edge(n - 1, 0, n));
        ex.submit(run, Job { g, ops: all_ops(), tag: "chain_closed" });
        // a shared leaf referenced first by every claim of the chain: the depth test fires on a
        // memoised claim
        let mut g = chain(n);
        g.push(node(vec![]));
        for u in 0..n {
            g[u].ings.insert(0, edge(u, n, n + 1));
        }
        ex.submit(run, Job { g, ops: all_ops(), tag: "chain_shared_leaf" });
        // dangling at the end of the chain
        let mut g = chain(n);
        g[n - 1].ings.push(edge(n - 1, n + 5, n));
        ex.submit(run, Job { g, ops: all_ops(), tag: "chain_dangling_end" });
        // update manifests linked by parentOf (hash-binding search walks the whole chain)
        let mut g = chain(n);
        for u in 0..n {
            g[u].update = u + 1 < n;
            g[u].has_hash = u + 1 == n;
            for i in g[u].ings.iter_mut() {
                i.parent = true;
            }
        }
        ex.submit(run, Job { g, ops: all_ops(), tag: "chain_update_parent" });
    }
    // DAG whose longest path exceeds the limit but whose claims are first reached on short paths
    for n in [lim + 10, lim + 50] {
        let mut g = chain(n);
        let extra: Vec<Ing> = (1..n).rev().map(|t| edge(0, t, n)).collect();
        g[0].ings = extra;
        ex.submit(run, Job { g, ops: all_ops(), tag: "dag_long_path_short_walk" });
    }
    // over-deep claims that are not on the first-ingredient spine, with labels in path order and
    // permuted: the depth test must fire on every branch
    for m in lim.saturating_sub(2)..=lim + 2 {
        for k in [1usize, 3] {
            let g = deep_off_branch(k, m);
            ex.submit(run, Job { g: permute(rng, &g), ops: all_ops(), tag: "deep_off_later_ingredient_permuted" });
            ex.submit(run, Job { g, ops: all_ops(), tag: "deep_off_later_ingredient" });
        }
        if m >= 3 {
            let g = deep_off_tree(3, m - 3);
            ex.submit(run, Job { g: permute(rng, &g), ops: all_ops(), tag: "deep_off_tree_leaf_permuted" });
            ex.submit(run, Job { g, ops: all_ops(), tag: "deep_off_tree_leaf" });
        }
        ex.submit(run, Job { g: permute(rng, &chain(m + 1)), ops: all_ops(), tag: "chain_permuted" });
    }
    // a deeply nested claim that also has a short path, listed before / after the long one
    for (g, tag) in short_and_deep(lim) {
        ex.submit(run, Job { g: permute(rng, &g), ops: all_ops(), tag });
        ex.submit(run, Job { g, ops: all_ops(), tag });
    }
    // exponentially many paths, every claim expanded once
    for levels in [3usize, 8, 12] {
        ex.submit(run, Job { g: ladder(levels, false), ops: all_ops(), tag: "ladder" });
        ex.submit(run, Job { g: ladder(levels, true), ops: all_ops(), tag: "ladder_dangling_bottom" });
    }
    // ingredient_checks entered at depths around the limit
    for d in [lim.saturating_sub(2), lim - 1, lim, lim + 1] {
        for g in [chain(1), chain(2), chain(3)] {
            ex.submit(run, Job { g, ops: vec![Op::Ic { depth: d }], tag: "ic_entry_depth" });
        }
    }

    // 3. random graphs up to 300 claims
    let n_random = if thorough { 6000 } else { 1000 };
    for k in 0..n_random {
        let mut r = rng.fork();
        let n = match r.below(10) {
            0..=5 => r.range(1, 12),
            6..=8 => r.range(13, 60),
            _ => r.range(61, 300),
        } as usize;
        // make sure the largest size is exercised in every run
        let n = if k == 0 { 300 } else { n };
        let (g, tag) = random_graph(&mut r, n);
        let mut ops = all_ops();
        if r.chance(1, 10) {
            ops.push(Op::Ic { depth: lim - 1 - r.below(3) as usize });
        }
        ex.submit(run, Job { g, ops, tag });
    }
    run.notes.push(format!("slowest single walker call: {:.1} ms", ex.max_ms));
    ex.max_ms = 0.0;

    // 4. end to end: really signed stores through `Reader`
    let e2e = |g: Graph, tag: &'static str| Job { g, ops: vec![Op::E2e { prerec: 0 }], tag };
    let e2e_prerec = |g: Graph, tag: &'static str| Job { g, ops: vec![Op::E2e { prerec: 2 }, Op::E2e { prerec: 3 }], tag };
    for n in 1..=3 {
        for g in exhaustive(n, false) {
            ex.submit(run, e2e(g, "e2e_exhaustive"));
        }
    }
    for n in 1..=(if thorough { 3 } else { 2 }) {
        for g in exhaustive(n, true) {
            ex.submit(run, e2e(g, "e2e_exhaustive_dangling"));
        }
    }
    if thorough {
        let bits = 16u64;
        for _ in 0..3000 {
            let m = rng.below(1 << bits);
            let g: Graph = (0..4).map(|u| node((0..4).filter(|v| m >> (u * 4 + v) & 1 == 1).map(|v| edge(u, v, 4)).collect())).collect();
            ex.submit(run, e2e(g, "e2e_random_4"));
        }
    }
    for n in lim.saturating_sub(2)..=lim + 3 {
        ex.submit(run, e2e(chain(n), "e2e_chain"));
    }
    {
        let n = lim + 1;
        let mut g = chain(n);
        g[n - 1].ings.push(edge(n - 1, 0, n));
        ex.submit(run, e2e(g, "e2e_chain_closed"));
        let n = lim / 2;
        let mut g = chain(n);
        g[n - 1].ings.push(edge(n - 1, n / 2, n));
        ex.submit(run, e2e(g, "e2e_chain_closed"));
        let n = lim + 50;
        let mut g = chain(n);
        g[0].ings = (1..n).rev().map(|t| edge(0, t, n)).collect();
        ex.submit(run, e2e(g, "e2e_dag_long_path_short_walk"));
    }
    // over-deep off a later ingredient / a tree leaf, permuted labels, through the Reader
    for m in [lim - 1, lim, lim + 1] {
        ex.submit(run, e2e(deep_off_branch(2, m), "e2e_deep_off_later_ingredient"));
        ex.submit(run, e2e(permute(rng, &deep_off_branch(1, m)), "e2e_deep_off_later_ingredient_permuted"));
        if thorough {
            ex.submit(run, e2e(permute(rng, &deep_off_tree(3, m - 3)), "e2e_deep_off_tree_leaf_permuted"));
        }
    }
    for (k, (g, _)) in short_and_deep(lim).into_iter().enumerate() {
        // quick: the shortcut-first half and every other one of the rest
        if thorough || k < 11 || k % 2 == 0 {
            ex.submit(run, e2e(g, "e2e_short_and_deep"));
        }
    }
    ex.submit(run, e2e(ladder(8, true), "e2e_ladder_dangling_bottom"));
    // the from_store filter: ingredient assertions that pre-record the failure the validator
    // logs for them (missing manifest) must not make the report Valid
    for n in 1..=(if thorough { 3 } else { 2 }) {
        for g in exhaustive(n, true) {
            if !facts(&g).dangling.is_empty() {
                ex.submit(run, e2e_prerec(g, "e2e_prerecorded_exhaustive_dangling"));
            }
        }
    }
    {
        let mut g = chain(5);
        g[4].ings.push(edge(4, 9, 5));
        ex.submit(run, e2e_prerec(g, "e2e_prerecorded_chain_dangling_end"));
        let mut g = chain(3);
        g[0].ings.insert(0, edge(0, 7, 3));
        g[2].ings.push(edge(2, 7, 3));
        ex.submit(run, e2e_prerec(g, "e2e_prerecorded_dangling_twice"));
        // pre-recorded statuses do not turn the errors of a cyclic / over-deep graph into a report
        let mut g = chain(4);
        g[3].ings.push(edge(3, 1, 4));
        g[2].ings.push(edge(2, 9, 4));
        ex.submit(run, e2e_prerec(g, "e2e_prerecorded_cycle_and_dangling"));
        let mut g = deep_off_branch(1, lim + 1);
        let last = g.len() - 1;
        g[last].ings.push(edge(last, last + 9, last + 1));
        g[0].ings.push(edge(0, last + 9, last + 1));
        ex.submit(run, e2e_prerec(g, "e2e_prerecorded_over_deep_and_dangling"));
    }
    for _ in 0..(if thorough { 40 } else { 8 }) {
        let mut r = rng.fork();
        let n = r.range(2, 25) as usize;
        let (mut g, _) = random_graph(&mut r, n);
        for u in 0..n {
            g[u].sig_ok = true;
            g[u].has_hash = true;
            g[u].update = false;
        }
        let u = r.below(n as u64) as usize;
        g[u].ings.push(edge(u, n + 1 + r.below(2) as usize, n));
        ex.submit(run, e2e_prerec(g, "e2e_prerecorded_random"));
    }
    let n_e2e_random = if thorough { 160 } else { 30 };
    for k in 0..n_e2e_random {
        let mut r = rng.fork();
        let n = match r.below(10) {
            0..=5 => r.range(2, 15),
            6..=8 => r.range(16, 70),
            _ => r.range(71, 300),
        } as usize;
        let n = if k == 0 { 300 } else { n };
        // DAG with shared sub-graphs; then optionally a few malformations
        let mut g: Graph = (0..n).map(|_| node(vec![])).collect();
        for u in 0..n - 1 {
            for _ in 0..r.range(1, 3) {
                let span = if r.chance(2, 3) { 3 } else { n - u - 1 };
                let t = u + 1 + r.below(span.min(n - u - 1).max(1) as u64) as usize;
                g[u].ings.push(edge(u, t, n));
            }
        }
        let tag = match r.below(4) {
            0 => "e2e_random_dag",
            1 => {
                for _ in 0..r.range(1, 2) {
                    let u = r.below(n as u64) as usize;
                    let t = r.below(u as u64 + 1) as usize;
                    g[u].ings.push(edge(u, t, n));
                }
                "e2e_random_back_edge"
            }
            2 => {
                let u = r.below(n as u64) as usize;
                g[u].ings.push(edge(u, n + 1, n));
                "e2e_random_dangling"
            }
            _ => {
                // a wrong hash on one reference: Invalid, but not a graph defect
                let u = r.below(n as u64 - 1) as usize;
                g[u].ings[0].hash_ok = false;
                "e2e_random_hash_mismatch"
            }
        };
        ex.submit(run, e2e(g, tag));
    }
    run.notes.push("end-to-end graphs with pre-recorded statuses (e2e_prerecorded_random) keep the random parentOf flags: a verified non-update claim with more than one parentOf ingredient is Invalid by verify_claim's manifest.multipleParents rule, which the e2e model reply includes (it is not a graph event and not part of the theorems)".into());
    run.notes.push(format!("slowest end-to-end build+read: {:.1} ms", ex.max_ms));

    // 5. stack budget: the deepest walks on a thread with Rust's default 2 MiB stack, each in a
    // child process (an overflow aborts the process)
    run.notes.push("stack probes run the walk on a 2048 KiB stack (std::thread default) in a child process".into());
    probe(run, lim, "chain", lim, 2048);
    probe(run, lim, "e2e-chain", lim, 2048);
    probe(run, lim, "e2e-chain", lim + 3, 2048);
    probe(run, lim, "hb-deep", 1000, 2048);
    probe(run, lim, "hb-deep-reader", 1000, 2048);
    // on-demand extraction of an ingredient's manifest store (Store::build_flat_ingredient_store)
    // from a claim of an accepted store whose longest path is far beyond the limit
    probe(run, lim, "flat-long-path", 1500, 2048);
    if thorough {
        probe(run, lim, "flat-long-path", 6000, 8192);
        probe(run, lim, "hb-deep", 5000, 2048);
        probe(run, lim, "hb-deep", 3000, 8192);
        probe(run, lim, "hb-deep-reader", 3000, 8192);
    }
}

// ---------------------------------------------------------------------------------------
// end to end: properly signed stores read back through `Reader`
// ---------------------------------------------------------------------------------------

struct E2e {
    signer: EphemeralSigner,
    settings: c2pa::Settings,
    asset: Vec<u8>,
    asset_hash: Vec<u8>,
}

impl E2e {
    fn new() -> Self {
        let asset = std::fs::read(vh::common::fixtures().join("IMG_0003.jpg")).expect("fixture");
        let mut dh = DataHash::new("jumbf manifest", "sha256");
        dh.gen_hash_from_stream(&mut std::io::Cursor::new(&asset)).expect("hash");
        let mut settings = c2pa::Settings::default();
        settings.verify.verify_after_sign = false;
        E2e {
            signer: EphemeralSigner::new("c19.verif.test").expect("signer"),
            settings,
            asset,
            asset_hash: dh.hash.clone(),
        }
    }

    /// Manifest store (JUMBF) realising `g` with every claim really signed. An ingredient with
    /// `hash_ok` carries the target's real manifest box hash (only possible for targets
    /// committed before, i.e. larger indices).
    fn build(&self, g: &Graph, prerec: u8) -> c2pa::Result<Vec<u8>> {
        use c2pa::assertions::{Action, Actions};
        let mut store = hk::Store::new();
        for i in (0..g.len()).rev() {
            let n = &g[i];
            let mut c = hk::Claim::new_with_user_guid("verif", &label(i), 2)?;
            c.add_claim_generator_info(ClaimGeneratorInfo::new("verif"));
            if n.has_hash {
                let mut dh = DataHash::new("jumbf manifest", "sha256");
                dh.set_hash(self.asset_hash.clone());
                c.add_assertion(&dh)?;
            }
            let actions = Actions::new().add_action(
                Action::new("c2pa.created").set_source_type(c2pa::DigitalSourceType::DigitalCapture),
            );
            c.add_assertion(&actions)?;
            for ing in &n.ings {
                let uri = ing.target.map(|t| {
                    let hash = if ing.hash_ok {
                        let tc = store.get_claim(&label(t)).expect("hash_ok only for committed targets");
                        hk::store_manifest_box_hashes(&store, tc).0
                    } else {
                        vec![0u8; 32]
                    };
                    HashedUri::new(hk::to_manifest_uri(&label(t)), Some("sha256".into()), &hash)
                });
                match ing.target {
                    Some(t) if t >= g.len() && prerec > 0 => {
                        // what the two walkers log for this reference: code + bare label; the
                        // manifest URI form is recorded as well
                        let items = vec![
                            ("ingredient.manifest.missing".to_string(), label(t)),
                            ("ingredient.manifest.missing".to_string(), hk::to_manifest_uri(&label(t))),
                        ];
                        if prerec == 2 {
                            hk::claim_add_ingredient_v2_with_status(&mut c, "ingredient", "image/jpeg", ing.parent, uri, &items)?;
                        } else {
                            let failure: Vec<serde_json::Value> =
                                items.iter().map(|(c, u)| serde_json::json!({"code": c, "url": u})).collect();
                            let results: c2pa::ValidationResults = serde_json::from_value(
                                serde_json::json!({"activeManifest": {"success": [], "informational": [], "failure": failure}}),
                            )
                            .expect("validation results");
                            let rel = if ing.parent { c2pa::Relationship::ParentOf } else { c2pa::Relationship::ComponentOf };
                            hk20::claim_add_ingredient_v3(&mut c, rel, uri, None, Some(results))?;
                        }
                    }
                    _ => hk::claim_add_ingredient_v2(&mut c, "ingredient", "image/jpeg", ing.parent, uri)?,
                }
            }
            c.build()?;
            let sig = c2pa::cose_sign::sign_claim(&c.data()?, &self.signer, self.signer.reserve_size(), &self.settings)?;
            hk::claim_set_signature_val(&mut c, sig);
            hk::store_insert_restored_claim(&mut store, label(i), c);
        }
        hk::store_to_jumbf(&store, 0)
    }

    fn read(&self, jumbf: &[u8]) -> c2pa::Result<c2pa::Reader> {
        c2pa::Reader::from_context(Context::new()).with_manifest_data_and_stream(
            jumbf,
            "image/jpeg",
            std::io::Cursor::new(&self.asset),
        )
    }
}

fn run_e2e(env: &Env, g: &Graph, prerec: u8) -> String {
    let e = env.e2e.as_ref().expect("e2e env");
    let jumbf = match e.build(g, prerec) {
        Ok(j) => j,
        Err(err) => return format!("build-error:{err:?}").replace(' ', "_"),
    };
    match e.read(&jumbf) {
        Err(err) => format!("err:{}", err_class(&err).0),
        Ok(r) => match r.validation_state() {
            c2pa::ValidationState::Invalid => "flagged".into(),
            _ => "clean".into(),
        },
    }
}
