//! C14 — reserved-size padding is exact and signing succeeds for any ample reserve.
//!
//! Request lines (see lean/C2paModel/Model/C14.lean):
//!   C14 cose base=<B> k=<k> end=<-|e>  -> ok len=<L> pad=<-|n> pad2=<-|n> | err toosmall
//!     B    = tagged-CBOR size of the (unpadded) CoseSign1 handed to pad_cose_sig
//!     k    = number of entries of its unprotected header map
//!     e    = reserved box size (`-` = none)
//!     reply: resulting length and the byte lengths of the pad/pad2 entries found in the result
//!   C14 dh a=<A> pad=<p> pad2=<-|m> want=<T>                -> ok len=<L> pad=<p> pad2=<-|m> | err
//!     A    = size of the DataHash assertion CBOR with an empty pad and no pad2
//!   C14 sign base=<B> k=<k> end=<reserve>                   -> ok len=<L> pad=… pad2=… | err toosmall
//!     end-to-end `Builder::sign` with a signer that reports `reserve`; B and k are those of the
//!     COSE structure that signer produces; the reply is read from the signature box of the output.
//!   C14 save base=<B> k=<k> reserve=<r> direct=<0|1> t0=<T> a1=<A>  -> ok same sig=<n> dhpad=<p> dhpad2=<-|m>
//!                                                                   | ok shorter=<d> | ok longer=<d> | err toosmall | err jumbf
//!     the same end-to-end run seen as `save_to_stream`: T = CBOR size of the DataHash assertion written with the
//!     placeholder (= size of the final, padded one), A = size of the final DataHash with its pads removed;
//!     `same`: the hashed exclusion range has exactly the length of the manifest finally embedded.
//!     direct=1: the signer handles COSE itself (`direct_cose_handling`) and returns B bytes.

use std::io::Cursor;

use c2pa::{
    assertions::DataHash,
    verif_hooks::c14::{
        coset::{
            cbor::value::Value, iana, CoseSign1, CoseSign1Builder, HeaderBuilder, Label,
            TaggedCborSerializable,
        },
        data_hash_assertion_data, pad_cose_sig,
    },
    Builder, Context, EphemeralSigner, HashRange, Reader, Signer, SigningAlg, ValidationState,
};
use vh::common::{guarded, main_with, Rng, Run};

fn main() {
    main_with("C14", run);
}

// ---------------------------------------------------------------------------------------------
// COSE padding
// ---------------------------------------------------------------------------------------------

fn is_pad_label(l: &Label) -> Option<u8> {
    match l {
        Label::Text(t) if t == "pad" => Some(1),
        Label::Text(t) if t == "pad2" => Some(2),
        _ => None,
    }
}

#[derive(Clone)]
struct CoseCfg {
    sig_len: usize,
    cert_len: usize,
    tst_len: Option<usize>,
    extra: usize,
}

fn build_sign1(cfg: &CoseCfg, rng: &mut Rng) -> CoseSign1 {
    let protected = HeaderBuilder::new()
        .algorithm(iana::Algorithm::EdDSA)
        .value(33, Value::Bytes(rng.bytes(cfg.cert_len)))
        .build();
    let mut unprot = HeaderBuilder::new();
    if let Some(n) = cfg.tst_len {
        unprot = unprot.text_value(
            "sigTst2".to_string(),
            Value::Map(vec![(
                Value::Text("tstTokens".to_string()),
                Value::Array(vec![Value::Map(vec![(
                    Value::Text("val".to_string()),
                    Value::Bytes(rng.bytes(n)),
                )])]),
            )]),
        );
    }
    for i in 0..cfg.extra {
        unprot = unprot.text_value(format!("x{i}"), Value::Integer((i as u32).into()));
    }
    CoseSign1Builder::new()
        .protected(protected)
        .unprotected(unprot.build())
        .signature(rng.bytes(cfg.sig_len))
        .build()
}

fn ser(s: &CoseSign1) -> Vec<u8> {
    s.clone().to_tagged_vec().expect("serialise")
}

fn stripped(s: &CoseSign1) -> CoseSign1 {
    let mut t = s.clone();
    t.unprotected.rest.retain(|(l, _)| is_pad_label(l).is_none());
    t
}

/// Number of entries of the unprotected map as coset serialises it (no pads).
fn map_entries(s: &CoseSign1) -> usize {
    let h = &stripped(s).unprotected;
    h.alg.is_some() as usize
        + (!h.crit.is_empty()) as usize
        + h.content_type.is_some() as usize
        + (!h.key_id.is_empty()) as usize
        + (!h.iv.is_empty()) as usize
        + (!h.partial_iv.is_empty()) as usize
        + (!h.counter_signatures.is_empty()) as usize
        + h.rest.len()
}

fn opt(o: Option<usize>) -> String {
    o.map(|n| n.to_string()).unwrap_or_else(|| "-".to_string())
}

struct PadView {
    pad: Option<usize>,
    pad2: Option<usize>,
    dup: bool,
    nonzero: bool,
}

fn pads_of(s: &CoseSign1) -> PadView {
    let mut v = PadView { pad: None, pad2: None, dup: false, nonzero: false };
    for (l, val) in &s.unprotected.rest {
        if let Some(which) = is_pad_label(l) {
            let n = match val {
                Value::Bytes(b) => {
                    if b.iter().any(|x| *x != 0) {
                        v.nonzero = true;
                    }
                    b.len()
                }
                _ => {
                    v.nonzero = true;
                    0
                }
            };
            let slot = if which == 1 { &mut v.pad } else { &mut v.pad2 };
            if slot.is_some() {
                v.dup = true;
            }
            *slot = Some(n);
        }
    }
    v
}

fn describe_cose_bytes(bytes: &[u8]) -> (String, Option<CoseSign1>) {
    match CoseSign1::from_tagged_slice(bytes) {
        Ok(s) => {
            let v = pads_of(&s);
            (format!("ok len={} pad={} pad2={}", bytes.len(), opt(v.pad), opt(v.pad2)), Some(s))
        }
        Err(_) => (format!("ok len={} unparsable", bytes.len()), None),
    }
}

fn gap_class(over: usize) -> &'static str {
    // `over` = reserve − unpadded size, reserve ample in the sense of the property
    match over {
        0 => "cose-pad-exact-size-fails",
        1..=4 => "cose-pad-gap-1-4",
        5..=262 => "cose-pad-gap-5-262",
        263..=65542 => "cose-pad-window-fails",
        _ => "cose-pad-gap-ge-65543",
    }
}

/// One `pad_cose_sig` case: implementation call, canonical reply, property oracle.
fn cose_case(run: &mut Run, cfg: &CoseCfg, end: Option<usize>, rng: &mut Rng, tag: &str) {
    let input = build_sign1(cfg, rng);
    let base_s = stripped(&input);
    let base = ser(&base_s).len();
    let k = map_entries(&input);
    let req = format!("C14 cose base={base} k={k} end={}", opt(end));
    let mut work = input.clone();
    let res = guarded(std::panic::AssertUnwindSafe(|| pad_cose_sig(&mut work, end)));
    run.count(&format!("cose:{tag}"));
    // smallest size any padded form can have: one empty `pad` entry (measured on the implementation's
    // own serialiser, not taken from the model)
    let mut one = base_s.clone();
    one.unprotected.rest.push((Label::Text("pad".to_string()), Value::Bytes(vec![])));
    let min_padded = ser(&one).len();
    match res {
        Err(p) => {
            let idx = run.case(req, "panic".to_string());
            run.fail(idx, "panic", format!("pad_cose_sig panicked: {p}"));
        }
        Ok(Ok(bytes)) => {
            let (reply, parsed) = describe_cose_bytes(&bytes);
            let idx = run.case(req, reply);
            run.count("cose:ok");
            match end {
                None => {
                    if bytes != ser(&input) {
                        run.fail(idx, "cose-none-changed", "no reserve given but bytes differ from plain serialisation".into());
                    }
                }
                Some(e) => {
                    run.nontrivial(format!("cose:{base}:{k}:{e}"));
                    if bytes.len() != e {
                        run.fail(idx, "cose-pad-wrong-length", format!("Ok with {} bytes for reserve {e}", bytes.len()));
                    }
                    match parsed {
                        None => run.fail(idx, "cose-pad-unparsable", "padded bytes do not parse as CoseSign1".into()),
                        Some(s) => {
                            let v = pads_of(&s);
                            if v.dup {
                                run.fail(idx, "cose-pad-duplicate-label", "pad/pad2 label occurs twice".into());
                            }
                            if v.nonzero {
                                run.fail(idx, "cose-pad-nonzero", "padding is not all zero bytes".into());
                            }
                            if ser(&stripped(&s)) != ser(&base_s) {
                                run.fail(idx, "cose-pad-content-changed", "structure without pads differs from the input without pads".into());
                            }
                        }
                    }
                }
            }
        }
        Ok(Err(err)) => {
            let small = matches!(err, c2pa::crypto::cose::CoseError::BoxSizeTooSmall);
            let idx = run.case(req, if small { "err toosmall".into() } else { "err other".into() });
            run.count("cose:err");
            if let Some(e) = end {
                run.nontrivial(format!("cose:{base}:{k}:{e}"));
                // The property: a reserve that is at least the size needed must be met exactly.
                // "needed" = the unpadded size itself, or anything from the smallest padded form on.
                if e == base || e >= min_padded {
                    let over = e - base.min(e);
                    run.fail(idx, gap_class(over), format!(
                        "reserve {e} = unpadded {base} + {over} fails with a size error (smallest padded form {min_padded})"));
                } else if e > base {
                    // between the unpadded size and the smallest padded form: no CBOR map entry is
                    // that small; still a size error for a reserve larger than one that succeeds
                    run.fail(idx, "cose-pad-gap-1-4", format!(
                        "reserve {e} = unpadded {base} + {} fails although reserve {base} succeeds", e - base));
                }
            } else {
                run.fail(idx, "cose-none-error", "error without a reserve".into());
            }
        }
    }
}

fn boundary_overs() -> Vec<usize> {
    // reserve − unpadded size: neighbourhoods of every place where a CBOR length header grows
    let mut v: Vec<usize> = (0..=80).collect();
    for c in [24usize, 256, 65536] {
        for b in [c, c + 5, c + 6, c + 7, c + 9, c + 11, c + 12, c + 13, c + 14] {
            for d in 0..=16 {
                v.push(b + d);
                v.push(b.saturating_sub(d));
            }
        }
    }
    v.push(70000);
    v.push(69999);
    v.sort();
    v.dedup();
    v
}

fn cose_configs() -> Vec<(&'static str, CoseCfg)> {
    let c = |sig_len, cert_len, tst_len, extra| CoseCfg { sig_len, cert_len, tst_len, extra };
    vec![
        ("ed25519", c(64, 900, None, 0)),
        ("es256+tst", c(64, 1500, Some(3200), 0)),
        ("es384", c(96, 1700, None, 1)),
        ("es512", c(132, 2100, None, 0)),
        ("ps256+tst", c(256, 3000, Some(5000), 2)),
        ("ps384", c(384, 3300, None, 0)),
        ("ps512", c(512, 4100, None, 3)),
    ]
}

fn run_cose(run: &mut Run, rng: &mut Rng) {
    let thorough = run.thorough();
    let overs = boundary_overs();
    let cfgs = cose_configs();
    for (ci, (name, cfg)) in cfgs.iter().enumerate() {
        let base = ser(&stripped(&build_sign1(cfg, &mut rng.fork()))).len();
        // no reserve
        cose_case(run, cfg, None, rng, name);
        // below the unpadded size
        for d in [1usize, 2, 7, 100] {
            cose_case(run, cfg, Some(base.saturating_sub(d)), rng, name);
        }
        // every reserve (thorough: first two configurations; others every boundary + stride)
        if thorough && (ci < 2 || ci == 3 || ci == 6) {
            for over in 0..=70000usize {
                cose_case(run, cfg, Some(base + over), rng, name);
            }
        } else {
            // every reserve up to +3000 (covers the 24 and 256 boundaries of pad and of pad2 exhaustively)
            for over in 81..=3000usize {
                cose_case(run, cfg, Some(base + over), rng, name);
            }
            for over in &overs {
                cose_case(run, cfg, Some(base + over), rng, name);
            }
            let stride = if thorough { 37 } else { 997 };
            let mut over = 81 + rng.below(stride) as usize;
            while over <= 70000 {
                cose_case(run, cfg, Some(base + over), rng, name);
                over += stride as usize;
            }
        }
    }
    // unprotected map growing past 23 entries (map header 1 -> 2 bytes when the pads are added)
    for extra in [20usize, 21, 22, 23, 24, 30] {
        let cfg = CoseCfg { sig_len: 64, cert_len: 700, tst_len: None, extra };
        let base = ser(&stripped(&build_sign1(&cfg, &mut rng.fork()))).len();
        for over in &overs {
            if *over <= 300 || thorough {
                cose_case(run, &cfg, Some(base + over), rng, "map-boundary");
            }
        }
    }
}

// ---------------------------------------------------------------------------------------------
// DataHash::pad_to_size
// ---------------------------------------------------------------------------------------------

#[derive(Clone)]
struct DhCfg {
    name_len: usize,
    alg: &'static str,
    hash_len: usize,
    exclusions: Vec<(u64, u64)>,
}

fn build_dh(cfg: &DhCfg, pad: usize, pad2: Option<usize>) -> DataHash {
    let name: String = "n".repeat(cfg.name_len);
    let mut dh = DataHash::new(&name, cfg.alg);
    for (s, l) in &cfg.exclusions {
        dh.add_exclusion(HashRange::new(*s, *l));
    }
    dh.set_hash(vec![0xabu8; cfg.hash_len]);
    dh.add_padding(vec![0u8; pad]);
    dh.pad2 = pad2.map(|m| c2pa_bytebuf(m));
    dh
}

fn c2pa_bytebuf(m: usize) -> serde_bytes::ByteBuf {
    serde_bytes::ByteBuf::from(vec![0u8; m])
}

fn dh_len(dh: &DataHash) -> usize {
    data_hash_assertion_data(dh).expect("to_assertion").len()
}

fn dh_case(run: &mut Run, cfg: &DhCfg, pad: usize, pad2: Option<usize>, want: usize, tag: &str) {
    let a = dh_len(&build_dh(cfg, 0, None));
    let mut dh = build_dh(cfg, pad, pad2);
    let cur = dh_len(&dh);
    let req = format!("C14 dh a={a} pad={pad} pad2={} want={want}", opt(pad2));
    run.count(&format!("dh:{tag}"));
    let res = guarded(std::panic::AssertUnwindSafe(|| dh.pad_to_size(want)));
    match res {
        Err(p) => {
            let idx = run.case(req, "panic".into());
            run.fail(idx, "panic", format!("pad_to_size panicked: {p}"));
        }
        Ok(Ok(())) => {
            let len = dh_len(&dh);
            let p2 = dh.pad2.as_ref().map(|b| b.len());
            let idx = run.case(req, format!("ok len={len} pad={} pad2={}", dh.pad.len(), opt(p2)));
            run.count("dh:ok");
            run.nontrivial(format!("dh:{a}:{pad}:{}:{want}", opt(pad2)));
            if len != want {
                run.fail(idx, "dh-pad-wrong-length", format!("Ok with {len} bytes for desired {want}"));
            }
            let reference = build_dh(cfg, 0, None);
            if dh.hash != reference.hash || dh.exclusions != reference.exclusions || dh.name != reference.name || dh.alg != reference.alg {
                run.fail(idx, "dh-pad-content-changed", "hash/exclusions/name/alg changed by padding".into());
            }
            if dh.pad.iter().any(|b| *b != 0) || dh.pad2.as_ref().map(|b| b.iter().any(|x| *x != 0)).unwrap_or(false) {
                run.fail(idx, "dh-pad-nonzero", "padding not zero".into());
            }
        }
        Ok(Err(_)) => {
            let idx = run.case(req, "err".into());
            run.count("dh:err");
            run.nontrivial(format!("dh:{a}:{pad}:{}:{want}", opt(pad2)));
            // property: a desired size that is at least the current size must be met exactly.
            // Only the SDK-produced shape (no pad2 yet) is demanded; with a caller-set pad2 the
            // one retry is already used up, which the model states precisely.
            if want >= cur && pad2.is_none() {
                run.fail(idx, "dh-pad-ample-fails", format!("desired {want} >= current {cur} fails"));
            } else if want >= cur {
                run.count("dh:err-with-preset-pad2");
            }
        }
    }
}

fn dh_configs(rng: &mut Rng) -> Vec<(&'static str, DhCfg)> {
    let mut big = vec![];
    for _ in 0..12 {
        big.push((rng.next() >> rng.below(60), rng.next() >> rng.below(60)));
    }
    vec![
        ("sdk-placeholder", DhCfg { name_len: 14, alg: "sha256", hash_len: 32, exclusions: vec![(0, 2); 10] }),
        ("one-excl", DhCfg { name_len: 14, alg: "sha256", hash_len: 32, exclusions: vec![(20, 51234)] }),
        ("no-excl-sha512", DhCfg { name_len: 14, alg: "sha512", hash_len: 64, exclusions: vec![] }),
        ("many-excl-sha384", DhCfg { name_len: 30, alg: "sha384", hash_len: 48, exclusions: big }),
    ]
}

fn run_dh(run: &mut Run, rng: &mut Rng) {
    let thorough = run.thorough();
    let cfgs = dh_configs(rng);
    // growth of the assertion over its size with an empty pad at which the pad header grows
    let mut bumps: Vec<usize> = (0..=60).collect();
    for c in [24usize, 256, 65536] {
        for b in [c, c + 1, c + 2, c + 3, c + 6, c + 7, c + 8, c + 9, c + 10, c + 12] {
            for d in 0..=16 {
                bumps.push(b + d);
                bumps.push(b.saturating_sub(d));
            }
        }
    }
    bumps.push(70000);
    bumps.sort();
    bumps.dedup();
    for (ci, (name, cfg)) in cfgs.iter().enumerate() {
        let a = dh_len(&build_dh(cfg, 0, None));
        // too small
        for d in [1usize, 5] {
            dh_case(run, cfg, 10, None, a + 10 - d - 10, name);
        }
        // from an empty pad (byte at a time all the way): small targets, and the three header boundaries
        let from_zero: Vec<usize> = if thorough { (0..=3000).collect() } else { (0..=700).collect() };
        for g in from_zero {
            dh_case(run, cfg, 0, None, a + g, name);
        }
        if ci == 0 || thorough {
            // the 65536 boundary from an empty pad: the skipped sizes a+65539, a+65540 and neighbours
            for g in [65538usize, 65539, 65540, 65541] {
                dh_case(run, cfg, 0, None, a + g, "from-zero-64k");
            }
        }
        // every target up to +70000 (thorough: every value for the first configuration), started
        // from a pad close to the target so that a case costs a few steps
        let all: Vec<usize> = if thorough && ci < 2 {
            (0..=70000).collect()
        } else {
            let mut v = bumps.clone();
            let stride = if thorough { 53 } else { 1499 };
            let mut g = 61 + rng.below(stride) as usize;
            while g <= 70000 {
                v.push(g);
                g += stride as usize;
            }
            v
        };
        for g in all {
            let back = rng.range(0, 40) as usize;
            let pad = g.saturating_sub(back + 3);
            dh_case(run, cfg, pad, None, a + g, name);
        }
        // the SDK's own starting shape: pad of 10 bytes (start_save_stream), modest growth
        for g in 0..=40 {
            dh_case(run, cfg, 10, None, a + g, "pad10");
        }
    }
    // witness of `datahash_monotone_full_false`: pad2 preset, pad of 23 bytes — the current size succeeds,
    // one byte more is an error (the pad header grows at 24 and the single retry is used up)
    for (_, cfg) in cfgs.iter() {
        let cur = dh_len(&build_dh(cfg, 23, Some(0)));
        dh_case(run, cfg, 23, Some(0), cur, "preset-pad2-witness");
        dh_case(run, cfg, 23, Some(0), cur + 1, "preset-pad2-witness");
        dh_case(run, cfg, 23, Some(0), cur + 2, "preset-pad2-witness");
    }
    // caller-set pad2 (pub field) — outcome compared with the model; failures are not demanded away
    let n = if thorough { 4000 } else { 400 };
    for _ in 0..n {
        let cfg = &cfgs[rng.below(cfgs.len() as u64) as usize].1;
        let a = dh_len(&build_dh(cfg, 0, None));
        let pad = match rng.below(4) {
            0 => 0,
            1 => rng.range(0, 30) as usize,
            2 => rng.range(240, 260) as usize,
            _ => rng.range(65500, 65540) as usize,
        };
        let m = match rng.below(3) {
            0 => 0,
            1 => rng.range(0, 30) as usize,
            _ => rng.range(200, 300) as usize,
        };
        let cur = dh_len(&build_dh(cfg, pad, Some(m)));
        let want = match rng.below(3) {
            0 => cur + rng.range(0, 45) as usize,
            1 => cur.saturating_sub(rng.range(1, 5) as usize),
            _ => a + rng.range(0, 700) as usize,
        };
        dh_case(run, cfg, pad, Some(m), want, "preset-pad2");
    }
}

// ---------------------------------------------------------------------------------------------
// end to end: Builder::sign with a signer reporting a chosen reserve
// ---------------------------------------------------------------------------------------------

struct ReserveSigner<'a> {
    inner: &'a EphemeralSigner,
    reserve: usize,
}

impl Signer for ReserveSigner<'_> {
    fn sign(&self, data: &[u8]) -> c2pa::Result<Vec<u8>> {
        self.inner.sign(data)
    }

    fn alg(&self) -> SigningAlg {
        self.inner.alg()
    }

    fn certs(&self) -> c2pa::Result<Vec<Vec<u8>>> {
        self.inner.certs()
    }

    fn reserve_size(&self) -> usize {
        self.reserve
    }
}

/// A signer that does the COSE processing itself and returns a COSE_Sign1 padded to `produce` bytes.
struct DirectSigner<'a> {
    inner: &'a EphemeralSigner,
    reserve: usize,
    produce: usize,
}

impl Signer for DirectSigner<'_> {
    fn sign(&self, data: &[u8]) -> c2pa::Result<Vec<u8>> {
        let rs = ReserveSigner { inner: self.inner, reserve: self.produce };
        c2pa::cose_sign::sign_claim(data, &rs, self.produce, &c2pa::settings::Settings::default())
    }

    fn alg(&self) -> SigningAlg {
        self.inner.alg()
    }

    fn certs(&self) -> c2pa::Result<Vec<Vec<u8>>> {
        self.inner.certs()
    }

    fn reserve_size(&self) -> usize {
        self.reserve
    }

    fn direct_cose_handling(&self) -> bool {
        true
    }
}

fn cbor_hdr(n: usize) -> usize {
    if n < 24 {
        1
    } else if n < 256 {
        2
    } else if n < 65536 {
        3
    } else {
        5
    }
}

/// The CBOR content of the (single) `c2pa.hash.data` assertion box in `jumbf`.
fn data_hash_box(jumbf: &[u8]) -> Option<Vec<u8>> {
    let label = b"c2pa.hash.data\0";
    let pos = jumbf.windows(label.len()).position(|w| w == label)?;
    let mut after = pos + label.len();
    // the description box may end with a private salt box (`c2sh`) before the content box
    for _ in 0..3 {
        let lbox = u32::from_be_bytes(jumbf.get(after..after + 4)?.try_into().ok()?) as usize;
        if jumbf.get(after + 4..after + 8)? == b"cbor" {
            return Some(jumbf.get(after + 8..after + lbox)?.to_vec());
        }
        after += lbox.max(8);
    }
    None
}

struct DhView {
    total: usize,
    unpadded: usize,
    pad: usize,
    pad2: Option<usize>,
    /// length of the last exclusion range (the embedded manifest)
    manifest_range: Option<u64>,
}

fn view_data_hash(cbor: &[u8]) -> Option<DhView> {
    let v: Value = c2pa::verif_hooks::c14::coset::cbor::de::from_reader(cbor).ok()?;
    let m = v.as_map()?;
    let get = |k: &str| m.iter().find(|(a, _)| a.as_text() == Some(k)).map(|(_, b)| b);
    let pad = get("pad")?.as_bytes()?.len();
    let pad2 = match get("pad2") {
        Some(b) => Some(b.as_bytes()?.len()),
        None => None,
    };
    let manifest_range = get("exclusions").and_then(|e| e.as_array()).and_then(|a| a.last()).and_then(|r| r.as_map()).and_then(|r| {
        r.iter().find(|(a, _)| a.as_text() == Some("length")).and_then(|(_, b)| b.as_integer()).and_then(|i| u64::try_from(i).ok())
    });
    let mut unpadded = cbor.len() - (cbor_hdr(pad) + pad - 1);
    if let Some(m2) = pad2 {
        unpadded -= 5 + cbor_hdr(m2) + m2;
    }
    Some(DhView { total: cbor.len(), unpadded, pad, pad2, manifest_range })
}

const DEFINITION: &str = r#"{
  "claim_generator_info": [{"name": "verif-c14", "version": "1"}],
  "title": "c14",
  "assertions": [
    {"label": "c2pa.actions", "data": {"actions": [{"action": "c2pa.created", "digitalSourceType": "http://cv.iptc.org/newscodes/digitalsourcetype/digitalCapture"}]}}
  ]
}"#;

/// The CBOR content of the `c2pa.signature` box of the (single) manifest in `jumbf`.
fn signature_box(jumbf: &[u8]) -> Option<Vec<u8>> {
    let label = b"c2pa.signature\0";
    let pos = jumbf.windows(label.len()).position(|w| w == label)?;
    let after = pos + label.len();
    // next box: LBox(4) TBox("cbor") payload
    let lbox = u32::from_be_bytes(jumbf.get(after..after + 4)?.try_into().ok()?) as usize;
    if jumbf.get(after + 4..after + 8)? != b"cbor" {
        return None;
    }
    Some(jumbf.get(after + 8..after + lbox)?.to_vec())
}

fn sign_once(signer: &EphemeralSigner, reserve: usize, format: &str, source: &[u8]) -> Result<(Vec<u8>, Vec<u8>), String> {
    sign_with(&ReserveSigner { inner: signer, reserve }, true, format, source)
}

fn sign_with(rs: &dyn Signer, verify_after_sign: bool, format: &str, source: &[u8]) -> Result<(Vec<u8>, Vec<u8>), String> {
    let ctx = Context::new()
        .with_settings(format!(r#"{{"builder": {{"thumbnail": {{"enabled": false}}}}, "verify": {{"verify_after_sign": {verify_after_sign}}}}}"#))
        .map_err(|e| format!("settings {e}"))?;
    let mut builder = Builder::from_context(ctx)
        .with_definition(DEFINITION)
        .map_err(|e| format!("definition {e}"))?;
    let mut src = Cursor::new(source.to_vec());
    let mut dst = Cursor::new(Vec::new());
    let jumbf = builder
        .sign(rs, format, &mut src, &mut dst)
        .map_err(|e| match e {
            c2pa::Error::CoseSigboxTooSmall => "toosmall".to_string(),
            c2pa::Error::JumbfCreationError => "jumbf".to_string(),
            other => format!("other:{other:?}"),
        })?;
    Ok((jumbf, dst.into_inner()))
}

fn run_e2e(run: &mut Run, rng: &mut Rng) {
    let signer = match EphemeralSigner::new("c14.test") {
        Ok(s) => s,
        Err(e) => {
            run.notes.push(format!("ephemeral signer unavailable: {e}"));
            run.obligations.insert("e2e-signer-available".into(), false);
            return;
        }
    };
    let assets: Vec<(&str, Vec<u8>)> = [("image/jpeg", "earth_apollo17.jpg"), ("image/png", "sample1.png")]
        .iter()
        .filter_map(|(f, n)| std::fs::read(vh::common::fixtures().join(n)).ok().map(|b| (*f, b)))
        .collect();
    run.obligations.insert("e2e-fixtures-available".into(), assets.len() == 2);
    // reference signing with the signer's own reserve: learn the unpadded COSE size and map arity
    let mut learned: Option<(usize, usize)> = None;
    let mut ref_dh: Option<(usize, usize)> = None;
    if let Some((fmt, bytes)) = assets.first() {
        if let Ok((jumbf, _)) = sign_once(&signer, signer.reserve_size(), fmt, bytes) {
            if let Some(sig) = signature_box(&jumbf) {
                if let Ok(s) = CoseSign1::from_tagged_slice(&sig) {
                    learned = Some((ser(&stripped(&s)).len(), map_entries(&s)));
                }
            }
            ref_dh = data_hash_box(&jumbf).and_then(|b| view_data_hash(&b)).map(|v| (v.total, v.unpadded));
        }
    }
    run.obligations.insert("e2e-reference-data-hash".into(), ref_dh.is_some());
    let (ref_t0, ref_a1) = ref_dh.unwrap_or((0, 0));
    run.obligations.insert("e2e-reference-signing".into(), learned.is_some());
    let Some((base, k)) = learned else { return };
    run.notes.push(format!("e2e: unpadded COSE size {base}, unprotected entries {k}, signer default reserve {}", signer.reserve_size()));
    let mut overs: Vec<usize> = vec![0, 1, 4, 5, 6, 7, 8, 23, 28, 29, 30, 31, 261, 262, 263, 264, 1000, 65541, 65542, 65543, 65544, 65545, 66000];
    let extra = if run.thorough() { 60 } else { 8 };
    for _ in 0..extra {
        overs.push(match rng.below(3) {
            0 => rng.range(5, 300) as usize,
            1 => rng.range(300, 65000) as usize,
            _ => rng.range(65530, 70000) as usize,
        });
    }
    for (i, over) in overs.iter().enumerate() {
        let (fmt, bytes) = &assets[i % assets.len()];
        let reserve = base + over;
        let req = format!("C14 sign base={base} k={k} end={reserve}");
        run.count(&format!("e2e:{fmt}"));
        let res = guarded(std::panic::AssertUnwindSafe(|| sign_once(&signer, reserve, fmt, bytes)));
        match res {
            Err(p) => {
                let idx = run.case(req, "panic".into());
                run.fail(idx, "panic", format!("Builder::sign panicked: {p}"));
            }
            Ok(Err(e)) if e == "toosmall" => {
                run.case(format!("C14 save base={base} k={k} reserve={reserve} direct=0 t0={ref_t0} a1={ref_a1}"), "err toosmall".into());
                let idx = run.case(req, "err toosmall".into());
                run.nontrivial(format!("e2e:{reserve}"));
                if *over == 0 || *over >= 5 {
                    run.fail(idx, gap_class(*over), format!("Builder::sign fails with CoseSigboxTooSmall for reserve {reserve} = minimal {base} + {over}"));
                } else {
                    run.fail(idx, "cose-pad-gap-1-4", format!("Builder::sign fails for reserve {reserve} = minimal {base} + {over} although {base} succeeds"));
                }
            }
            Ok(Err(e)) => {
                let idx = run.case(req, "err other".into());
                run.fail(idx, "e2e-sign-error", format!("Builder::sign reserve {reserve}: {e}"));
            }
            Ok(Ok((jumbf, out))) => {
                let sig = signature_box(&jumbf);
                let reply = match &sig {
                    Some(s) => describe_cose_bytes(s).0,
                    None => "ok nosigbox".to_string(),
                };
                let idx = run.case(req, reply);
                run.nontrivial(format!("e2e:{reserve}"));
                save_case(run, base, k, reserve, false, &jumbf, out.len() - bytes.len(), sig.as_ref().map(|s| s.len()));
                if sig.as_ref().map(|s| s.len()) != Some(reserve) {
                    run.fail(idx, "e2e-sigbox-size", format!("signature box content {:?} bytes for reserve {reserve}", sig.as_ref().map(|s| s.len())));
                }
                // read back
                let out_copy = out.clone();
                let state = Reader::from_context(Context::new())
                    .with_stream(fmt, Cursor::new(out))
                    .map(|r| r.validation_state());
                match state {
                    Ok(ValidationState::Valid) | Ok(ValidationState::Trusted) => run.count("e2e:valid"),
                    Ok(s) => run.fail(idx, "e2e-not-valid", format!("reserve {reserve}: signed asset reads back {s:?}")),
                    Err(e) => {
                        if let Ok(d) = std::env::var("C14_DUMP") {
                            let _ = std::fs::write(format!("{d}/fail-{reserve}.bin"), &out_copy);
                        }
                        run.fail(idx, "e2e-read-error", format!("reserve {reserve}: {e}"))
                    }
                }
            }
        }
    }
}

/// The `save_to_stream` view of one successful end-to-end signing: is the hashed exclusion range as
/// long as the manifest that was finally embedded (`embedded` composed bytes)?
fn save_case(run: &mut Run, base: usize, k: usize, reserve: usize, direct: bool, jumbf: &[u8], embedded: usize, sig_len: Option<usize>) {
    let Some(v) = data_hash_box(jumbf).and_then(|b| view_data_hash(&b)) else {
        let idx = run.case(format!("C14 save base={base} k={k} reserve={reserve} direct={} t0=0 a1=0", direct as u8), "harness-error no-data-hash".into());
        run.fail(idx, "e2e-no-data-hash", "final manifest has no parsable c2pa.hash.data assertion".into());
        return;
    };
    let req = format!("C14 save base={base} k={k} reserve={reserve} direct={} t0={} a1={}", direct as u8, v.total, v.unpadded);
    let range = v.manifest_range.unwrap_or(0) as usize;
    let reply = if range == embedded {
        format!("ok same sig={} dhpad={} dhpad2={}", sig_len.unwrap_or(0), v.pad, opt(v.pad2))
    } else if embedded < range {
        format!("ok shorter={}", range - embedded)
    } else {
        format!("ok longer={}", embedded - range)
    };
    let idx = run.case(req, reply);
    run.count(if direct { "save:direct" } else { "save:padded-by-sdk" });
    run.nontrivial(format!("save:{reserve}:{direct}:{base}"));
    if range != embedded {
        if direct {
            // the signer is responsible for the size (Signer::direct_cose_handling); compared with the model only
            run.count("save:direct-size-differs");
        } else {
            run.fail(idx, "e2e-manifest-length-differs", format!(
                "hashed exclusion range {range} bytes but the embedded manifest has {embedded} bytes (reserve {reserve})"));
        }
    }
}

fn run_e2e_extra(run: &mut Run) {
    let Ok(signer) = EphemeralSigner::new("c14.test") else { return };
    let Ok(png) = std::fs::read(vh::common::fixtures().join("sample1.png")) else { return };
    // unpadded COSE size of this signer
    let Ok((jumbf, _)) = sign_once(&signer, signer.reserve_size(), "image/png", &png) else { return };
    let Some((base, k)) = signature_box(&jumbf)
        .and_then(|s| CoseSign1::from_tagged_slice(&s).ok())
        .map(|s| (ser(&stripped(&s)).len(), map_entries(&s)))
    else {
        return;
    };
    let (t0, a1) = data_hash_box(&jumbf).and_then(|b| view_data_hash(&b)).map(|v| (v.total, v.unpadded)).unwrap_or((0, 0));
    // reserves below the 32-byte floor of the signature placeholder and below the COSE size: a size error
    for reserve in [0usize, 1, 31, 32, 33, 100, base - 1] {
        let req = format!("C14 save base={base} k={k} reserve={reserve} direct=0 t0={t0} a1={a1}");
        run.count("save:reserve-too-small");
        match guarded(std::panic::AssertUnwindSafe(|| sign_once(&signer, reserve, "image/png", &png))) {
            Err(p) => {
                let idx = run.case(req, "panic".into());
                run.fail(idx, "panic", format!("Builder::sign panicked: {p}"));
            }
            Ok(Err(e)) if e == "toosmall" || e == "jumbf" => {
                run.case(req, format!("err {e}"));
                run.nontrivial(format!("save-small:{reserve}"));
            }
            Ok(Err(e)) => {
                let idx = run.case(req, "err other".into());
                run.fail(idx, "e2e-sign-error", format!("reserve {reserve}: {e}"));
            }
            Ok(Ok((jumbf, out))) => {
                let idx = run.case(req, "ok".into());
                run.fail(idx, "e2e-undersized-reserve-accepted", format!(
                    "reserve {reserve} < COSE size {base} signed ({} bytes of JUMBF, {} bytes out)", jumbf.len(), out.len()));
            }
        }
    }
    // direct COSE handling: the signer returns `produce` bytes for a reserve of `reserve`
    let reserve = base + 500;
    for produce in [reserve, reserve - 100, reserve + 50, base + 5] {
        let ds = DirectSigner { inner: &signer, reserve, produce };
        run.count("save:direct-case");
        match guarded(std::panic::AssertUnwindSafe(|| sign_with(&ds, false, "image/png", &png))) {
            Err(p) => {
                let idx = run.case(format!("C14 save base={produce} k=0 reserve={reserve} direct=1 t0={t0} a1={a1}"), "panic".into());
                run.fail(idx, "panic", format!("Builder::sign (direct) panicked: {p}"));
            }
            Ok(Err(e)) => {
                let idx = run.case(format!("C14 save base={produce} k=0 reserve={reserve} direct=1 t0={t0} a1={a1}"), format!("err {}", e.split(':').next().unwrap_or("other")));
                run.fail(idx, "e2e-sign-error", format!("direct signer reserve {reserve} produce {produce}: {e}"));
            }
            Ok(Ok((jumbf, out))) => {
                let sig = signature_box(&jumbf).map(|s| s.len());
                if sig != Some(produce) {
                    let idx = run.case(format!("C14 save base={produce} k=0 reserve={reserve} direct=1 t0={t0} a1={a1}"), "harness-error sigbox".into());
                    run.fail(idx, "e2e-direct-sig-changed", format!("direct signer returned {produce} bytes, signature box holds {sig:?}"));
                    continue;
                }
                save_case(run, produce, 0, reserve, true, &jumbf, out.len() - png.len(), sig);
                let state = Reader::from_context(Context::new()).with_stream("image/png", Cursor::new(out)).map(|r| r.validation_state());
                run.count(&format!("save:direct-readback:{}", match state {
                    Ok(ValidationState::Valid) | Ok(ValidationState::Trusted) => "valid".to_string(),
                    Ok(s) => format!("{s:?}"),
                    Err(_) => "read-error".to_string(),
                }));
            }
        }
    }
}

fn run(run: &mut Run, rng: &mut Rng) {
    run.rule = "a case is non-trivial when a reserve/desired size is given, i.e. the padding routine has to decide between exact padding and a size error (distinct by sizes, existing pads and target)".into();
    run_cose(run, &mut rng.fork());
    run_dh(run, &mut rng.fork());
    run_e2e(run, &mut rng.fork());
    run_e2e_extra(run);
}
