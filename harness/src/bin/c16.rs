//! C16 — Merkle proofs accept exactly the committed leaves.
//!
//! Real code driven: `C2PAMerkleTree::{from_leaves, to_layout, get_proof_by_index}` (hook
//! re-export, crate-private type) and the public `MerkleMap::check_merkle_tree`.
//!
//! Request lines (see lean/C2paModel/Model/C16.lean for the full protocol):
//!   C16 layout n=                       -> a,b,c
//!   C16 tree n= pat=                    -> layers as terms
//!   C16 proofs n= pat= depth=           -> per leaf `coords:bool;…`
//!   C16 proof n= pat= i= depth=         -> coords | err
//!   C16 check n= pat= count= row= v= loc= proof=  -> true|false
//!   C16 hcheck n= pat= row= idx= v=     -> true|false
//!
//! Values may also be `T|P|A|B<k>.<m>`: node k.m truncated by a byte / padded with a byte / its
//! first / second half (byte strings that are not digests).  A trailing `via=asset` marks a verdict
//! obtained end to end: a BMFF stream (ftyp, mdat, C2PA `merkle` uuid boxes) is crafted here and
//! judged by `BmffHash::verify_stream_hash` (mdat path, `validate_merkle_maps_mdat_boxes`).
//!
//! Leaves are identities (`i`, or `i % pat` for pat > 0); identity `k` has the digest
//! SHA-256("c16:<seed>:<k>").  The implementation's digests are turned into terms by
//! provenance (checked with SHA-256 here, independently of the tree code): see `name_layers`.

use std::collections::HashMap;

use c2pa::{
    assertions::{BmffHash, MerkleMap, VecByteBuf},
    verif_hooks::c16::{C2PAMerkleTree, MerkleNode},
};
use serde_bytes::ByteBuf;
use sha2::{Digest, Sha256};
use vh::common::{guarded, main_with, Rng, Run};

fn main() {
    main_with("C16", run);
}

fn sha(parts: &[&[u8]]) -> Vec<u8> {
    let mut h = Sha256::new();
    for p in parts {
        h.update(p);
    }
    h.finalize().to_vec()
}

struct World {
    seed: u64,
    trees: HashMap<(usize, usize), std::rc::Rc<TreeInfo>>,
}

struct TreeInfo {
    n: usize,
    ids: Vec<usize>,
    tree: C2PAMerkleTree,
    /// first coordinate (layer-major) of every digest of the implementation's layers
    first: HashMap<Vec<u8>, (usize, usize)>,
}

impl World {
    fn preimage(&self, id: usize) -> Vec<u8> {
        format!("c16:{}:{}", self.seed, id).into_bytes()
    }

    fn leaf_digest(&self, id: usize) -> Vec<u8> {
        sha(&[&self.preimage(id)])
    }

    fn ids(n: usize, pat: usize) -> Vec<usize> {
        (0..n).map(|i| if pat == 0 { i } else { i % pat }).collect()
    }

    fn tree(&mut self, n: usize, pat: usize) -> std::rc::Rc<TreeInfo> {
        if let Some(t) = self.trees.get(&(n, pat)) {
            return t.clone();
        }
        let ids = Self::ids(n, pat);
        // both construction paths of from_leaves are exercised (same resulting leaf digests)
        let hash_leaves = (n + pat) % 2 == 1;
        let leaves: Vec<MerkleNode> = ids
            .iter()
            .map(|&id| MerkleNode(if hash_leaves { self.preimage(id) } else { self.leaf_digest(id) }))
            .collect();
        let tree = C2PAMerkleTree::from_leaves(leaves, "sha256", hash_leaves);
        let mut first = HashMap::new();
        for (k, layer) in tree.layers.iter().enumerate() {
            for (m, node) in layer.iter().enumerate() {
                first.entry(node.0.clone()).or_insert((k, m));
            }
        }
        let t = std::rc::Rc::new(TreeInfo { n, ids, tree, first });
        self.trees.insert((n, pat), t.clone());
        t
    }
}

/// Name every digest of the implementation's layers by provenance. Layer 0: the identity
/// whose digest it is. Layer k+1: `(X.Y)` if the digest is SHA-256(x‖y) for neighbouring
/// digests x,y (either order) of the implementation's layer k named X,Y; `X` if it equals a
/// digest x of layer k; `?…` otherwise. Nothing here looks at positions in layer k+1.
fn name_layers(w: &World, t: &TreeInfo) -> Vec<Vec<String>> {
    let mut by_digest: HashMap<Vec<u8>, String> = HashMap::new();
    let mut idset: Vec<usize> = t.ids.clone();
    idset.sort();
    idset.dedup();
    for id in idset {
        by_digest.insert(w.leaf_digest(id), id.to_string());
    }
    let mut out: Vec<Vec<String>> = vec![];
    let mut prev: Vec<(Vec<u8>, String)> = vec![];
    for (k, layer) in t.tree.layers.iter().enumerate() {
        let table: HashMap<Vec<u8>, String> = if k == 0 {
            by_digest.clone()
        } else {
            let mut tb = HashMap::new();
            for (d, nm) in &prev {
                tb.entry(d.clone()).or_insert(nm.clone());
            }
            for pair in prev.windows(2) {
                let (x, xn) = (&pair[0].0, &pair[0].1);
                let (y, yn) = (&pair[1].0, &pair[1].1);
                tb.entry(sha(&[x, y])).or_insert(format!("({xn}.{yn})"));
                tb.entry(sha(&[y, x])).or_insert(format!("({yn}.{xn})"));
            }
            for (x, xn) in &prev {
                tb.entry(sha(&[x, x])).or_insert(format!("({xn}.{xn})"));
            }
            tb
        };
        let names: Vec<String> = layer
            .iter()
            .map(|node| table.get(&node.0).cloned().unwrap_or_else(|| format!("?{}", &hex::encode(&node.0)[..8.min(node.0.len() * 2)])))
            .collect();
        prev = layer.iter().map(|n| n.0.clone()).zip(names.iter().cloned()).collect();
        out.push(names);
    }
    out
}

fn merkle_map(count: usize, hashes: &[Vec<u8>]) -> MerkleMap {
    MerkleMap {
        unique_id: 0,
        local_id: 0,
        count,
        alg: Some("sha256".to_string()),
        init_hash: None,
        hashes: VecByteBuf(hashes.iter().map(|h| ByteBuf::from(h.clone())).collect()),
        fixed_block_size: None,
        variable_block_sizes: None,
    }
}

fn check(count: usize, row: &[Vec<u8>], v: &[u8], loc: usize, proof: &Option<Vec<Vec<u8>>>) -> bool {
    let mm = merkle_map(count, row);
    let p = proof.as_ref().map(|p| VecByteBuf(p.iter().map(|h| ByteBuf::from(h.clone())).collect()));
    mm.check_merkle_tree("sha256", v, loc, &p)
}

fn row_of(t: &TreeInfo, k: usize) -> Vec<Vec<u8>> {
    t.tree.layers[k].iter().map(|n| n.0.clone()).collect()
}

fn coords(t: &TreeInfo, proof: &[Vec<u8>]) -> String {
    if proof.is_empty() {
        return "-".to_string();
    }
    proof
        .iter()
        .map(|d| match t.first.get(d) {
            Some((k, m)) => format!("{k}.{m}"),
            None => "?".to_string(),
        })
        .collect::<Vec<_>>()
        .join(",")
}

#[derive(Clone, Debug)]
enum Val {
    L(usize),
    N(usize, usize),
    /// node k.m with the last byte removed
    T(usize, usize),
    /// node k.m followed by one more byte
    P(usize, usize),
    /// first half of node k.m
    A(usize, usize),
    /// second half of node k.m
    B(usize, usize),
}

impl Val {
    fn s(&self) -> String {
        match self {
            Val::L(i) => format!("L{i}"),
            Val::N(k, m) => format!("N{k}.{m}"),
            Val::T(k, m) => format!("T{k}.{m}"),
            Val::P(k, m) => format!("P{k}.{m}"),
            Val::A(k, m) => format!("A{k}.{m}"),
            Val::B(k, m) => format!("B{k}.{m}"),
        }
    }

    fn digest(&self, w: &World, t: &TreeInfo) -> Vec<u8> {
        match self {
            Val::L(i) => w.leaf_digest(*i),
            Val::N(k, m) => t.tree.layers[*k][*m].0.clone(),
            Val::T(k, m) => {
                let d = &t.tree.layers[*k][*m].0;
                d[..d.len() - 1].to_vec()
            }
            Val::P(k, m) => {
                let mut d = t.tree.layers[*k][*m].0.clone();
                d.push(0x5a);
                d
            }
            Val::A(k, m) => {
                let d = &t.tree.layers[*k][*m].0;
                d[..d.len() / 2].to_vec()
            }
            Val::B(k, m) => {
                let d = &t.tree.layers[*k][*m].0;
                d[d.len() / 2..].to_vec()
            }
        }
    }
}

/// The statement's own notion of "the generated proof of leaf `i` against row `k` is empty",
/// computed from sizes only (independent of the tree code and of the model): on the way up to row
/// `k` the node never has a sibling.
fn needs_no_sibling(n: usize, i: usize, k: usize) -> bool {
    let (mut size, mut idx) = (n, i);
    for _ in 0..k {
        if size <= 1 {
            break;
        }
        if idx % 2 == 1 || idx + 1 < size {
            return false;
        }
        idx /= 2;
        size = size.div_ceil(2);
    }
    true
}

fn vals_s(v: &[Val]) -> String {
    if v.is_empty() {
        "-".to_string()
    } else {
        v.iter().map(|x| x.s()).collect::<Vec<_>>().join(",")
    }
}

fn random_node(t: &TreeInfo, r: &mut Rng) -> Val {
    let k = r.below(t.tree.layers.len() as u64) as usize;
    let m = r.below(t.tree.layers[k].len() as u64) as usize;
    Val::N(k, m)
}

fn random_val(t: &TreeInfo, r: &mut Rng) -> Val {
    match r.below(4) {
        0 => Val::L(1_000_000 + r.below(1000) as usize),
        1 => Val::L(r.below(t.n as u64 + 2) as usize),
        _ => random_node(t, r),
    }
}

pub fn run(run: &mut Run, rng: &mut Rng) {
    run.rule = "a case is non-trivial when it plays back a proof through at least one combining step (n ≥ 2, row ≥ 1) or is a mutation of such a case; distinct by (n, pattern, row/depth, index, mutation text)".to_string();
    let mut w = World { seed: rng.next() % 1_000_000, trees: HashMap::new() };
    let nmax: usize = if run.thorough() { 300 } else { 64 };
    let dup_nmax: usize = if run.thorough() { 70 } else { 33 };
    let dup_pats: &[usize] = &[1, 2, 3, 5];
    let mut all_honest_ok = true;
    let mut layout_ok = true;

    // 1. layouts (also beyond the tree sizes) and the implementation-side layout/tree agreement
    let mut sizes: Vec<usize> = (0..=nmax + 2).collect();
    sizes.extend([511, 512, 513, 1000, 4095, 4096, 4097, 65535, 65537, 1_000_001]);
    for n in sizes {
        let lay = C2PAMerkleTree::to_layout(n);
        let idx = run.case(
            format!("C16 layout n={n}"),
            lay.iter().map(|x| x.to_string()).collect::<Vec<_>>().join(","),
        );
        run.count("layout");
        if n <= nmax {
            let t = w.tree(n, 0);
            let lens: Vec<usize> = t.tree.layers.iter().map(|l| l.len()).collect();
            if lens != lay {
                layout_ok = false;
                run.fail(idx, "layout-differs-from-tree", format!("n={n}: to_layout {lay:?} but generated layers have sizes {lens:?}"));
            }
        }
    }

    // 2. trees as terms
    for n in 0..=nmax {
        let mut pats = vec![0usize];
        if n <= dup_nmax {
            pats.extend_from_slice(dup_pats);
        }
        for pat in pats {
            let t = w.tree(n, pat);
            let names = name_layers(&w, &t);
            let reply = names.iter().map(|l| l.join(",")).collect::<Vec<_>>().join("/");
            run.case(format!("C16 tree n={n} pat={pat}"), reply);
            run.count("tree");
        }
    }

    // 3. every honest proof: every n, every index, every max-proof depth (0 ..= layers+1), and
    //    the property oracle on the implementation: the proof verifies against that row.
    for n in 1..=nmax {
        let mut pats = vec![0usize];
        if n <= dup_nmax {
            pats.extend_from_slice(dup_pats);
        }
        for pat in pats {
            let t = w.tree(n, pat);
            let nl = t.tree.layers.len();
            for depth in 0..=nl + 1 {
                let rowk = depth.min(nl - 1);
                let row = row_of(&t, rowk);
                let mut parts = vec![];
                let mut bad: Vec<String> = vec![];
                // leaves whose generated proof is empty: producers write `hashes = None` for them
                let mut wire_none: Vec<usize> = vec![];
                for i in 0..n {
                    match t.tree.get_proof_by_index(i, depth) {
                        Ok(p) => {
                            let ok = check(n, &row, &t.tree.leaves[i].0, i, &Some(p.clone()));
                            if !ok {
                                bad.push(format!("leaf {i}"));
                            }
                            parts.push(format!("{}:{}", coords(&t, &p), ok));
                            if n >= 2 && rowk >= 1 {
                                run.nontrivial(format!("h{n}.{pat}.{depth}.{i}"));
                            }
                            if p.is_empty() {
                                wire_none.push(i);
                            }
                        }
                        Err(_) => {
                            bad.push(format!("leaf {i} (no proof)"));
                            parts.push("err".to_string());
                        }
                    }
                }
                let idx = run.case(format!("C16 proofs n={n} pat={pat} depth={depth}"), parts.join(";"));
                run.count("honest_proof_rows");
                *run.dist.entry("honest_proofs".to_string()).or_insert(0) += n as u64;
                if !bad.is_empty() {
                    all_honest_ok = false;
                    run.fail(idx, "honest-proof-rejected", format!("n={n} pat={pat} max_proof_len={depth} (row {rowk}): generated proof does not verify for {}", bad.join(", ")));
                }
                // the wire form of an empty generated proof is `None`, against a row >= 1 too
                if rowk >= 1 && depth < nl {
                    for i in wire_none {
                        let ok = check(n, &row, &t.tree.leaves[i].0, i, &None);
                        let idx = run.case(
                            format!("C16 check n={n} pat={pat} count={n} row=R{rowk} v=N0.{i} loc={i} proof=none"),
                            ok.to_string(),
                        );
                        run.count("honest_wire_none_row_ge1");
                        run.nontrivial(format!("w{n}.{pat}.{rowk}.{i}"));
                        if !needs_no_sibling(n, i, rowk) {
                            all_honest_ok = false;
                            run.fail(idx, "empty-proof-generated-for-paired-leaf", format!("n={n} row {rowk}: get_proof_by_index({i}) is empty although the leaf has a sibling below the row"));
                        } else if !ok {
                            all_honest_ok = false;
                            run.fail(idx, "honest-proof-rejected", format!("n={n} pat={pat} row {rowk}: leaf {i} carried up unpaired, wire proof None not accepted"));
                        }
                    }
                }
            }
            // empty-proof playback against the leaf row (the path used for mdat leaves)
            if pat == 0 || n <= 12 {
                let row0 = row_of(&t, 0);
                for i in 0..n {
                    let ok = check(n, &row0, &t.tree.leaves[i].0, i, &None);
                    let idx = run.case(
                        format!("C16 check n={n} pat={pat} count={n} row=R0 v=N0.{i} loc={i} proof=none"),
                        ok.to_string(),
                    );
                    run.count("honest_none_proof");
                    if !ok {
                        all_honest_ok = false;
                        run.fail(idx, "honest-proof-rejected", format!("n={n}: leaf {i} not accepted by empty-proof playback against the leaf row"));
                    }
                }
            }
        }
    }

    // 4. index out of range for proof generation
    for n in 0..=nmax.min(40) {
        for (i, depth) in [(n, 3usize), (n + 1, 0), (n + 1000, 9), (usize::MAX / 2, 2)] {
            let t = w.tree(n, 0);
            let r = t.tree.get_proof_by_index(i, depth);
            let reply = match &r {
                Ok(p) => coords(&t, p),
                Err(_) => "err".to_string(),
            };
            let idx = run.case(format!("C16 proof n={n} pat=0 i={i} depth={depth}"), reply);
            run.count("proof_index_out_of_range");
            if r.is_ok() {
                run.fail(idx, "out-of-range-proof-produced", format!("n={n}: get_proof_by_index({i}) returned a proof"));
            }
        }
    }

    // 4b. hash_check directly (public): in range / out of range / wrong value
    for _ in 0..(if run.thorough() { 4000 } else { 1000 }) {
        let mut r = rng.fork();
        let n = r.range(1, nmax.min(80) as u64) as usize;
        let t = w.tree(n, 0);
        let k = r.below(t.tree.layers.len() as u64) as usize;
        let row = row_of(&t, k);
        let idx_in = r.below(row.len() as u64) as usize;
        let (idx, v) = match r.below(4) {
            0 => (idx_in, Val::N(k, idx_in)),
            1 => (row.len() + r.below(3) as usize, Val::N(k, idx_in)),
            2 => (idx_in, random_val(&t, &mut r)),
            _ => (r.below(row.len() as u64 + 2) as usize, random_val(&t, &mut r)),
        };
        let vd = v.digest(&w, &t);
        let got = merkle_map(n, &row).hash_check(idx, &vd);
        let case = run.case(format!("C16 hcheck n={n} pat=0 row=R{k} idx={idx} v={}", v.s()), got.to_string());
        run.count("hash_check");
        let expect = idx < row.len() && row[idx] == vd;
        if got != expect {
            run.fail(case, if got { "altered-input-accepted" } else { "honest-proof-rejected" }, format!("hash_check({idx}) on a row of {} returned {got}", row.len()));
        }
    }

    // 4c. absent proof against every row >= 1: every node of the row offered as the value of the
    //     first and the last leaf below it. The statement accepts only a leaf that is carried up
    //     unpaired (its generated proof is empty) -- never an inner node.
    let mut inner_ok = true;
    for n in 2..=nmax.min(if run.thorough() { 130 } else { 48 }) {
        for pat in [0usize, 1] {
            if pat == 1 && n > 12 {
                continue;
            }
            let t = w.tree(n, pat);
            let nl = t.tree.layers.len();
            for k in 1..nl {
                let row = row_of(&t, k);
                for m in 0..row.len() {
                    let first = m << k;
                    let last = (((m + 1) << k) - 1).min(n - 1);
                    for loc in if first == last { vec![first] } else { vec![first, last] } {
                        let got = check(n, &row, &row[m], loc, &None);
                        let idx = run.case(
                            format!("C16 check n={n} pat={pat} count={n} row=R{k} v=N{k}.{m} loc={loc} proof=none"),
                            got.to_string(),
                        );
                        run.count("none_proof_row_node_as_leaf");
                        run.nontrivial(format!("x{n}.{pat}.{k}.{m}.{loc}"));
                        let expect = row[m] == t.tree.leaves[loc].0 && needs_no_sibling(n, loc, k);
                        if got != expect {
                            inner_ok = false;
                            run.fail(
                                idx,
                                if got { "inner-node-accepted-as-leaf" } else { "honest-proof-rejected" },
                                format!("n={n} row {k}: check_merkle_tree(value = node {m} of the stored row, location {loc}, proof None) returned {got}; the committed leaf {loc} is {}that node", if row[m] == t.tree.leaves[loc].0 { "" } else { "not " }),
                            );
                        }
                    }
                }
            }
        }
    }
    run.obligations.insert("absent-proof-never-accepts-an-inner-node".to_string(), inner_ok);

    // 4d. end to end through BmffHash::verify_stream_hash on crafted BMFF streams
    let nasset = if run.thorough() { 20_000 } else { 2_000 };
    let mut asset_ok = true;
    for _ in 0..nasset {
        let mut r = rng.fork();
        asset_case(run, &mut r, &mut asset_ok);
    }
    run.obligations.insert("asset-level-verdict-follows-the-statement".to_string(), asset_ok);

    // 4d'. the leaf index is the chunk's position: chunks moved together with their uuid boxes
    //      (mdat UUID-box branch with 1..3 mdat boxes; fragmented single-file branch)
    let nplace = if run.thorough() { 12_000 } else { 1_500 };
    let mut place_ok = true;
    for _ in 0..nplace {
        let mut r = rng.fork();
        placement_case(run, &mut r, &mut place_ok);
    }
    for _ in 0..nplace / 3 {
        let mut r = rng.fork();
        fragment_case(run, &mut r, &mut place_ok);
    }
    run.obligations.insert("content-at-every-chunk-position-is-the-committed-content".to_string(), place_ok);

    // 4e. (not compared, not judged) the documented function-level exception: a value that is not
    //     an `alg` digest. concat_and_hash has no framing, so value = last 16 bytes of the right leaf
    //     with the proof element (left leaf || first 16 bytes of the right leaf) is accepted. No call
    //     site can pass such a value (it is always the output of hash_stream_by_alg / Hasher).
    {
        let t = w.tree(2, 0);
        let (l, rr) = (t.tree.leaves[0].0.clone(), t.tree.leaves[1].0.clone());
        let mut p = l.clone();
        p.extend_from_slice(&rr[..16]);
        let got = check(2, &row_of(&t, 1), &rr[16..], 1, &Some(vec![p]));
        run.count(if got { "framing_exception_short_value_accepted" } else { "framing_exception_short_value_rejected" });
        run.notes.push(format!("function-level only: 16-byte value + 48-byte proof element re-splitting l||r at index 1 of a 2-leaf tree: check_merkle_tree = {got} (outside the statement: the value is not a digest; see registry assumptions)"));
    }

    // 5. mutations
    let nmut = if run.thorough() { 250_000 } else { 30_000 };
    for _ in 0..nmut {
        let mut r = rng.fork();
        mutation(run, &mut w, &mut r, nmax, dup_nmax);
    }

    run.obligations.insert("every-generated-proof-verifies".to_string(), all_honest_ok);
    run.obligations.insert("layout-equals-generated-layer-sizes".to_string(), layout_ok);
}

// ---- asset level -------------------------------------------------------------------------------

fn cbor_head(out: &mut Vec<u8>, major: u8, n: u64) {
    let m = major << 5;
    if n < 24 {
        out.push(m | n as u8);
    } else if n < 0x100 {
        out.extend_from_slice(&[m | 24, n as u8]);
    } else if n < 0x1_0000 {
        out.push(m | 25);
        out.extend_from_slice(&(n as u16).to_be_bytes());
    } else {
        out.push(m | 26);
        out.extend_from_slice(&(n as u32).to_be_bytes());
    }
}

/// CBOR of a `BmffMerkleMap` { uniqueId: 0, localId: 0, location, hashes? } (absent = `None`)
fn bmff_merkle_map_cbor(location: usize, hashes: &Option<Vec<Vec<u8>>>) -> Vec<u8> {
    bmff_merkle_map_cbor_id(0, location, hashes)
}

fn bmff_merkle_map_cbor_id(id: usize, location: usize, hashes: &Option<Vec<Vec<u8>>>) -> Vec<u8> {
    let mut o = vec![];
    cbor_head(&mut o, 5, if hashes.is_some() { 4 } else { 3 });
    for (k, v) in [("uniqueId", id as u64), ("localId", id as u64), ("location", location as u64)] {
        cbor_head(&mut o, 3, k.len() as u64);
        o.extend_from_slice(k.as_bytes());
        cbor_head(&mut o, 0, v);
    }
    if let Some(hs) = hashes {
        cbor_head(&mut o, 3, 6);
        o.extend_from_slice(b"hashes");
        cbor_head(&mut o, 4, hs.len() as u64);
        for h in hs {
            cbor_head(&mut o, 2, h.len() as u64);
            o.extend_from_slice(h);
        }
    }
    o
}

const C2PA_UUID: [u8; 16] = [0xd8, 0xfe, 0xc3, 0xd6, 0x1b, 0x0e, 0x48, 0x3c, 0x92, 0x97, 0x58, 0x28, 0x87, 0x7e, 0xc4, 0x81];

/// ftyp, mdat (8 excluded bytes + the chunks), one C2PA `merkle` uuid box per map entry
fn build_asset(chunks: &[Vec<u8>], maps: &[(usize, Option<Vec<Vec<u8>>>)]) -> Vec<u8> {
    let mut f = vec![];
    f.extend_from_slice(&20u32.to_be_bytes());
    f.extend_from_slice(b"ftypisom\0\0\0\0isom");
    let payload: usize = chunks.iter().map(|c| c.len()).sum();
    f.extend_from_slice(&((8 + 8 + payload) as u32).to_be_bytes());
    f.extend_from_slice(b"mdat");
    f.extend_from_slice(b"EXCLUDED");
    for c in chunks {
        f.extend_from_slice(c);
    }
    for (loc, hashes) in maps {
        f.extend_from_slice(&merkle_uuid_box(&bmff_merkle_map_cbor(*loc, hashes)));
    }
    f
}

/// a C2PA `merkle` uuid box around the CBOR of one `BmffMerkleMap`
fn merkle_uuid_box(cbor: &[u8]) -> Vec<u8> {
    let mut f = vec![];
    let size = 8 + 16 + 4 + 7 + cbor.len();
    f.extend_from_slice(&(size as u32).to_be_bytes());
    f.extend_from_slice(b"uuid");
    f.extend_from_slice(&C2PA_UUID);
    f.extend_from_slice(&[0, 0, 0, 0]);
    f.extend_from_slice(b"merkle\0");
    f.extend_from_slice(cbor);
    f
}

fn node_token(tree: &C2PAMerkleTree, d: &[u8]) -> String {
    for (k, layer) in tree.layers.iter().enumerate() {
        for (m, node) in layer.iter().enumerate() {
            if node.0 == d {
                return format!("N{k}.{m}");
            }
        }
    }
    "L999999999".to_string()
}

fn proof_tokens(tree: &C2PAMerkleTree, p: &Option<Vec<Vec<u8>>>) -> String {
    match p {
        None => "none".to_string(),
        Some(p) if p.is_empty() => "-".to_string(),
        Some(p) => p.iter().map(|d| node_token(tree, d)).collect::<Vec<_>>().join(","),
    }
}

/// One crafted BMFF stream judged by `BmffHash::verify_stream_hash`. All chunks but one are
/// honest, so the verdict of the asset is the verdict of the one altered (or honest) leaf check,
/// which is what the request line describes.
fn asset_case(run: &mut Run, r: &mut Rng, all_ok: &mut bool) {
    let n = r.range(2, 12) as usize;
    let block = if r.chance(1, 2) { 64 } else { r.range(65, 200) as usize };
    let mut chunks: Vec<Vec<u8>> = (0..n - 1).map(|_| r.bytes(block)).collect();
    // a last chunk of 64 bytes is a legal length for every block size used here
    let last_len = if r.chance(1, 2) { 64 } else { r.range(1, block as u64) as usize };
    chunks.push(r.bytes(last_len));
    let leaves: Vec<MerkleNode> = chunks.iter().map(|c| MerkleNode(sha(&[c]))).collect();
    let tree = C2PAMerkleTree::from_leaves(leaves, "sha256", false);
    let nl = tree.layers.len();
    let depth = r.range(0, nl as u64) as usize;
    let rowk = depth.min(nl - 1);
    let row: Vec<Vec<u8>> = tree.layers[rowk].iter().map(|x| x.0.clone()).collect();
    let wire = |i: usize| -> Option<Vec<Vec<u8>>> {
        let p = tree.get_proof_by_index(i, depth).unwrap_or_default();
        if p.is_empty() {
            None
        } else {
            Some(p)
        }
    };
    let mut maps: Vec<(usize, Option<Vec<Vec<u8>>>)> = (0..n).map(|i| (i, wire(i))).collect();
    let i = if block == 64 || r.chance(1, 2) { r.below(n as u64) as usize } else { n - 1 };
    let with_proof: Vec<usize> = (0..n).filter(|&j| maps[j].1.is_some()).collect();

    let mut kind = "honest";
    let mut v_tok = format!("N0.{i}");
    let mut loc = i;
    let mut proof_tok = proof_tokens(&tree, &maps[i].1);
    let mut expect = true;
    match r.below(7) {
        0 | 1 => {
            // the chunk is replaced by (left child || right child) of the stored-row node above it;
            // possible where the chunk may be 64 bytes long: any chunk for block 64, else the last
            let i2 = if block == 64 { i } else { n - 1 };
            let (mut lvl, mut idx) = (rowk, i2 >> rowk);
            let mut lr: Option<Vec<u8>> = None;
            while lvl > 0 {
                let below = &tree.layers[lvl - 1];
                if 2 * idx + 1 < below.len() {
                    let mut c = below[2 * idx].0.clone();
                    c.extend_from_slice(&below[2 * idx + 1].0);
                    lr = Some(c);
                    break;
                }
                idx *= 2;
                lvl -= 1;
            }
            if let Some(c) = lr {
                kind = "chunk-is-children-of-row-node";
                chunks[i2] = c;
                maps[i2] = (i2, None);
                loc = i2;
                v_tok = format!("N{rowk}.{}", i2 >> rowk);
                proof_tok = "none".to_string();
                expect = false;
            }
        }
        2 => {
            kind = "chunk-byte-flipped";
            let pos = r.below(chunks[i].len() as u64) as usize;
            chunks[i][pos] ^= 1 << r.below(8);
            v_tok = format!("L{}", 1_000_000 + r.below(1000));
            expect = false;
        }
        3 => {
            kind = "location-of-another-leaf";
            let j = (i + 1 + r.below(n as u64 - 1) as usize) % n;
            maps[i].0 = j;
            loc = j;
            expect = false;
        }
        4 => {
            if let Some(&j) = with_proof.first() {
                kind = "proof-removed";
                let j = if with_proof.contains(&i) { i } else { j };
                maps[j].1 = None;
                loc = j;
                v_tok = format!("N0.{j}");
                proof_tok = "none".to_string();
                expect = false;
            }
        }
        5 => {
            if let Some(&j) = with_proof.first() {
                kind = "proof-element-truncated";
                let j = if with_proof.contains(&i) { i } else { j };
                let mut p = maps[j].1.clone().unwrap_or_default();
                let pos = r.below(p.len() as u64) as usize;
                let mut toks: Vec<String> = p.iter().map(|d| node_token(&tree, d)).collect();
                toks[pos] = toks[pos].replacen('N', "T", 1);
                p[pos].pop();
                maps[j].1 = Some(p);
                loc = j;
                v_tok = format!("N0.{j}");
                proof_tok = toks.join(",");
                expect = false;
            }
        }
        _ => {}
    }

    let asset = build_asset(&chunks, &maps);
    let mut bh = BmffHash::new("jumbf manifest", "sha256", None);
    bh.set_default_exclusions();
    bh.set_merkle(vec![MerkleMap {
        unique_id: 0,
        local_id: 0,
        count: n,
        alg: Some("sha256".to_string()),
        init_hash: None,
        hashes: VecByteBuf(row.iter().map(|h| ByteBuf::from(h.clone())).collect()),
        fixed_block_size: Some(block as u64),
        variable_block_sizes: None,
    }]);
    let verdict = guarded(std::panic::AssertUnwindSafe(|| {
        let mut cur = std::io::Cursor::new(asset.clone());
        bh.verify_stream_hash(&mut cur, Some("sha256"))
    }));
    let reply = match &verdict {
        Ok(Ok(())) => "true".to_string(),
        Ok(Err(c2pa::Error::HashMismatch(_))) => "false".to_string(),
        Ok(Err(e)) => format!("err:{}", format!("{e:?}").chars().take(60).collect::<String>().replace(' ', "_")),
        Err(_) => "panic".to_string(),
    };
    let idx = run.case(
        format!("C16 check n={n} pat=0 count={n} row=R{rowk} v={v_tok} loc={loc} proof={proof_tok} via=asset"),
        reply.clone(),
    );
    run.count(&format!("asset_{kind}"));
    if rowk >= 1 {
        run.nontrivial(format!("asset {kind} n={n} block={block} row={rowk} loc={loc} {proof_tok}"));
    }
    let want = if expect { "true" } else { "false" };
    if reply != want {
        *all_ok = false;
        let class = match (kind, reply.as_str()) {
            (_, "panic") => "panic",
            ("chunk-is-children-of-row-node", "true") => "inner-node-accepted-as-leaf",
            (_, "true") => "altered-asset-accepted",
            _ => "honest-asset-rejected",
        };
        run.fail(idx, class, format!("{kind}: {n} chunks, block size {block}, stored row {rowk}, leaf {loc}: BmffHash::verify_stream_hash says {reply}, the statement requires {want}"));
    }
}

// ---- chunk placement: the leaf index is the position of the chunk ---------------------------------
//
// The `location` of a leaf comes from the chunk's C2PA `merkle` uuid box, which no hash covers (uuid
// boxes and mdat are excluded from the flat hash).  The statement ("verifies against the stored hashes
// at that leaf's index; no other ... index ... verifies") therefore needs the validator to use the
// chunk's own position as the index.  These cases move a chunk TOGETHER with its box.

/// one chunk as placed in the stream, with the uuid box that travels with it
#[derive(Clone)]
struct Placed {
    /// content token: `<tree>.<leaf>` (the honest chunk `leaf` of mdat `tree`)
    tok: String,
    bytes: Vec<u8>,
    loc: usize,
    proof: Option<Vec<Vec<u8>>>,
    /// tree the proof nodes come from
    ptree: usize,
}

struct MdatSpec {
    n: usize,
    rowk: usize,
    block: usize,
    tree: C2PAMerkleTree,
    chunks: Vec<Vec<u8>>,
}

fn placed_proof_tok(specs: &[MdatSpec], p: &Placed) -> String {
    match &p.proof {
        None => "none".to_string(),
        Some(v) if v.is_empty() => "-".to_string(),
        Some(v) => v
            .iter()
            .map(|d| node_token(&specs[p.ptree].tree, d).replacen('N', &format!("{}.", p.ptree), 1))
            .collect::<Vec<_>>()
            .join("+"),
    }
}

fn honest_placed(specs: &[MdatSpec]) -> Vec<Vec<Placed>> {
    specs
        .iter()
        .enumerate()
        .map(|(t, sp)| {
            (0..sp.n)
                .map(|i| {
                    let p = sp.tree.get_proof_by_index(i, sp.rowk).unwrap_or_default();
                    Placed {
                        tok: format!("{t}.{i}"),
                        bytes: sp.chunks[i].clone(),
                        loc: i,
                        proof: if p.is_empty() { None } else { Some(p) },
                        ptree: t,
                    }
                })
                .collect()
        })
        .collect()
}

fn verdict_str(v: &Result<c2pa::Result<()>, String>) -> String {
    match v {
        Ok(Ok(())) => "true".to_string(),
        Ok(Err(c2pa::Error::HashMismatch(_))) => "false".to_string(),
        Ok(Err(e)) => format!("err:{}", format!("{e:?}").chars().take(60).collect::<String>().replace(' ', "_")),
        Err(_) => "panic".to_string(),
    }
}

/// mdat path, UUID-box branch of `validate_merkle_maps_mdat_boxes`, one to three mdat boxes
fn placement_case(run: &mut Run, r: &mut Rng, all_ok: &mut bool) {
    let nm = match r.below(8) {
        0..=3 => 1usize,
        4..=6 => 2,
        _ => 3,
    };
    let same_n = r.chance(1, 2);
    let n0 = r.range(2, 9) as usize;
    let specs: Vec<MdatSpec> = (0..nm)
        .map(|_| {
            let n = if same_n { n0 } else { r.range(2, 9) as usize };
            let block = if r.chance(1, 2) { 64 } else { r.range(65, 160) as usize };
            let chunks: Vec<Vec<u8>> = (0..n).map(|_| r.bytes(block)).collect();
            let leaves: Vec<MerkleNode> = chunks.iter().map(|c| MerkleNode(sha(&[c]))).collect();
            let tree = C2PAMerkleTree::from_leaves(leaves, "sha256", false);
            let rowk = r.below(tree.layers.len() as u64) as usize;
            MdatSpec { n, rowk, block, tree, chunks }
        })
        .collect();
    let honest = honest_placed(&specs);
    let mut placed = honest.clone();
    let t = r.below(nm as u64) as usize;
    let n = specs[t].n;
    let i = r.below(n as u64) as usize;
    let j = (i + 1 + r.below(n as u64 - 1) as usize) % n;
    let mut kind = "honest";
    match r.below(10) {
        0 | 1 => {
            kind = "chunk-and-box-duplicated";
            placed[t][j] = honest[t][i].clone();
        }
        2 | 3 => {
            kind = "chunk-and-box-swapped";
            placed[t].swap(i, j);
        }
        4 => {
            kind = "all-chunks-and-boxes-same";
            for q in 0..n {
                placed[t][q] = honest[t][i].clone();
            }
        }
        5 => {
            kind = "chunks-and-boxes-rotated";
            placed[t].rotate_left(1 + r.below(n as u64 - 1) as usize);
        }
        6 => {
            // needs a second mdat with the same chunk length; otherwise stays honest
            let u = (t + 1) % nm;
            if u != t && specs[u].block == specs[t].block {
                let q = r.below(specs[u].n as u64) as usize;
                if specs[u].n == n && r.chance(1, 2) {
                    kind = "mdat-groups-swapped";
                    placed.swap(t, u);
                } else {
                    kind = "chunk-and-box-copied-across-mdats";
                    placed[u][q] = honest[t][i].clone();
                }
            }
        }
        7 => {
            kind = "boxes-only-swapped";
            let (a, b) = (placed[t][i].clone(), placed[t][j].clone());
            placed[t][i] = Placed { tok: a.tok, bytes: a.bytes, ..b.clone() };
            placed[t][j] = Placed { tok: b.tok, bytes: b.bytes, ..a };
        }
        _ => {}
    }

    // the stream: ftyp, the mdat boxes, then the uuid boxes in mdat order
    let mut f = vec![];
    f.extend_from_slice(&20u32.to_be_bytes());
    f.extend_from_slice(b"ftypisom\0\0\0\0isom");
    for group in &placed {
        let payload: usize = group.iter().map(|c| c.bytes.len()).sum();
        f.extend_from_slice(&((8 + 8 + payload) as u32).to_be_bytes());
        f.extend_from_slice(b"mdat");
        f.extend_from_slice(b"EXCLUDED");
        for c in group {
            f.extend_from_slice(&c.bytes);
        }
    }
    for (m, group) in placed.iter().enumerate() {
        for c in group {
            f.extend_from_slice(&merkle_uuid_box(&bmff_merkle_map_cbor_id(m, c.loc, &c.proof)));
        }
    }
    // local ids as the SDK assigns them (the mdat index), sometimes other distinct numbers
    let lids: Vec<usize> = if r.chance(2, 3) { (0..nm).collect() } else { (0..nm).map(|m| 7 + 5 * (nm - m)).collect() };
    let mut bh = BmffHash::new("jumbf manifest", "sha256", None);
    bh.set_default_exclusions();
    bh.set_merkle(
        specs
            .iter()
            .enumerate()
            .map(|(m, sp)| MerkleMap {
                unique_id: lids[m],
                local_id: lids[m],
                count: sp.n,
                alg: Some("sha256".to_string()),
                init_hash: None,
                hashes: VecByteBuf(sp.tree.layers[sp.rowk].iter().map(|h| ByteBuf::from(h.0.clone())).collect()),
                fixed_block_size: Some(sp.block as u64),
                variable_block_sizes: None,
            })
            .collect(),
    );
    // the verdict must not depend on the run: repeat (each call builds fresh hash maps)
    let reps = if nm >= 2 { 6 } else { 2 };
    let verdicts: Vec<String> = (0..reps)
        .map(|_| {
            verdict_str(&guarded(std::panic::AssertUnwindSafe(|| {
                let mut cur = std::io::Cursor::new(f.clone());
                bh.verify_stream_hash(&mut cur, Some("sha256"))
            })))
        })
        .collect();
    let stable = verdicts.iter().all(|v| *v == verdicts[0]);
    let reply = if stable { verdicts[0].clone() } else { "unstable".to_string() };

    let req = format!(
        "C16 mdats trees={} mm={} chunks={} boxes={}",
        specs.iter().map(|s| s.n.to_string()).collect::<Vec<_>>().join(","),
        specs.iter().enumerate().map(|(m, s)| format!("{}:{m}:{}:{}", lids[m], s.n, s.rowk)).collect::<Vec<_>>().join(";"),
        placed.iter().map(|g| g.iter().map(|c| c.tok.clone()).collect::<Vec<_>>().join(",")).collect::<Vec<_>>().join(";"),
        placed.iter().flatten().map(|c| format!("{}:{}", c.loc, placed_proof_tok(&specs, c))).collect::<Vec<_>>().join(";"),
    );
    let idx = run.case(req, reply.clone());
    run.count(&format!("placement_{kind}"));
    run.count(&format!("placement_mdats_{nm}"));
    run.nontrivial(format!("placement {kind} nm={nm} n={n} rows={:?} i={i} j={j}", specs.iter().map(|s| s.rowk).collect::<Vec<_>>()));

    // independent oracle: the content at every chunk position is the committed content
    let content_intact = placed.iter().zip(&specs).all(|(g, sp)| g.len() == sp.n && g.iter().zip(&sp.chunks).all(|(c, h)| c.bytes == *h));
    let want = if kind == "honest" { "true" } else { "false" };
    if reply != want {
        *all_ok = false;
        let class = if reply == "panic" {
            "panic"
        } else if !content_intact && verdicts.iter().any(|v| v == "true") {
            "chunk-moved-with-its-box-accepted"
        } else if kind == "honest" && nm >= 2 {
            "honest-multi-mdat-rejected"
        } else if kind == "honest" {
            "honest-asset-rejected"
        } else if verdicts.iter().any(|v| v == "true") {
            "altered-asset-accepted"
        } else {
            "unexpected-error"
        };
        run.fail(
            idx,
            class,
            format!(
                "{kind}: {nm} mdat(s), chunks per mdat {:?}, stored rows {:?}, mdat {t} positions {i},{j}: content at every position {} the committed content; BmffHash::verify_stream_hash x{reps} says {verdicts:?}, the statement requires {want}",
                specs.iter().map(|s| s.n).collect::<Vec<_>>(),
                specs.iter().map(|s| s.rowk).collect::<Vec<_>>(),
                if content_intact { "is" } else { "is NOT" }
            ),
        );
    }
}

/// fragmented branch of `verify_stream_hash` (single file holding all fragments): chunk `index` is the
/// box run moof..next moof; its uuid box is `bmff_merkle[index]`.  With bmff hash version 1 (still accepted
/// on validation) the chunk hash does not include box offsets, so a fragment can be moved; with version
/// >= 2 the offsets of the top-level boxes are hashed with the chunk, which binds the position already.
fn fragment_case(run: &mut Run, r: &mut Rng, all_ok: &mut bool) {
    let n = r.range(2, 8) as usize;
    let block = r.range(16, 96) as usize;
    // fragment = moof{mfhd} + mdat, all of one length
    let frags: Vec<Vec<u8>> = (0..n)
        .map(|k| {
            let mut f = vec![];
            f.extend_from_slice(&24u32.to_be_bytes());
            f.extend_from_slice(b"moof");
            f.extend_from_slice(&16u32.to_be_bytes());
            f.extend_from_slice(b"mfhd");
            f.extend_from_slice(&[0, 0, 0, 0]);
            f.extend_from_slice(&(k as u32 + 1).to_be_bytes());
            f.extend_from_slice(&((8 + block) as u32).to_be_bytes());
            f.extend_from_slice(b"mdat");
            f.extend_from_slice(&r.bytes(block));
            f
        })
        .collect();
    let mut bh = BmffHash::new("jumbf manifest", "sha256", None);
    bh.set_default_exclusions();
    bh.set_bmff_version(1);
    let assemble = |units: &[(Vec<u8>, Vec<u8>)]| -> Vec<u8> {
        let mut f = vec![];
        f.extend_from_slice(&20u32.to_be_bytes());
        f.extend_from_slice(b"ftypisom\0\0\0\0isom");
        for (b, fr) in units {
            f.extend_from_slice(b);
            f.extend_from_slice(fr);
        }
        f
    };
    let rowk = r.below(C2PAMerkleTree::to_layout(n).len() as u64) as usize;
    // version 1: the leaf is the plain hash of the fragment's bytes (uuid boxes are excluded)
    let leaves: Vec<Vec<u8>> = frags.iter().map(|f| sha(&[f])).collect();
    let tree = C2PAMerkleTree::from_leaves(leaves.iter().map(|l| MerkleNode(l.clone())).collect(), "sha256", false);
    let spec = MdatSpec { n, rowk, block, tree, chunks: frags.clone() };
    let specs = [spec];
    let honest = honest_placed(&specs).remove(0);
    let mut placed = honest.clone();
    let i = r.below(n as u64) as usize;
    let j = (i + 1 + r.below(n as u64 - 1) as usize) % n;
    let mut kind = "honest";
    match r.below(7) {
        0 | 1 => {
            kind = "chunk-and-box-duplicated";
            placed[j] = honest[i].clone();
        }
        2 | 3 => {
            kind = "chunk-and-box-swapped";
            placed.swap(i, j);
        }
        4 => {
            kind = "all-chunks-and-boxes-same";
            for q in 0..n {
                placed[q] = honest[i].clone();
            }
        }
        _ => {}
    }
    let units: Vec<(Vec<u8>, Vec<u8>)> = placed.iter().map(|c| (merkle_uuid_box(&bmff_merkle_map_cbor(c.loc, &c.proof)), c.bytes.clone())).collect();
    let stream = assemble(&units);
    bh.set_merkle(vec![MerkleMap {
        unique_id: 0,
        local_id: 0,
        count: n,
        alg: Some("sha256".to_string()),
        init_hash: None,
        hashes: VecByteBuf(specs[0].tree.layers[rowk].iter().map(|h| ByteBuf::from(h.0.clone())).collect()),
        fixed_block_size: None,
        variable_block_sizes: None,
    }]);
    let reply = verdict_str(&guarded(std::panic::AssertUnwindSafe(|| {
        let mut cur = std::io::Cursor::new(stream.clone());
        bh.verify_stream_hash(&mut cur, Some("sha256"))
    })));
    let req = format!(
        "C16 frags trees={n} mm=0:0:{n}:{rowk} chunks={} boxes={}",
        placed.iter().map(|c| c.tok.clone()).collect::<Vec<_>>().join(","),
        placed.iter().map(|c| format!("{}:{}", c.loc, placed_proof_tok(&specs, c))).collect::<Vec<_>>().join(";"),
    );
    let idx = run.case(req, reply.clone());
    run.count(&format!("fragment_v1_{kind}"));
    run.nontrivial(format!("fragment v1 {kind} n={n} row={rowk} i={i} j={j}"));
    let want = if kind == "honest" { "true" } else { "false" };
    if reply != want {
        *all_ok = false;
        let class = match (kind, reply.as_str()) {
            (_, "panic") => "panic",
            ("honest", _) => "honest-asset-rejected",
            (_, "true") => "chunk-moved-with-its-box-accepted",
            _ => "unexpected-error",
        };
        run.fail(idx, class, format!("fragmented stream (bmff hash v1), {kind}: {n} fragments, stored row {rowk}, positions {i},{j}: verify_stream_hash says {reply}, the statement requires {want}"));
    }
}

fn mutation(run: &mut Run, w: &mut World, r: &mut Rng, nmax: usize, dup_nmax: usize) {
    // sizes: biased to small and to the neighbourhood of powers of two
    let n = match r.below(4) {
        0 => r.range(1, 9) as usize,
        1 => {
            let p = 1usize << r.range(1, 8);
            (p + r.below(3) as usize).saturating_sub(1).clamp(1, nmax)
        }
        _ => r.range(1, nmax as u64) as usize,
    };
    let pat = if n <= dup_nmax && r.chance(1, 4) { *r.pick(&[1usize, 2, 3, 5]) } else { 0 };
    let t = w.tree(n, pat);
    let nl = t.tree.layers.len();
    let depth = r.below(nl as u64 + 1) as usize;
    let rowk = depth.min(nl - 1);
    let i = r.below(n as u64) as usize;
    let honest = match guarded(std::panic::AssertUnwindSafe(|| t.tree.get_proof_by_index(i, depth))) {
        Ok(Ok(p)) => p,
        _ => return,
    };
    // honest proof as values (coordinates of the implementation's own layers)
    let honest_vals: Vec<Val> = honest
        .iter()
        .map(|d| t.first.get(d).map(|(k, m)| Val::N(*k, *m)).unwrap_or(Val::L(999_999_999)))
        .collect();
    let leaf = t.tree.leaves[i].0.clone();

    let mut count = n;
    let mut row_s = format!("R{rowk}");
    let mut row = row_of(&t, rowk);
    let mut v = Val::N(0, i);
    let mut loc = i;
    let mut proof: Option<Vec<Val>> = Some(honest_vals.clone());
    // expected verdict by the property statement, when the statement decides it
    let mut expect: Option<bool> = None;
    let kind;
    match r.below(16) {
        13 | 14 => {
            // one consumed proof element replaced by a byte string that is not a digest
            kind = "proof-elem-bytes";
            if honest_vals.is_empty() {
                expect = Some(true);
            } else {
                let pos = r.below(honest_vals.len() as u64) as usize;
                let (k, m) = match honest_vals[pos] {
                    Val::N(k, m) => (k, m),
                    _ => (0, 0),
                };
                let mut p = honest_vals.clone();
                match r.below(4) {
                    0 => p[pos] = Val::T(k, m),
                    1 => p[pos] = Val::P(k, m),
                    2 => {
                        // split in two elements
                        p[pos] = Val::A(k, m);
                        p.insert(pos + 1, Val::B(k, m));
                    }
                    _ => {
                        // only the second half is left
                        p[pos] = Val::B(k, m);
                    }
                }
                proof = Some(p);
                expect = Some(false);
            }
        }
        15 => {
            // the value itself is not a digest (plain wrong lengths; no crafted re-splitting)
            kind = "value-bytes";
            v = match r.below(4) {
                0 => Val::T(0, i),
                1 => Val::P(0, i),
                2 => Val::A(0, i),
                _ => Val::B(0, i),
            };
            if r.chance(1, 3) {
                proof = None;
            }
            expect = Some(false);
        }
        0 => {
            kind = "leaf";
            v = random_val(&t, r);
            if v.digest(w, &t) != leaf {
                expect = Some(false);
            }
        }
        1 => {
            kind = "index";
            loc = if r.chance(1, 2) && n > 1 { (i ^ 1).min(n - 1) } else { r.below(n as u64) as usize };
            if t.tree.leaves[loc].0 != leaf {
                expect = Some(false);
            } else if loc == i {
                expect = Some(true);
            }
        }
        2 | 3 => {
            kind = "proof-elem";
            if honest_vals.is_empty() {
                expect = Some(true);
            } else {
                let pos = r.below(honest_vals.len() as u64) as usize;
                let nv = random_val(&t, r);
                let changed = nv.digest(w, &t) != honest[pos];
                let mut p = honest_vals.clone();
                p[pos] = nv;
                proof = Some(p);
                expect = Some(!changed);
            }
        }
        4 => {
            kind = "proof-drop";
            if honest_vals.is_empty() {
                expect = Some(true);
            } else {
                let pos = r.below(honest_vals.len() as u64) as usize;
                let mut p = honest_vals.clone();
                p.remove(pos);
                proof = Some(p);
                expect = Some(false);
            }
        }
        5 => {
            kind = "proof-extra";
            let mut p = honest_vals.clone();
            for _ in 0..r.range(1, 3) {
                p.push(random_val(&t, r));
            }
            proof = Some(p);
            // unconsumed trailing elements: the statement does not decide; compared with the model only
        }
        6 => {
            kind = "proof-swap";
            if honest_vals.len() >= 2 {
                let a = r.below(honest_vals.len() as u64) as usize;
                let b = (a + 1 + r.below(honest_vals.len() as u64 - 1) as usize) % honest_vals.len();
                let mut p = honest_vals.clone();
                p.swap(a, b);
                if honest[a] != honest[b] {
                    expect = Some(false);
                }
                proof = Some(p);
            } else {
                expect = Some(true);
            }
        }
        7 => {
            kind = "none-proof";
            proof = None;
            let k = if r.chance(1, 3) { 0 } else { r.below(nl as u64) as usize };
            row_s = format!("R{k}");
            row = row_of(&t, k);
            match r.below(3) {
                0 => {}
                1 => v = Val::N(k, i >> k),
                _ => v = random_val(&t, r),
            }
            // the absent proof is the wire form of the empty proof: accepted iff the value is the
            // committed leaf and that leaf is carried up unpaired to row k
            expect = Some(v.digest(w, &t) == leaf && needs_no_sibling(n, i, k));
        }
        8 => {
            kind = "count";
            count = match r.below(4) {
                0 => 0,
                1 => n + 1,
                2 => n.saturating_sub(1),
                _ => r.range(0, 2 * n as u64 + 2) as usize,
            };
            if count == n {
                expect = Some(true);
            } else if loc >= count {
                expect = Some(false);
            }
        }
        9 => {
            kind = "other-row";
            let k = r.below(nl as u64) as usize;
            row_s = format!("R{k}");
            row = row_of(&t, k);
            if k == rowk {
                expect = Some(true);
            }
        }
        10 => {
            kind = "row-entry";
            // explicit row with one entry replaced
            let nn = row.len();
            let pos = if r.chance(1, 2) { i >> rowk } else { r.below(nn as u64) as usize };
            let nv = random_val(&t, r);
            let nd = nv.digest(w, &t);
            let hit = pos == (i >> rowk);
            let changed = nd != row[pos];
            let mut rv: Vec<Val> = (0..nn).map(|m| Val::N(rowk, m)).collect();
            rv[pos] = nv;
            row[pos] = nd;
            row_s = vals_s(&rv);
            if n > 48 {
                // keep request lines short: fall back to the unmodified row
                row_s = format!("R{rowk}");
                row = row_of(&t, rowk);
                expect = Some(true);
            } else if hit && changed {
                expect = Some(false);
            } else {
                expect = Some(true);
            }
        }
        11 => {
            kind = "loc-out-of-range";
            loc = n + r.below(3) as usize + if r.chance(1, 4) { 1 << 20 } else { 0 };
            expect = Some(false);
        }
        _ => {
            kind = "honest";
            expect = Some(true);
        }
    }
    let vd = v.digest(w, &t);
    let pd: Option<Vec<Vec<u8>>> = proof.as_ref().map(|p| p.iter().map(|x| x.digest(w, &t)).collect());
    let got = guarded(std::panic::AssertUnwindSafe(|| check(count, &row, &vd, loc, &pd)));
    let req = format!(
        "C16 check n={n} pat={pat} count={count} row={row_s} v={} loc={loc} proof={}",
        v.s(),
        match &proof {
            None => "none".to_string(),
            Some(p) => vals_s(p),
        }
    );
    run.count(&format!("mut_{kind}"));
    if n >= 2 && rowk >= 1 {
        run.nontrivial(req.clone());
    }
    match got {
        Ok(b) => {
            let idx = run.case(req, b.to_string());
            run.count(if b { "mut_accepted" } else { "mut_rejected" });
            if let Some(e) = expect {
                if e != b {
                    let class = if b { "altered-input-accepted" } else { "honest-proof-rejected" };
                    run.fail(idx, class, format!("{kind}: n={n} row={rowk} index={i}: check_merkle_tree returned {b}, the statement requires {e}"));
                }
            }
        }
        Err(p) => {
            let idx = run.case(req, "panic".to_string());
            run.fail(idx, "panic", format!("{kind}: check_merkle_tree panicked: {p}"));
        }
    }
}
