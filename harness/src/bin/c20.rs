//! C20 — redaction removes exactly the requested assertions and stays verifiable.
//!
//! Request lines (see lean/C2paModel/Model/C20.lean for the grammar):
//!   C20 verify claims=<claim>|<claim>…        -> ok|err <code>@<A|I>,…
//!   C20 redact claim=<claim> uri=<uri>        -> ok <labels> B=- | err:invalid | err:notfound
//!   C20 addi self=… reqs=… batch=<claims>     -> ok R=<redactions> <label>:<labels> … | err:…
//!   C20 post applied=… reqs=…                 -> 0|1
//!   C20 differs c1=<claim> c2=<claim> reds=…  -> none | some <uris>
//! The claims are *descriptions of real stores* (abstraction of the loaded `Store`, hashes as
//! opaque prefixes), so every `verify` case compares the real `Store::verify_store` log with
//! the model on the same store.
//!
//! Oracle (on the implementation only): after a legal redaction through the Builder the asset is
//! Valid, the redacted assertions' marker strings are gone from the asset bytes, every other
//! marker is still there and still reported, the active manifest lists exactly the requested
//! redactions; a disallowed redaction (actions / hard binding / own assertion / unknown), a
//! silent removal and a post-signing change of an assertion are never Valid.

#[path = "../c20_common.rs"]
mod cc;

use c2pa::{
    verif_hooks::{c19 as hk19, c20 as hk},
    BuilderIntent,
};
use cc::*;
use vh::common::{fixtures, guarded, main_with, Rng, Run};

fn main() {
    main_with("C20", run);
}

struct Node {
    fmt: String,
    asset: Vec<u8>,
    /// (manifest label, note label, marker) of every note still present in the chain
    live: Vec<(String, String, String)>,
    /// markers that have been redacted somewhere below
    dead: Vec<String>,
    depth: usize,
    label: String,
    /// BMFF asset with an update manifest somewhere in the chain: the original manifest box is
    /// kept byte for byte by `BmffIO::write_cai` (open known finding, see `redact_child`)
    taint: bool,
}

fn is_bmff(fmt: &str) -> bool {
    matches!(fmt, "video/mp4" | "image/avif" | "image/heic")
}

/// formats whose container bytes outside the manifest store change when the store grows
/// (RIFF size field, TIFF offsets, ID3 sizes): an update manifest breaks the parent's data hash
fn update_breaks_data_hash(fmt: &str) -> bool {
    matches!(fmt, "image/webp" | "audio/wav" | "image/tiff" | "audio/mpeg" | "audio/flac" | "video/avi")
}

fn created() -> serde_json::Value {
    serde_json::from_str(CREATED_ACTION).unwrap()
}

/// correspondence case for a real store given as JUMBF: abstraction → model, real validator → impl
fn verify_case(run: &mut Run, jumbf: &[u8], kind: &str) -> Option<usize> {
    let store = match load_store(jumbf) {
        Ok(s) => s,
        Err(e) => {
            run.notes.push(format!("{kind}: store does not load: {}", err_class(&e)));
            return None;
        }
    };
    let line = abs_store(&store);
    if !protocol_safe(&line) {
        run.notes.push(format!("{kind}: store not expressible in the protocol"));
        return None;
    }
    // hypothesis of `redact_assertion_gone`: (label, instance) pairs are unique within every
    // assertion store the harness meets (stores parsed from JUMBF included)
    for c in store.claims() {
        let mut keys: Vec<String> = c.claim_assertion_store().iter().map(|a| a.label()).collect();
        let n = keys.len();
        keys.sort();
        keys.dedup();
        if keys.len() != n {
            run.obligations.insert("assertion-keys-unique".into(), false);
        }
    }
    let imp = impl_verify(&store);
    run.count(&format!("verify_{kind}"));
    let req = format!("C20 verify claims={line}");
    run.nontrivial(format!("{kind} {}", imp));
    Some(run.case(req, imp))
}

fn root_asset(run: &mut Run, fmt: &str, src: &[u8], tag: &str, nnotes: usize) -> Option<Node> {
    let notes: Vec<(String, String)> = (0..nnotes).map(|k| (format!("org.verif.n{k}"), marker(tag, &k.to_string()))).collect();
    // a second assertion with the label of the first one: it becomes instance 1 (`…n0__1`)
    let mut def_notes = notes.clone();
    def_notes.push(("org.verif.n0".to_string(), marker(tag, "dup")));
    let mut notes = notes;
    notes.push(("org.verif.n0__1".to_string(), marker(tag, "dup")));
    let d = definition(tag, fmt, vec![created()], &def_notes, None, None);
    match sign(&d, None, fmt, src, &[]) {
        Ok(asset) => {
            let r = read_asset(fmt, &asset);
            let label = r.active.clone()?;
            if !r.ok() {
                let idx = run.reqs.len().saturating_sub(1);
                run.fail(idx, "signed-asset-not-valid", format!("root asset {fmt} reads back {}", r.state));
            }
            Some(Node { fmt: fmt.into(), asset, live: notes.iter().map(|(l, m)| (label.clone(), l.clone(), m.clone())).collect(), dead: vec![], depth: 0, label, taint: false })
        }
        Err(e) => {
            run.notes.push(format!("root sign {fmt} failed: {}", err_class(&e)));
            None
        }
    }
}

/// sign a child of `parent` redacting the live notes selected by `mask`; returns the child node
fn redact_child(run: &mut Run, parent: &Node, mask: u32, intent: BuilderIntent, tag: &str, with_action: bool) -> Option<Node> {
    let fmt = parent.fmt.as_str();
    let chosen: Vec<usize> = (0..parent.live.len()).filter(|k| mask >> k & 1 == 1).collect();
    let uris: Vec<String> = chosen.iter().map(|k| assertion_uri(&parent.live[*k].0, &parent.live[*k].1)).collect();
    let own = vec![("org.verif.n0".to_string(), marker(tag, "0"))];
    let mut actions = vec![];
    if with_action {
        for u in &uris {
            actions.push(redacted_action(u));
        }
    }
    let is_update = intent == BuilderIntent::Update;
    let d = definition(tag, fmt, actions, &own, if uris.is_empty() { None } else { Some(uris.clone()) }, None);
    let kind = format!("{}_d{}_{}", if is_update { "update" } else { "edit" }, parent.depth + 1, fmt.replace('/', "-"));
    let res = guarded(|| sign(&d, Some(intent), fmt, &parent.asset, &[]));
    let asset = match res {
        Ok(Ok(a)) => a,
        Ok(Err(e)) => {
            // a legal redaction must be signable
            let idx = run.reqs.len().saturating_sub(1);
            run.fail(idx, "legal-redaction-rejected", format!("{kind}: signing with redactions {uris:?} failed: {}", err_class(&e)));
            return None;
        }
        Err(p) => {
            let idx = run.reqs.len().saturating_sub(1);
            run.fail(idx, "panic", format!("{kind}: panic while signing: {p}"));
            return None;
        }
    };
    run.count(&format!("builder_{kind}"));
    let jumbf = jumbf_of(fmt, &asset).ok()?;
    let idx = verify_case(run, &jumbf, &kind).unwrap_or(run.reqs.len().saturating_sub(1));
    // ---- oracle on the implementation
    let r = read_asset(fmt, &asset);
    if !r.ok() && is_update && update_breaks_data_hash(fmt) {
        // open known finding: an update manifest on these containers invalidates the parent's
        // data hash (bytes outside the store range change), with or without redactions
        run.fail(idx, "update-manifest-breaks-data-hash-riff-tiff-id3", format!("{kind}: redacting {uris:?} through an update manifest gives {} {:?}", r.state, r.failures));
        return None;
    }
    if !r.ok() {
        run.fail(idx, "legal-redaction-not-valid", format!("{kind}: redacting {uris:?} gives {} {:?}", r.state, r.failures));
    }
    let taint = is_bmff(fmt) && (is_update || parent.taint);
    let still_class = if taint { "redacted-data-still-present-bmff-update" } else { "redacted-data-still-present" };
    let mut live = vec![];
    let mut dead = parent.dead.clone();
    for (k, (m, l, mk)) in parent.live.iter().enumerate() {
        if chosen.contains(&k) {
            if contains(&asset, mk.as_bytes()) {
                run.fail(idx, still_class, format!("{kind}: marker of redacted {m}/{l} is still in the asset bytes"));
            }
            let reported = r.json["manifests"][m]["assertions"].as_array().map(|a| a.iter().any(|x| x["data"]["marker"] == mk.as_str())).unwrap_or(false);
            if r.ok() && reported {
                run.fail(idx, still_class, format!("{kind}: redacted {m}/{l} is still reported by the reader"));
            }
            dead.push(mk.clone());
        } else {
            if !contains(&asset, mk.as_bytes()) {
                run.fail(idx, "unrequested-assertion-removed", format!("{kind}: marker of {m}/{l} (not redacted) is gone from the asset"));
            }
            // still reported by the reader with its data
            let reported = r.json["manifests"][m]["assertions"].as_array().map(|a| a.iter().any(|x| x["data"]["marker"] == mk.as_str())).unwrap_or(false);
            if r.ok() && !reported {
                run.fail(idx, "unrequested-assertion-removed", format!("{kind}: {m}/{l} is no longer reported"));
            }
            live.push((m.clone(), l.clone(), mk.clone()));
        }
    }
    for mk in &parent.dead {
        if contains(&asset, mk.as_bytes()) {
            run.fail(idx, still_class, format!("{kind}: a marker redacted at a lower level reappeared"));
        }
    }
    // redactions listed = requested (as sets)
    let mut listed = r.redactions.clone().unwrap_or_default();
    listed.sort();
    listed.dedup();
    let mut want = uris.clone();
    want.sort();
    if r.ok() && listed != want {
        run.fail(idx, "listed-redactions-differ", format!("{kind}: requested {want:?}, listed {listed:?}"));
    }
    // the Builder's post-check on what it really listed: the model must accept too
    if !uris.is_empty() {
        let applied = r.redactions.clone().unwrap_or_default();
        run.case(format!("C20 post applied={} reqs={}", opt_list(if applied.is_empty() { None } else { Some(applied.as_slice()) }), opt_list(Some(uris.as_slice()))), "1".into());
    }
    let label = r.active.clone()?;
    for (l, mk) in &own {
        live.push((label.clone(), l.clone(), mk.clone()));
    }
    Some(Node { fmt: fmt.into(), asset, live, dead, depth: parent.depth + 1, label, taint })
}

/// a request the signer must refuse (or, if it signs, the result must not be Valid)
fn disallowed_builder(run: &mut Run, parent: &Node, uri: String, what: &str, own_label: Option<&str>) {
    let fmt = parent.fmt.as_str();
    let d = definition("bad", fmt, vec![redacted_action(&uri)], &[("org.verif.own".into(), "x".into())], Some(vec![uri.clone()]), own_label);
    let res = guarded(|| sign(&d, Some(BuilderIntent::Edit), fmt, &parent.asset, &[]));
    run.count(&format!("builder_disallowed_{what}"));
    // the Builder's post-check (`applied` = nothing, since `redact_assertion` refuses or finds
    // nothing): model says 0 = refuse; the implementation side is what `Builder::sign` really did
    let req = format!("C20 post applied=- reqs={uri}");
    let imp = match &res {
        Ok(Ok(_)) => "1",
        _ => "0",
    };
    let idx = run.case(req, imp.into());
    run.nontrivial(format!("disallowed {what} {}", parent.depth));
    match res {
        Ok(Err(_)) => {}
        Ok(Ok(asset)) => {
            let r = read_asset(fmt, &asset);
            if r.ok() {
                run.fail(idx, "disallowed-redaction-valid", format!("Builder accepted the redaction of {what} ({uri}) and the result is {}", r.state));
            }
        }
        Err(p) => run.fail(idx, "panic", format!("panic while signing a disallowed redaction of {what}: {p}")),
    }
}

/// post-hoc surgery on the store of a valid asset; result is read as a sidecar against the
/// unchanged asset so that only the surgery can make it fail
fn surgery(run: &mut Run, node: &Node) {
    let fmt = node.fmt.as_str();
    let Ok(jumbf) = jumbf_of(fmt, &node.asset) else { return };
    // control: the untouched store read as a sidecar is Valid
    let control = read_sidecar(&jumbf, fmt, &node.asset);
    if !control.ok() {
        run.notes.push(format!("sidecar control of depth {} is {} {:?}", node.depth, control.state, control.failures));
        return;
    }
    // (1) silent removal of each live note
    for (m, l, mk) in &node.live {
        let Ok(mut store) = load_store(&jumbf) else { continue };
        let uri = assertion_uri(m, l);
        let Some(claim) = store.get_claim_mut(m) else { continue };
        if hk::claim_redact_assertion(claim, &uri).is_err() {
            continue;
        }
        let Ok(j2) = hk19::store_to_jumbf(&store, 0) else { continue };
        if contains(&j2, mk.as_bytes()) {
            run.notes.push("surgery did not remove the assertion".into());
            continue;
        }
        let kind = if *m == node.label { "silent_removal_active" } else { "silent_removal_ingredient" };
        let idx = verify_case(run, &j2, kind).unwrap_or(run.reqs.len().saturating_sub(1));
        let r = read_sidecar(&j2, fmt, &node.asset);
        if r.ok() {
            run.fail(idx, "silent-removal-valid", format!("{m}/{l} removed without a redaction entry (depth {}), reader says {}", node.depth, r.state));
        }
    }
    // (1b) silent removal of every other assertion (actions, hard binding, ingredient, …) by
    // cutting its box out of the serialised store (`Claim::redact_assertion` refuses actions
    // and hard bindings)
    if let Ok(store) = load_store(&jumbf) {
        for (m, ls) in manifest_assertion_labels(&store) {
            for l in ls {
                // live notes are handled by (1); a note that is in the store but not live is one a
                // redaction entry covers and that BMFF update manifests leave in the `original`
                // box (open finding): cutting it out is what the redaction asked for
                if l.starts_with("org.verif.") {
                    continue;
                }
                let Some(j2) = jumbf_remove_assertion(&jumbf, &m, &l) else {
                    run.notes.push(format!("surgery: box {m}/{l} not found"));
                    continue;
                };
                let class_of = if l.starts_with("c2pa.actions") { "actions" } else if l.starts_with("c2pa.hash.") { "hash" } else if l.starts_with("c2pa.ingredient") { "ingredient" } else { "other" };
                let kind = format!("box_removal_{class_of}_{}", if m == node.label { "active" } else { "ingredient" });
                run.count(&kind);
                // rules of verify_actions that fire when the actions assertion or the ingredient
                // an action refers to is gone are not modelled: implementation oracle only
                let idx = if class_of == "hash" || class_of == "other" { verify_case(run, &j2, &kind) } else { None }.unwrap_or(run.reqs.len().saturating_sub(1));
                let r = read_sidecar(&j2, fmt, &node.asset);
                if r.ok() {
                    run.fail(idx, "silent-removal-valid", format!("{m}/{l} cut out of the store without a redaction entry (depth {}), reader says {}", node.depth, r.state));
                } else {
                    run.nontrivial(format!("box removal {class_of} {} {}", m == node.label, node.depth));
                }
            }
        }
    }
    // (2) post-signing change of assertion data (one byte of the marker)
    for (m, l, mk) in &node.live {
        let mut j2 = jumbf.clone();
        if let Some(p) = j2.windows(mk.len()).position(|w| w == mk.as_bytes()) {
            j2[p + 3] ^= 0x01;
        } else {
            continue;
        }
        let kind = if *m == node.label { "data_change_active" } else { "data_change_ingredient" };
        let idx = verify_case(run, &j2, kind).unwrap_or(run.reqs.len().saturating_sub(1));
        let r = read_sidecar(&j2, fmt, &node.asset);
        if r.ok() {
            run.fail(idx, "changed-assertion-valid", format!("{m}/{l} changed after signing (depth {}), reader says {}", node.depth, r.state));
        }
    }
}

/// crafted active claims carrying redaction lists the signer would refuse
fn crafted_disallowed(run: &mut Run, rng: &mut Rng, node: &Node, src: &[u8]) {
    let fmt = node.fmt.as_str();
    let Ok(pj) = jumbf_of(fmt, &node.asset) else { return };
    let Ok(pstore) = load_store(&pj) else { return };
    let labels = manifest_assertion_labels(&pstore);
    let own = urn(0xC20_0000 + rng.below(0xFFFF) as u32);
    let mut targets: Vec<(String, Vec<String>, bool)> = vec![]; // (what, redaction list, must be flagged)
    for (m, ls) in &labels {
        for l in ls {
            let u = assertion_uri(m, l);
            if l.starts_with("c2pa.actions") {
                targets.push(("actions".into(), vec![u], true));
            } else if l.starts_with("c2pa.hash.") {
                targets.push(("hash".into(), vec![u], true));
            }
        }
    }
    targets.push(("self".into(), vec![assertion_uri(&own, "org.verif.x0")], true));
    targets.push(("self_actions".into(), vec![assertion_uri(&own, "c2pa.actions.v2")], true));
    if let Some((m, l, _)) = node.live.first() {
        // a legal entry next to an illegal one
        targets.push(("mixed".into(), vec![assertion_uri(m, l), assertion_uri(&own, "org.verif.x0")], true));
        // control: only the legal entry, really applied by the signer's routine
        targets.push(("control".into(), vec![assertion_uri(m, l)], false));
    }
    struct T {
        what: String,
        reds: Vec<String>,
        /// Some(true): must not be Valid; Some(false): must be Valid; None: observation only
        must_flag: Option<bool>,
        prerec: Vec<(String, String)>,
        /// (manifest, assertion label) removed from the ingredient store before it is loaded
        strip: Option<(String, String)>,
        silent: Vec<String>,
        rehash: bool,
    }
    let mut ts: Vec<T> = targets.iter().map(|(w, r, f)| T { what: w.clone(), reds: r.clone(), must_flag: Some(*f), prerec: vec![], strip: None, silent: vec![], rehash: false }).collect();
    // the same disallowed targets with exactly the failure status the validator will log for them
    // pre-recorded in the validation results of the crafted claim's own ingredient assertion
    // (`ValidationResults::from_store` drops a logged status whose URL names another manifest
    // when an equal status is found in any ingredient assertion of the store), with the target
    // left in place and with the target really stripped from the ingredient
    for (what, reds, _) in &targets {
        let code = match what.as_str() {
            "actions" => "assertion.action.redacted",
            "hash" => "assertion.dataHash.redacted",
            _ => continue,
        };
        let pre: Vec<(String, String)> = reds.iter().map(|u| (code.to_string(), u.clone())).collect();
        ts.push(T { what: format!("{what}_prerec"), reds: reds.clone(), must_flag: Some(true), prerec: pre.clone(), strip: None, silent: vec![], rehash: false });
        // u = self#jumbf=/c2pa/<m>/c2pa.assertions/<l>; only hard bindings are stripped (a claim
        // without its actions assertion trips rules of verify_actions that are not modelled)
        let parts: Vec<&str> = reds[0].split('/').collect();
        if parts.len() >= 5 && what == "hash" {
            let strip = Some((parts[2].to_string(), parts[4].to_string()));
            ts.push(T { what: format!("{what}_stripped"), reds: reds.clone(), must_flag: Some(true), prerec: vec![], strip: strip.clone(), silent: vec![], rehash: false });
            ts.push(T { what: format!("{what}_stripped_prerec"), reds: reds.clone(), must_flag: Some(true), prerec: pre, strip, silent: vec![], rehash: false });
        }
    }
    // an assertion removed from the ingredient without any redaction entry: (a) after the hashed
    // URI of the ingredient was made, (b) before (the hashed URI matches the damaged manifest),
    // (c) as (b) with `assertion.missing` recorded in the ingredient assertion. (c) is what an
    // honest signer importing a damaged ingredient produces: C2PA does not re-report recorded
    // ingredient failures, so it is an observation, not a violation.
    if let Some((m, l, _)) = node.live.first() {
        let u = assertion_uri(m, l);
        ts.push(T { what: "ing_removal".into(), reds: vec![], must_flag: Some(true), prerec: vec![], strip: None, silent: vec![u], rehash: false });
    }
    // (b), (c): the assertion is one of the direct ingredient (only its hashed URI is re-made)
    if let Some((m, l, _)) = node.live.iter().find(|(m, _, _)| *m == node.label) {
        let u = assertion_uri(m, l);
        ts.push(T { what: "ing_removal_rehash".into(), reds: vec![], must_flag: Some(true), prerec: vec![], strip: None, silent: vec![u.clone()], rehash: true });
        ts.push(T { what: "ing_removal_rehash_prerec".into(), reds: vec![], must_flag: None, prerec: vec![("assertion.missing".into(), u.clone())], strip: None, silent: vec![u.clone()], rehash: true });
        // the recorded status must equal the logged one in code AND url to be dropped
        ts.push(T { what: "ing_removal_rehash_prerec_wrongurl".into(), reds: vec![], must_flag: Some(true), prerec: vec![("assertion.missing".into(), format!("{u}x"))], strip: None, silent: vec![u.clone()], rehash: true });
        ts.push(T { what: "ing_removal_rehash_prerec_wrongcode".into(), reds: vec![], must_flag: Some(true), prerec: vec![("assertion.hashedURI.mismatch".into(), u.clone())], strip: None, silent: vec![u.clone()], rehash: true });
        // not re-hashed: besides assertion.missing (ingredient scope, URL in the ingredient) the
        // validator logs ingredient.manifest.mismatch in ingredient scope with a URL that names the
        // ACTIVE manifest (its ingredient assertion); both recorded: the second one must survive
        ts.push(T {
            what: "ing_removal_prerec_all".into(),
            reds: vec![],
            must_flag: Some(true),
            prerec: vec![("assertion.missing".into(), u.clone()), ("ingredient.manifest.mismatch".into(), assertion_uri(&own, "c2pa.ingredient.v3"))],
            strip: None,
            silent: vec![u],
            rehash: false,
        });
    }
    // (a v3 ingredient assertion without validation results — the one status logged in ingredient
    // scope with a URL naming the ACTIVE manifest — cannot be made through the claim API:
    // AssertionEncoding; the `is_active_manifest` disjunct of the filter is therefore only
    // exercised on statuses nobody records)
    for t in ts {
        let what = t.what.as_str();
        let reds = &t.reds;
        let legal: Vec<String> = if what == "control" || what == "mixed" { vec![reds[0].clone()] } else { vec![] };
        let ing_jumbf = match &t.strip {
            Some((m, l)) => match jumbf_remove_assertion(&pj, m, l) {
                Some(j) => j,
                None => {
                    run.notes.push(format!("craft {what}: could not strip {m}/{l}"));
                    continue;
                }
            },
            None => pj.clone(),
        };
        let c = Craft {
            prerecorded: t.prerec.clone(),
            label: own.clone(),
            ingredients: vec![(ing_jumbf, "p".into())],
            load_redactions: if legal.is_empty() { None } else { Some(legal.clone()) },
            force_redactions: if reds.is_empty() { None } else { Some(Some(reds.clone())) },
            actions: reds.iter().map(|u| ("c2pa.redacted".to_string(), Some(u.clone()))).collect(),
            inception: "opened".into(),
            notes: vec![("org.verif.x0".into(), marker("x", "0"))],
            data_hash: true,
            silent_removals: t.silent.clone(),
            rehash: t.rehash,
            ..Default::default()
        };
        let crafted = match guarded(|| craft(&c, src)) {
            Ok(Ok(x)) => x,
            Ok(Err(e)) => {
                run.notes.push(format!("craft {what} failed: {}", err_class(&e)));
                continue;
            }
            Err(p) => {
                run.notes.push(format!("craft {what} panicked: {p}"));
                continue;
            }
        };
        let kind = format!("crafted_{what}");
        let idx = verify_case(run, &crafted.jumbf, &kind).unwrap_or(run.reqs.len().saturating_sub(1));
        filter_check(run, &crafted.jumbf, &kind);
        let r = read_sidecar(&crafted.jumbf, fmt, src);
        match t.must_flag {
            Some(true) if r.ok() => {
                let class = if what.ends_with("_prerec") { "disallowed-redaction-valid-prerecorded" } else if what.starts_with("ing_removal") { "silent-removal-valid" } else { "disallowed-redaction-valid" };
                run.fail(idx, class, format!("crafted manifest {what} (redactions {reds:?}, removed {:?}, stripped {:?}) is {}", t.silent, t.strip, r.state));
            }
            Some(false) if !r.ok() => {
                run.fail(idx, "legal-redaction-not-valid", format!("crafted control with a legal redaction is {} {:?}", r.state, r.failures));
            }
            None => {
                run.count(&format!("observation_{what}_{}", r.state));
            }
            _ => {}
        }
    }
}

/// the `from_store` filter on the real validation log of a store (model: `fromStoreFilter`)
fn filter_check(run: &mut Run, jumbf: &[u8], kind: &str) {
    let Ok(store) = load_store(jumbf) else { return };
    if let Some((req, imp, dropped)) = filter_case_of_store(&store) {
        run.count(&format!("filter_{kind}"));
        if dropped > 0 {
            run.nontrivial(format!("filter drops {dropped} {kind}"));
        }
        run.case(format!("C20 {req}"), imp);
    }
}

/// op-level differentials on real claims: redact_assertion, add_ingredient_data,
/// manifest_differs_by_redaction
fn op_cases(run: &mut Run, rng: &mut Rng, node: &Node, n: usize) {
    let Ok(jumbf) = jumbf_of(&node.fmt, &node.asset) else { return };
    let Ok(store) = load_store(&jumbf) else { return };
    let labels = manifest_assertion_labels(&store);
    let all: Vec<(String, String)> = labels.iter().flat_map(|(m, ls)| ls.iter().map(move |l| (m.clone(), l.clone()))).collect();
    let gen_uri = |rng: &mut Rng| -> String {
        let (m, l) = rng.pick(&all).clone();
        match rng.below(12) {
            0 => format!("self#jumbf=c2pa.assertions/{l}"),
            1 => assertion_uri(&m, &format!("{l}__1")),
            2 => assertion_uri(&m, &format!("{l}__0")),
            3 => assertion_uri(&urn(7), &l),
            4 => assertion_uri(&m, "org.verif.none"),
            5 => format!("self#jumbf=/c2pa/{m}/c2pa.databoxes/{l}"),
            6 => assertion_uri(&m, &l[..l.len().saturating_sub(1)]),
            7 => format!("self#jumbf=/c2pa/{m}/c2pa.signature"),
            8 => assertion_uri(&m, &format!("{l}x")),
            _ => assertion_uri(&m, &l),
        }
    };
    for _ in 0..n {
        match rng.below(3) {
            0 => {
                let c = *rng.pick(&store.claims());
                let uri = gen_uri(rng);
                let mut c2 = c.clone();
                let imp = match hk::claim_redact_assertion(&mut c2, &uri) {
                    Ok(()) => format!("ok {} B=-", join_labels(&c2)),
                    Err(c2pa::Error::AssertionInvalidRedaction) => "err:invalid".into(),
                    Err(c2pa::Error::AssertionRedactionNotFound) => "err:notfound".into(),
                    Err(e) => format!("err:{}", err_class(&e)),
                };
                run.count("op_redact");
                if imp.starts_with("ok") {
                    run.nontrivial(format!("redact {}", imp.len()));
                }
                run.case(format!("C20 redact claim={} uri={uri}", abs_claim(&store, c, true)), imp);
            }
            1 => {
                let k = rng.below(4) as usize;
                let reqs: Vec<String> = (0..k).map(|_| gen_uri(rng)).collect();
                let reqs_opt = if k == 0 && rng.chance(1, 2) { None } else { Some(reqs.clone()) };
                let self_r: Option<Vec<String>> = match rng.below(3) {
                    0 => None,
                    1 => Some(vec![]),
                    _ => Some(vec![assertion_uri(&urn(9), "org.verif.prev")]),
                };
                let batch: Vec<hk::Claim> = store.claims().into_iter().cloned().collect();
                let Ok(mut fresh) = hk::Claim::new_with_user_guid("verif", &urn(0xADD1), 2) else { continue };
                hk::claim_set_redactions(&mut fresh, self_r.clone());
                let imp = match hk::claim_add_ingredient_data(&mut fresh, batch.clone(), reqs_opt.clone()) {
                    Ok(()) => format!(
                        "ok R={} {}",
                        opt_list(fresh.redactions().map(|v| v.as_slice())),
                        fresh.claim_ingredients().iter().map(|c| format!("{}:{}", c.label(), join_labels(c))).collect::<Vec<_>>().join(" ")
                    ),
                    Err(c2pa::Error::AssertionInvalidRedaction) => "err:invalid".into(),
                    Err(c2pa::Error::AssertionRedactionNotFound) => "err:notfound".into(),
                    Err(e) => format!("err:{}", err_class(&e)),
                };
                run.count("op_addi");
                if imp.starts_with("ok") && k > 0 {
                    run.nontrivial(format!("addi {}", run.reqs.len()));
                }
                let batch_s = batch.iter().map(|c| abs_claim(&store, c, true)).collect::<Vec<_>>().join("|");
                run.case(
                    format!("C20 addi self={} reqs={} batch={batch_s}", opt_list(self_r.as_deref()), opt_list(reqs_opt.as_deref())),
                    imp,
                );
            }
            _ => {
                let c1 = *rng.pick(&store.claims());
                let mut c2 = c1.clone();
                let own: Vec<String> = c1.claim_assertion_store().iter().map(|a| assertion_uri(c1.label(), &a.label())).collect();
                let mut removed = vec![];
                for u in &own {
                    if rng.chance(1, 3) && hk::claim_redact_assertion(&mut c2, u).is_ok() {
                        removed.push(u.clone());
                    }
                }
                let mut reds: Vec<String> = removed.iter().filter(|_| rng.chance(4, 5)).cloned().collect();
                if rng.chance(1, 3) {
                    reds.push(gen_uri(rng));
                }
                let (a, b) = if rng.chance(1, 2) { (c1, &c2) } else { (&c2, c1) };
                let imp = match hk::manifest_differs_by_redaction(a, b, &reds) {
                    None => "none".to_string(),
                    Some(mut v) => {
                        v.sort();
                        format!("some {}", if v.is_empty() { "-".to_string() } else { v.join(",") })
                    }
                };
                run.count("op_differs");
                if imp.starts_with("some") && !removed.is_empty() {
                    run.nontrivial(format!("differs {}", run.reqs.len()));
                }
                run.case(
                    format!("C20 differs c1={} c2={} reds={}", abs_claim(&store, a, true), abs_claim(&store, b, true), if reds.is_empty() { "[]".to_string() } else { reds.join(",") }),
                    imp,
                );
            }
        }
    }
}

fn join_labels(c: &hk::Claim) -> String {
    let v: Vec<String> = c.claim_assertion_store().iter().map(|a| a.label()).collect();
    if v.is_empty() {
        "-".into()
    } else {
        v.join(",")
    }
}

fn opt_list(v: Option<&[String]>) -> String {
    match v {
        None => "-".into(),
        Some([]) => "[]".into(),
        Some(l) => l.join(","),
    }
}

/// two ingredients carrying the same manifest with different redactions (conflict resolution)
fn conflict_case(run: &mut Run, root: &Node, src: &[u8]) {
    if root.live.len() < 2 {
        return;
    }
    let fmt = root.fmt.as_str();
    let Some(b1) = redact_child(run, root, 0b01, BuilderIntent::Edit, "p", true) else { return };
    let Some(b2) = redact_child(run, root, 0b10, BuilderIntent::Edit, "q", true) else { return };
    let d = definition("merge", fmt, vec![created()], &[("org.verif.m0".into(), marker("m", "0"))], None, None);
    let ings = vec![
        (serde_json::json!({"title": "one", "relationship": "componentOf"}).to_string(), fmt.to_string(), b1.asset.clone()),
        (serde_json::json!({"title": "two", "relationship": "componentOf"}).to_string(), fmt.to_string(), b2.asset.clone()),
    ];
    let res = guarded(|| sign(&d, None, fmt, src, &ings));
    run.count("builder_conflicting_redactions");
    match res {
        Ok(Ok(asset)) => {
            let Ok(j) = jumbf_of(fmt, &asset) else { return };
            let idx = verify_case(run, &j, "conflict").unwrap_or(run.reqs.len().saturating_sub(1));
            let r = read_asset(fmt, &asset);
            if !r.ok() {
                run.fail(idx, "conflicting-redactions-not-valid", format!("two ingredients with different redactions of the same manifest: {} {:?}", r.state, r.failures));
            }
            for k in 0..2 {
                if contains(&asset, root.live[k].2.as_bytes()) && r.ok() {
                    // the merged ingredient manifest must not resurrect redacted data as verifiable content
                    let reported = r.json["manifests"][&root.live[k].0]["assertions"].as_array().map(|a| a.iter().any(|x| x["label"] == root.live[k].1.as_str())).unwrap_or(false);
                    run.notes.push(format!("conflict: marker {k} present in merged asset (reported={reported})"));
                }
            }
        }
        Ok(Err(e)) => run.notes.push(format!("conflict case: sign failed {}", err_class(&e))),
        Err(p) => {
            let idx = run.reqs.len().saturating_sub(1);
            run.fail(idx, "panic", format!("conflict case: {p}"));
        }
    }
}

pub fn run(run: &mut Run, rng: &mut Rng) {
    run.rule = "chains of depth 1-3 signed through the public Builder (root with 2-3 note assertions carrying marker strings; every subset of the live notes of all lower manifests redacted at each level, Edit and Update intent, JPEG/PNG (+MP4 thorough)); every produced store is loaded, described to the model and validated by the real Store::verify_store (ordered code log compared); disallowed targets through the Builder and as crafted signed manifests (hook level), silent removals and post-signing data changes at every depth read back through Reader; op-level differentials of redact_assertion / add_ingredient_data / manifest_differs_by_redaction on the real claims. non-trivial = a case whose store contains at least one redaction, removal or crafted entry, distinct by kind and resulting log".to_string();
    let thorough = run.thorough();
    let mut formats = vec![("image/jpeg", "IMG_0003.jpg"), ("image/png", "libpng-test.png"), ("video/mp4", "video1_no_manifest.mp4")];
    if thorough {
        formats.push(("image/webp", "test.webp"));
        formats.push(("image/avif", "sample1.avif"));
    }
    for (fi, (fmt, file)) in formats.iter().enumerate() {
        let Ok(src) = std::fs::read(fixtures().join(file)) else { continue };
        let nnotes = if thorough { 3 } else { 2 };
        let Some(root) = root_asset(run, fmt, &src, &format!("a{fi}"), nnotes) else { continue };
        if let Ok(j) = jumbf_of(fmt, &root.asset) {
            verify_case(run, &j, "root");
        }
        // depth 1: every subset × intent
        let mut level1 = vec![];
        for mask in 0..(1u32 << root.live.len()) {
            for intent in [BuilderIntent::Edit, BuilderIntent::Update] {
                if !thorough && fi > 0 && intent == BuilderIntent::Edit && mask != 1 {
                    continue;
                }
                if let Some(n) = redact_child(run, &root, mask, intent.clone(), &format!("b{fi}"), true) {
                    level1.push((mask, intent, n));
                }
            }
        }
        // redaction without the c2pa.redacted action (the code does not require it)
        let _ = redact_child(run, &root, 1, BuilderIntent::Edit, &format!("n{fi}"), false);
        // depth 2 and 3 on a selection of level-1 nodes
        let picks: Vec<usize> = if thorough { (0..level1.len()).collect() } else { vec![0, 1.min(level1.len().saturating_sub(1)), level1.len().saturating_sub(1)] };
        let mut deep = vec![];
        for pi in picks {
            let Some((_, _, n1)) = level1.get(pi) else { continue };
            let nsub = 1u32 << n1.live.len();
            let masks: Vec<u32> = if thorough { (0..nsub).collect() } else { vec![rng.below(nsub as u64) as u32, nsub - 1] };
            for m2 in masks {
                let intent = if rng.chance(1, 2) { BuilderIntent::Edit } else { BuilderIntent::Update };
                if let Some(n2) = redact_child(run, n1, m2, intent, &format!("c{fi}"), true) {
                    if deep.len() < if thorough { 6 } else { 2 } {
                        let nsub3 = 1u32 << n2.live.len();
                        let m3 = rng.below(nsub3 as u64) as u32;
                        let intent3 = if rng.chance(1, 2) { BuilderIntent::Edit } else { BuilderIntent::Update };
                        if let Some(n3) = redact_child(run, &n2, m3, intent3, &format!("d{fi}"), true) {
                            deep.push(n3);
                        }
                        deep.push(n2);
                    }
                }
            }
        }
        // disallowed targets through the Builder
        for node in std::iter::once(&root).chain(level1.iter().map(|x| &x.2).take(2)) {
            disallowed_builder(run, node, assertion_uri(&node.label, "c2pa.actions.v2"), "actions", None);
            disallowed_builder(run, node, assertion_uri(&node.label, "c2pa.hash.data"), "hash", None);
            disallowed_builder(run, node, assertion_uri(&node.label, "c2pa.hash.bmff.v3"), "hash", None);
            disallowed_builder(run, node, assertion_uri(&node.label, "org.verif.absent"), "unknown", None);
            let own = urn(0x5E1F);
            disallowed_builder(run, node, assertion_uri(&own, "org.verif.own"), "self", Some(&own));
        }
        // post-hoc surgery at every depth
        surgery(run, &root);
        for (_, _, n) in level1.iter().take(if thorough { 8 } else { 2 }) {
            surgery(run, n);
        }
        for n in deep.iter().take(if thorough { 6 } else { 2 }) {
            surgery(run, n);
        }
        // crafted manifests with illegal redaction lists
        crafted_disallowed(run, rng, &root, &src);
        if let Some((_, _, n)) = level1.last() {
            crafted_disallowed(run, rng, n, &src);
        }
        if let Some(n) = deep.first() {
            crafted_disallowed(run, rng, n, &src);
        }
        conflict_case(run, &root, &src);
        // op-level differentials
        let nops = if thorough { 400 } else { 60 };
        op_cases(run, rng, &root, nops);
        if let Some(n) = deep.first() {
            op_cases(run, rng, n, nops);
        }
    }
    run.obligations.insert("builder-chains-produced".into(), run.dist.keys().any(|k| k.starts_with("builder_edit_d3") || k.starts_with("builder_update_d3")));
    run.obligations.entry("assertion-keys-unique".into()).or_insert(true);
    run.obligations.insert("from-store-filter-exercised".into(), run.nontrivial.iter().any(|k| k.starts_with("filter drops")));
}
